//! C04 — dial preconditions and address selection (E3: complete enumeration of one dial per
//! case from a prepared Swarm state; oracle = independent reading of the statement).

use crate::sys::*;
use kit::ids::peer;
use libp2p_core::Multiaddr;
use libp2p_swarm::dial_opts::{DialOpts, PeerCondition};
use libp2p_swarm::{ConnectionId, DialError};
use mc::{json, Ctx, Meta, Outcome, Value};
use std::sync::{Arc, Mutex};

pub const META: Meta = Meta {
    level: "exploration",
    rule: "all cases prior-state {idle, dialing P1, connected P1, connected+dialing P1, connected P2, pending inbound, dialing P1 with override_role} x PeerCondition(4) x dial shape {peer+explicit address list (all sequences of length 0..3 over {A1,A2,AL=listen address,AX=unsupported}), peer only, unknown peer + 1 address} x behaviour-provided list (all sequences of length 0..2 over {A1,A2,AL}) x extend flag x listening on AL or not (from the idle state also after listener histories in which another address expired / was announced and expired twice); one Swarm::dial per case on a fresh real Swarm. Non-trivial = distinct cases that were rejected, or accepted with at least one address filtered out (duplicate or listen address).",
    explanation: "Oracle: condition false => Err(DialPeerConditionFalse), exactly one DialFailure for that id, counters unchanged, no transport dial; accepted => the transport saw exactly the distinct non-listened addresses (first occurrence order), each once, each ending in /p2p/<peer> when a peer was given; nothing usable => NoAddresses with one DialFailure.",
    assumptions: &["addresses already carrying a /p2p suffix are outside the alphabet (the statement does not say how they compare)", "a single probe behaviour supplies the behaviour-provided addresses"],
};

const AL: u64 = 100;

fn addr_of(i: usize) -> Multiaddr {
    match i {
        0 => a(1),
        1 => a(2),
        2 => a(AL),
        _ => unsupported(),
    }
}

#[derive(Clone, Debug, serde::Serialize, serde::Deserialize)]
pub struct Case {
    prior: u8,
    cond: u8,
    /// 0 = peer + explicit list, 1 = peer only (build without addresses), 2 = unknown peer + explicit[0]
    shape: u8,
    explicit: Vec<usize>,
    provided: Vec<usize>,
    extend: bool,
    listening: bool,
    /// listener event history before the dial (only with `listening`): 0 = NewAddress(AL);
    /// 1 = then AddressExpired for an address the listener never announced; 2 = then
    /// NewAddress(B), AddressExpired(B), AddressExpired(B) (expiry reported twice).
    /// AL stays a listen address in all of them.
    #[serde(default)]
    listen_hist: u8,
}

fn cond(c: u8) -> PeerCondition {
    match c {
        0 => PeerCondition::Always,
        1 => PeerCondition::Disconnected,
        2 => PeerCondition::NotDialing,
        _ => PeerCondition::DisconnectedAndNotDialing,
    }
}

/// returns (class, nontrivial) or a violation
fn run_case(c: &Case) -> Result<(String, bool), String> {
    ConnectionId::verif_reset_allocator(1);
    let log = Arc::new(Mutex::new(Vec::new()));
    let probe = Probe::new(0, log.clone(), DenyMask::default());
    let mut sys = SwarmSys::new(probe, log.clone(), SysCfg::default());
    if c.listening {
        let id = sys.swarm.listen_on(a(AL)).map_err(|e| format!("harness :: listen_on failed {e}"))?;
        sys.ctl.lock().unwrap().push_event(libp2p_core::transport::TransportEvent::NewAddress { listener_id: id, listen_addr: a(AL) });
        let other = a(AL + 50);
        let evs: Vec<bool> = match c.listen_hist {
            0 => vec![],
            1 => vec![false],
            _ => vec![true, false, false],
        };
        for new in evs {
            let ev = if new { libp2p_core::transport::TransportEvent::NewAddress { listener_id: id, listen_addr: other.clone() } } else { libp2p_core::transport::TransportEvent::AddressExpired { listener_id: id, listen_addr: other.clone() } };
            sys.ctl.lock().unwrap().push_event(ev);
        }
        sys.kick();
        sys.run(500);
    }
    // ---- prepare the prior state
    let dial_plain = |sys: &mut SwarmSys<Probe>, p: u8, ad: u64| {
        let o = DialOpts::peer_id(peer(p)).addresses(vec![a(ad)]).condition(PeerCondition::Always).build();
        sys.swarm.dial(o).map_err(|e| format!("harness :: preparatory dial failed: {e}"))
    };
    let resolve_last = |sys: &mut SwarmSys<Probe>, p: u8| {
        let k = *sys.ctl.lock().unwrap().open_attempts().last().unwrap();
        sys.ctl.lock().unwrap().resolve_ok(k, p);
        sys.kick();
        sys.run(500);
    };
    let (mut connected, mut dialing) = (false, false);
    match c.prior {
        1 => {
            dial_plain(&mut sys, 1, 51)?;
            dialing = true;
        }
        2 => {
            dial_plain(&mut sys, 1, 51)?;
            resolve_last(&mut sys, 1);
            connected = true;
        }
        3 => {
            dial_plain(&mut sys, 1, 51)?;
            resolve_last(&mut sys, 1);
            dial_plain(&mut sys, 1, 52)?;
            connected = true;
            dialing = true;
        }
        4 => {
            dial_plain(&mut sys, 2, 53)?;
            resolve_last(&mut sys, 2);
        }
        6 => {
            // a pending dial to P1 made "as a listener" (override_role) is a dial too
            let o = DialOpts::peer_id(peer(1)).addresses(vec![a(54)]).condition(PeerCondition::Always).override_role().build();
            sys.swarm.dial(o).map_err(|e| format!("harness :: preparatory dial failed: {e}"))?;
            dialing = true;
        }
        5 => {
            if c.listening {
                sys.ctl.lock().unwrap().incoming(0, a(AL), a(200));
                sys.kick();
                sys.run(500);
            }
        }
        _ => {}
    }
    sys.run(500);
    if sys.swarm.is_connected(&peer(1)) != connected {
        return Err(format!("harness :: preparation failed: connected={} expected {connected}", sys.swarm.is_connected(&peer(1))));
    }
    let before = {
        let i = sys.swarm.network_info();
        let cc = i.connection_counters();
        (cc.num_pending_outgoing(), cc.num_pending_incoming(), cc.num_established())
    };
    let calls_before = sys.ctl.lock().unwrap().dial_calls.len();
    let log_before = log.lock().unwrap().len();
    sys.swarm.behaviour_mut().extra_addrs = c.provided.iter().map(|&i| addr_of(i)).collect();

    // ---- the dial under test
    let explicit: Vec<Multiaddr> = c.explicit.iter().map(|&i| addr_of(i)).collect();
    let (opts, peer_given, cond_applies, explicit_used, extend) = match c.shape {
        0 => {
            let b = DialOpts::peer_id(peer(1)).condition(cond(c.cond)).addresses(explicit.clone());
            let b = if c.extend { b.extend_addresses_through_behaviour() } else { b };
            (b.build(), true, true, explicit.clone(), c.extend)
        }
        1 => (DialOpts::peer_id(peer(1)).condition(cond(c.cond)).build(), true, true, vec![], true),
        _ => (DialOpts::unknown_peer_id().address(explicit[0].clone()).build(), false, false, vec![explicit[0].clone()], false),
    };
    let cid = opts.connection_id();
    let r = sys.swarm.dial(opts);
    let calls: Vec<(Multiaddr, bool)> = sys.ctl.lock().unwrap().dial_calls[calls_before..].to_vec();
    let new_log: Vec<LogEv> = log.lock().unwrap()[log_before..].to_vec();
    let after = {
        let i = sys.swarm.network_info();
        let cc = i.connection_counters();
        (cc.num_pending_outgoing(), cc.num_pending_incoming(), cc.num_established())
    };
    let failures: Vec<&LogEv> = new_log.iter().filter(|e| matches!(e, LogEv::DialFailure { cid: x, .. } if *x == cid)).collect();

    // ---- the oracle
    let cond_true = !cond_applies
        || match c.cond {
            0 => true,
            1 => !connected,
            2 => !dialing,
            _ => !connected && !dialing,
        };
    if !cond_true {
        return match &r {
            Err(DialError::DialPeerConditionFalse(_)) => {
                if failures.len() != 1 {
                    return Err(format!("condition-false-report :: {} DialFailure events for the rejected dial (expected exactly 1)", failures.len()));
                }
                if after != before {
                    return Err(format!("condition-false-pending :: counters changed {before:?} -> {after:?}"));
                }
                if !calls.is_empty() {
                    return Err(format!("condition-false-dialed :: transport dialed {:?}", calls.iter().map(|c| aname(&c.0)).collect::<Vec<_>>()));
                }
                Ok(("rejected-condition".into(), true))
            }
            other => Err(format!("condition-ignored :: condition {:?} is false (connected={connected}, dialing={dialing}) but dial returned {:?}", cond(c.cond), other.as_ref().map_err(dial_err_class))),
        };
    }
    // expected address list
    let mut want: Vec<Multiaddr> = Vec::new();
    let mut all = explicit_used.clone();
    if extend {
        all.extend(c.provided.iter().map(|&i| addr_of(i)));
    }
    let mut filtered = false;
    for ad in all {
        if c.listening && ad == a(AL) {
            filtered = true;
            continue;
        }
        if want.contains(&ad) {
            filtered = true;
            continue;
        }
        want.push(ad);
    }
    if want.is_empty() {
        return match &r {
            Err(DialError::NoAddresses) => {
                if failures.len() != 1 {
                    return Err(format!("no-addresses-report :: {} DialFailure events (expected exactly 1)", failures.len()));
                }
                if after != before || !calls.is_empty() {
                    return Err(format!("no-addresses-side-effects :: counters {before:?}->{after:?}, transport calls {}", calls.len()));
                }
                Ok(("rejected-noaddresses".into(), true))
            }
            other => Err(format!("no-addresses-expected :: no usable address but dial returned {:?}; transport calls {:?}", other.as_ref().map_err(dial_err_class), calls.iter().map(|c| aname(&c.0)).collect::<Vec<_>>())),
        };
    }
    if let Err(e) = &r {
        return Err(format!("accepted-expected :: usable addresses {:?} but dial returned Err({})", want.iter().map(aname).collect::<Vec<_>>(), dial_err_class(e)));
    }
    let want_full: Vec<Multiaddr> = want.iter().map(|ad| if peer_given { ad.clone().with_p2p(peer(1)).unwrap() } else { ad.clone() }).collect();
    let got: Vec<Multiaddr> = calls.iter().map(|c| c.0.clone()).collect();
    for g in &got {
        if c.listening && (g == &a(AL) || g == &a(AL).with_p2p(peer(1)).unwrap()) {
            return Err(format!("dialed-listen-address :: transport was handed {}", aname(g)));
        }
        if got.iter().filter(|x| *x == g).count() > 1 {
            return Err(format!("dialed-twice :: {} handed to the transport more than once: {:?}", aname(g), got.iter().map(aname).collect::<Vec<_>>()));
        }
        if peer_given && g.iter().last() != Some(multiaddr::Protocol::P2p(peer(1))) {
            return Err(format!("missing-p2p-suffix :: {} handed to the transport without /p2p/P1", aname(g)));
        }
    }
    let mut gs = got.clone();
    let mut ws = want_full.clone();
    gs.sort_by_key(|m| m.to_string());
    ws.sort_by_key(|m| m.to_string());
    if gs != ws {
        return Err(format!("address-set :: transport was handed {:?}, expected {:?}", got.iter().map(aname).collect::<Vec<_>>(), want_full.iter().map(aname).collect::<Vec<_>>()));
    }
    if after.0 != before.0 + 1 {
        return Err(format!("accepted-not-pending :: pending outgoing {} -> {}", before.0, after.0));
    }
    if !failures.is_empty() {
        return Err("accepted-but-failure-reported :: DialFailure delivered for an accepted dial".to_string());
    }
    Ok(("accepted".into(), filtered))
}

pub fn run(ctx: &Ctx) -> Outcome {
    let mut out = Outcome::default();
    if let Some(case) = &ctx.replay {
        out.evaluations = 1;
        match serde_json::from_value::<Case>(case.clone()) {
            Ok(c) => {
                if let Err(m) = mc::catch(|| run_case(&c)).unwrap_or_else(|p| Err(format!("panic :: {p}"))) {
                    out.violation(mc::bfs::signature_of(&m), m, case.clone());
                }
            }
            Err(e) => out.machinery(format!("bad replay case {e}")),
        }
        return out;
    }
    let max_explicit = ctx.tier.pick(2, 3);
    let mut cases: Vec<Case> = Vec::new();
    for prior in 0..7u8 {
        for cnd in 0..4u8 {
            for (listening, listen_hist) in [(false, 0u8), (true, 0), (true, 1), (true, 2)] {
                // the richer listener histories only from the idle prior state
                if listen_hist > 0 && prior != 0 {
                    continue;
                }
                let mut provided: Vec<Vec<usize>> = Vec::new();
                mc::enumerate::sequences_upto(3, 2, |p| provided.push(p.to_vec()));
                for prov in &provided {
                    // shape 1: peer only
                    cases.push(Case { prior, cond: cnd, shape: 1, explicit: vec![], provided: prov.clone(), extend: true, listening, listen_hist });
                    mc::enumerate::sequences_upto(4, max_explicit, |e| {
                        for extend in [false, true] {
                            cases.push(Case { prior, cond: cnd, shape: 0, explicit: e.to_vec(), provided: prov.clone(), extend, listening, listen_hist });
                        }
                        if e.len() == 1 && cnd == 0 {
                            cases.push(Case { prior, cond: cnd, shape: 2, explicit: e.to_vec(), provided: prov.clone(), extend: false, listening, listen_hist });
                        }
                    });
                }
            }
        }
    }
    let total = cases.len();
    let mut o = mc::workers(ctx, 16, |ctx| {
        let mut out = Outcome::default();
        for (i, c) in cases.iter().enumerate() {
            if !ctx.mine(i as u64) {
                continue;
            }
            out.evaluations += 1;
            out.traces += 1;
            match mc::catch(|| run_case(c)).unwrap_or_else(|p| Err(format!("panic :: {p}"))) {
                Ok((class, nontrivial)) => {
                    out.count(&format!("class_{class}"), 1);
                    if nontrivial {
                        out.nontrivial_h(i as u64);
                    }
                    if i % 7919 == 0 {
                        out.sample(json!({"case": c, "outcome": class}));
                    }
                }
                Err(m) if m.starts_with("harness ::") => out.machinery(m),
                Err(m) => out.violation(mc::bfs::signature_of(&m), format!("{m} in case {}", serde_json::to_string(c).unwrap()), serde_json::to_value(c).unwrap()),
            }
        }
        out
    });
    o.notes.push(format!("{total} cases"));
    for k in ["class_accepted", "class_rejected-condition", "class_rejected-noaddresses"] {
        if o.get(k) == 0 {
            o.machinery(format!("vacuity: no case ended as {k}"));
        }
    }
    let _: Option<Value> = None;
    o
}
