//! Composed subjects built with `#[derive(NetworkBehaviour)]` from /repo's swarm-derive:
//! probes next to connection-limits / allow-block-list (C52, C53) and several probes (C58).

use crate::life::{LifeCfg, Subject};
use crate::sys::*;
use kit::ids::peer;
use libp2p_allow_block_list as abl;
use libp2p_connection_limits as limits;
use libp2p_swarm::NetworkBehaviour;
use std::convert::Infallible;

#[derive(Debug)]
pub enum CompEv {
    Probe(ProbeOut),
}
impl From<ProbeOut> for CompEv {
    fn from(p: ProbeOut) -> Self {
        CompEv::Probe(p)
    }
}
impl From<Infallible> for CompEv {
    fn from(i: Infallible) -> Self {
        match i {}
    }
}

// ---------------------------------------------------------------- C58: probes only
#[derive(NetworkBehaviour)]
#[behaviour(to_swarm = "CompEv", prelude = "libp2p_swarm::derive_prelude")]
pub struct Two {
    a: Probe,
    b: Probe,
}
#[derive(NetworkBehaviour)]
#[behaviour(to_swarm = "CompEv", prelude = "libp2p_swarm::derive_prelude")]
pub struct Three {
    a: Probe,
    b: Probe,
    c: Probe,
}

fn probe_for(f: u8, log: &Log, cfg: &LifeCfg) -> Probe {
    // the deny mask applies to the field selected by `variant`; every field offers one address
    let deny = if cfg.variant == f { cfg.deny } else { DenyMask::default() };
    let mut p = Probe::new(f, log.clone(), deny);
    p.extra_addrs = vec![a(60 + f as u64)];
    // every handler has a final event; the handler of field `slow_close - 1` flushes slowly
    p.close_events = Some(if cfg.slow_close == f + 1 { 4 } else { 0 });
    p
}

impl HasProbe for Two {
    fn probe(&mut self) -> &mut Probe {
        &mut self.a
    }
    fn probe_n(&mut self, f: u8) -> &mut Probe {
        if f == 0 { &mut self.a } else { &mut self.b }
    }
}
impl Subject for Two {
    fn make(log: Log, cfg: &LifeCfg) -> Self {
        Two { a: probe_for(0, &log, cfg), b: probe_for(1, &log, cfg) }
    }
    fn fields() -> u8 {
        2
    }
}
impl HasProbe for Three {
    fn probe(&mut self) -> &mut Probe {
        &mut self.a
    }
    fn probe_n(&mut self, f: u8) -> &mut Probe {
        match f {
            0 => &mut self.a,
            1 => &mut self.b,
            _ => &mut self.c,
        }
    }
}
impl Subject for Three {
    fn make(log: Log, cfg: &LifeCfg) -> Self {
        Three { a: probe_for(0, &log, cfg), b: probe_for(1, &log, cfg), c: probe_for(2, &log, cfg) }
    }
    fn fields() -> u8 {
        3
    }
}

// ---------------------------------------------------------------- C52: connection limits
#[derive(NetworkBehaviour)]
#[behaviour(to_swarm = "CompEv", prelude = "libp2p_swarm::derive_prelude")]
pub struct Limited {
    limits: limits::Behaviour,
    probe: Probe,
}
/// (pending_in, pending_out, est_in, est_out, per_peer, total) for a variant
pub fn limit_set(variant: u8) -> [u32; 6] {
    match variant {
        0 => [1, 1, 1, 1, 1, 1],
        1 => [1, 2, 1, 2, 1, 2],
        2 => [2, 1, 2, 1, 2, 2],
        3 => [2, 2, 2, 2, 2, 4],
        // single-clause sets: exactly one limit is tight (1), every other one is out of reach,
        // so that no other clause masks a wrong check of this one
        v => {
            let mut l = [9; 6];
            l[(v as usize - 4) % 6] = 1;
            l
        }
    }
}
pub const BYPASSED: u8 = 2;
impl HasProbe for Limited {
    fn probe(&mut self) -> &mut Probe {
        &mut self.probe
    }
}
impl Subject for Limited {
    fn make(log: Log, cfg: &LifeCfg) -> Self {
        let l = limit_set(cfg.variant);
        let cl = limits::ConnectionLimits::default()
            .with_max_pending_incoming(Some(l[0]))
            .with_max_pending_outgoing(Some(l[1]))
            .with_max_established_incoming(Some(l[2]))
            .with_max_established_outgoing(Some(l[3]))
            .with_max_established_per_peer(Some(l[4]))
            .with_max_established(Some(l[5]));
        let mut b = limits::Behaviour::new(cl);
        b.bypass_peer_id(&peer(BYPASSED));
        Limited { limits: b, probe: Probe::new(0, log, DenyMask::default()) }
    }
}

// ---------------------------------------------------------------- C53: allow / block lists
#[derive(NetworkBehaviour)]
#[behaviour(to_swarm = "CompEv", prelude = "libp2p_swarm::derive_prelude")]
pub struct Blocking {
    list: abl::Behaviour<abl::BlockedPeers>,
    probe: Probe,
}
impl HasProbe for Blocking {
    fn probe(&mut self) -> &mut Probe {
        &mut self.probe
    }
}
impl Subject for Blocking {
    fn make(log: Log, _cfg: &LifeCfg) -> Self {
        Blocking { list: Default::default(), probe: Probe::new(0, log, DenyMask::default()) }
    }
    fn extra(&mut self, op: u8, p: u8) {
        if op == 0 {
            self.list.block_peer(peer(p));
        } else {
            self.list.unblock_peer(peer(p));
        }
    }
}
#[derive(NetworkBehaviour)]
#[behaviour(to_swarm = "CompEv", prelude = "libp2p_swarm::derive_prelude")]
pub struct Allowing {
    list: abl::Behaviour<abl::AllowedPeers>,
    probe: Probe,
}
impl HasProbe for Allowing {
    fn probe(&mut self) -> &mut Probe {
        &mut self.probe
    }
}
impl Subject for Allowing {
    fn make(log: Log, _cfg: &LifeCfg) -> Self {
        let mut list: abl::Behaviour<abl::AllowedPeers> = Default::default();
        // start with P1 and P2 allowed (the model starts with the same set)
        list.allow_peer(peer(1));
        list.allow_peer(peer(2));
        Allowing { list, probe: Probe::new(0, log, DenyMask::default()) }
    }
    fn extra(&mut self, op: u8, p: u8) {
        // op 0 = forbid (disallow), op 1 = permit (allow)
        if op == 0 {
            self.list.disallow_peer(peer(p));
        } else {
            self.list.allow_peer(peer(p));
        }
    }
}
