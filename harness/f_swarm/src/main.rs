//! Family binary: whole-Swarm checks over `SwarmSys` (C01, C02, C04–C07, C12b/c, C52, C53, C58).
mod c04;
mod c07;
mod c12;
mod compose;
mod life;
mod sys;

fn main() {
    mc::main_dispatch(&[
        ("C07", c07::run, c07::META),
        ("C01", life::run_c01, life::META_C01),
        ("C02", life::run_c02, life::META_C02),
        ("C04", c04::run, c04::META),
        ("C05", life::run_c05, life::META_C05),
        ("C06", life::run_c06, life::META_C06),
        ("C12", c12::run, c12::META),
        ("C52", life::run_c52, life::META_C52),
        ("C53", life::run_c53, life::META_C53),
        ("C58", life::run_c58, life::META_C58),
    ]);
}
