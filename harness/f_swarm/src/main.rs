//! Family binary: whole-Swarm checks over `SwarmSys` (C01, C02, C04–C07, C12b/c, C52, C53, C58).
mod life;
mod sys;

fn main() {
    mc::main_dispatch(&[
        ("C01", life::run_c01, life::META_C01),
        ("C02", life::run_c02, life::META_C02),
        ("C05", life::run_c05, life::META_C05),
        ("C06", life::run_c06, life::META_C06),
    ]);
}
