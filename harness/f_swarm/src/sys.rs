//! `SwarmSys` — one real `Swarm<B>` over a scripted transport / muxer with a harness-owned
//! executor, plus the probe behaviour / handler used by the whole-Swarm checks (DESIGN §3).
//!
//! Everything the environment decides is an explicit harness action: which pending dial or
//! inbound upgrade resolves (and with which authenticated peer / error), muxer failures and
//! close answers, listener events, and — through `mc::choice` — which runnable task is polled
//! next. Connection ids are global to the process, so observations use *local indices* in order
//! of first appearance (`c0`, `c1`, …).

use futures::channel::oneshot;
use futures::future::BoxFuture;
use futures::{FutureExt, StreamExt};
use kit::ids::peer;
use kit::tasks::{Flag, RunEnd, Tasks};
use libp2p_core::muxing::{StreamMuxer, StreamMuxerBox, StreamMuxerEvent};
use libp2p_core::transport::{DialOpts as TDialOpts, ListenerId, PortUse, TransportError, TransportEvent};
use libp2p_core::upgrade::DeniedUpgrade;
use libp2p_core::{Endpoint, Multiaddr, Transport};
use libp2p_identity::PeerId;
use libp2p_swarm::behaviour::{FromSwarm, ToSwarm};
use libp2p_swarm::handler::ConnectionEvent;
use libp2p_swarm::{
    ConnectionDenied, ConnectionHandler, ConnectionHandlerEvent, ConnectionId, NetworkBehaviour, SubstreamProtocol, Swarm, SwarmEvent, THandler, THandlerInEvent,
    THandlerOutEvent,
};
use mc::choice;
use std::collections::VecDeque;
use std::io;
use std::pin::Pin;
use std::sync::atomic::{AtomicBool, Ordering::SeqCst};
use std::sync::{Arc, Mutex};
use std::task::{Context, Poll, Waker};

pub type Out = (PeerId, StreamMuxerBox);

// ------------------------------------------------------------------------------------------
// addresses and peers of the bounded universe

pub const LOCAL: u8 = 0;
pub fn local() -> PeerId {
    peer(LOCAL)
}
/// dialable address number `n` (1..): /memory/<n>
pub fn a(n: u64) -> Multiaddr {
    kit::ids::maddr(n)
}
/// an address the transport does not support
pub fn unsupported() -> Multiaddr {
    "/ip4/9.9.9.9/udp/9".parse().unwrap()
}
pub fn is_unsupported(m: &Multiaddr) -> bool {
    m.iter().next() == Some(multiaddr::Protocol::Ip4("9.9.9.9".parse().unwrap()))
}
/// short rendering of an address: strips a trailing /p2p and names memory addresses
pub fn aname(m: &Multiaddr) -> String {
    let mut s = String::new();
    for p in m.iter() {
        match p {
            multiaddr::Protocol::Memory(n) => s.push_str(&format!("A{n}")),
            multiaddr::Protocol::P2p(p) => s.push_str(&format!("/p2p/{}", kit::ids::pname(&p))),
            o => s.push_str(&o.to_string()),
        }
    }
    s
}

// ------------------------------------------------------------------------------------------
// scripted muxer

#[derive(Clone, Copy, Debug, PartialEq, Eq, serde::Serialize, serde::Deserialize)]
pub enum CloseAns {
    Ok,
    Err,
    Pending,
    /// an asynchronous close: Pending (self-waking) on the first two polls, then Ok
    Slow,
}

#[derive(Debug)]
pub struct MuxState {
    pub fail: bool,
    pub close_answer: CloseAns,
    pub close_polled: u32,
    pub closed: bool,
    pub dropped: bool,
    pub polled: u32,
    /// address the muxer reports next as `StreamMuxerEvent::AddressChange` (connection migration)
    pub addr_change: Option<Multiaddr>,
    waker: Option<Waker>,
}
impl Default for MuxState {
    fn default() -> Self {
        MuxState { fail: false, close_answer: CloseAns::Ok, close_polled: 0, closed: false, dropped: false, polled: 0, addr_change: None, waker: None }
    }
}

pub struct ScriptMuxer(pub Arc<Mutex<MuxState>>);

impl StreamMuxer for ScriptMuxer {
    type Substream = kit::pipe::End;
    type Error = io::Error;
    fn poll_inbound(self: Pin<&mut Self>, cx: &mut Context<'_>) -> Poll<Result<Self::Substream, Self::Error>> {
        self.0.lock().unwrap().waker = Some(cx.waker().clone());
        Poll::Pending
    }
    fn poll_outbound(self: Pin<&mut Self>, cx: &mut Context<'_>) -> Poll<Result<Self::Substream, Self::Error>> {
        self.0.lock().unwrap().waker = Some(cx.waker().clone());
        Poll::Pending
    }
    fn poll_close(self: Pin<&mut Self>, cx: &mut Context<'_>) -> Poll<Result<(), Self::Error>> {
        let mut s = self.0.lock().unwrap();
        s.close_polled += 1;
        match s.close_answer {
            CloseAns::Ok => {
                s.closed = true;
                Poll::Ready(Ok(()))
            }
            CloseAns::Err => {
                s.closed = true;
                Poll::Ready(Err(io::Error::other("scripted close error")))
            }
            CloseAns::Pending => {
                s.waker = Some(cx.waker().clone());
                Poll::Pending
            }
            CloseAns::Slow => {
                if s.close_polled <= 2 {
                    cx.waker().wake_by_ref();
                    Poll::Pending
                } else {
                    s.closed = true;
                    Poll::Ready(Ok(()))
                }
            }
        }
    }
    fn poll(self: Pin<&mut Self>, cx: &mut Context<'_>) -> Poll<Result<StreamMuxerEvent, Self::Error>> {
        let mut s = self.0.lock().unwrap();
        s.polled += 1;
        if s.fail {
            return Poll::Ready(Err(io::Error::new(io::ErrorKind::ConnectionReset, "scripted muxer failure")));
        }
        if let Some(a) = s.addr_change.take() {
            return Poll::Ready(Ok(StreamMuxerEvent::AddressChange(a)));
        }
        s.waker = Some(cx.waker().clone());
        Poll::Pending
    }
}
impl Drop for ScriptMuxer {
    fn drop(&mut self) {
        if let Ok(mut s) = self.0.lock() {
            s.dropped = true;
        }
    }
}

pub fn mux_wake(m: &Arc<Mutex<MuxState>>) {
    let w = m.lock().unwrap().waker.take();
    if let Some(w) = w {
        w.wake();
    }
}

// ------------------------------------------------------------------------------------------
// scripted transport

#[derive(Clone, Debug, PartialEq, Eq)]
pub enum AttemptKind {
    Dial { addr: Multiaddr, role: Endpoint, port_use: PortUse },
    Inbound { listener: usize },
}

pub struct Attempt {
    pub kind: AttemptKind,
    tx: Option<oneshot::Sender<Result<Out, io::Error>>>,
    /// how the harness resolved it (None = unresolved)
    pub resolved: Option<Result<u8, ()>>,
    pub mux: Option<Arc<Mutex<MuxState>>>,
    /// length of the behaviour log when the attempt was created (attribution to a dial)
    pub log_pos: usize,
}
impl Attempt {
    /// the future was dropped by the Swarm (e.g. dial aborted) before being resolved
    pub fn cancelled(&self) -> bool {
        self.resolved.is_none() && self.tx.as_ref().map(|t| t.is_canceled()).unwrap_or(true)
    }
    pub fn open(&self) -> bool {
        self.resolved.is_none() && !self.cancelled()
    }
}

#[derive(Default)]
pub struct TCtl {
    pub attempts: Vec<Attempt>,
    pub events: VecDeque<TransportEvent<BoxFuture<'static, Result<Out, io::Error>>, io::Error>>,
    pub listeners: Vec<(ListenerId, Multiaddr, bool)>, // (id, requested addr, alive)
    waker: Option<Waker>,
    pub dial_calls: Vec<(Multiaddr, bool)>, // (addr as handed to the transport, accepted?)
    pub log: Option<Log>,
    /// how muxers created from now on answer `poll_close`
    pub default_close: Option<CloseAns>,
}
impl TCtl {
    fn log_len(&self) -> usize {
        self.log.as_ref().map(|l| l.lock().unwrap().len()).unwrap_or(0)
    }
}

pub struct ScriptTransport(pub Arc<Mutex<TCtl>>);

fn recv_fut(rx: oneshot::Receiver<Result<Out, io::Error>>) -> BoxFuture<'static, Result<Out, io::Error>> {
    rx.map(|r| match r {
        Ok(v) => v,
        Err(_) => Err(io::Error::other("attempt dropped by the harness")),
    })
    .boxed()
}

impl Transport for ScriptTransport {
    type Output = Out;
    type Error = io::Error;
    type ListenerUpgrade = BoxFuture<'static, Result<Out, io::Error>>;
    type Dial = BoxFuture<'static, Result<Out, io::Error>>;

    fn listen_on(&mut self, id: ListenerId, addr: Multiaddr) -> Result<(), TransportError<io::Error>> {
        if is_unsupported(&addr) {
            return Err(TransportError::MultiaddrNotSupported(addr));
        }
        self.0.lock().unwrap().listeners.push((id, addr, true));
        Ok(())
    }
    fn remove_listener(&mut self, id: ListenerId) -> bool {
        let mut c = self.0.lock().unwrap();
        let Some(l) = c.listeners.iter_mut().find(|l| l.0 == id && l.2) else { return false };
        l.2 = false;
        c.events.push_back(TransportEvent::ListenerClosed { listener_id: id, reason: Ok(()) });
        if let Some(w) = c.waker.take() {
            w.wake();
        }
        true
    }
    fn dial(&mut self, addr: Multiaddr, opts: TDialOpts) -> Result<Self::Dial, TransportError<io::Error>> {
        let mut c = self.0.lock().unwrap();
        if is_unsupported(&addr) {
            c.dial_calls.push((addr.clone(), false));
            return Err(TransportError::MultiaddrNotSupported(addr));
        }
        c.dial_calls.push((addr.clone(), true));
        let (tx, rx) = oneshot::channel();
        let log_pos = c.log_len();
        c.attempts.push(Attempt { kind: AttemptKind::Dial { addr, role: opts.role, port_use: opts.port_use }, tx: Some(tx), resolved: None, mux: None, log_pos });
        Ok(recv_fut(rx))
    }
    fn poll(self: Pin<&mut Self>, cx: &mut Context<'_>) -> Poll<TransportEvent<Self::ListenerUpgrade, io::Error>> {
        let mut c = self.0.lock().unwrap();
        if let Some(e) = c.events.pop_front() {
            return Poll::Ready(e);
        }
        c.waker = Some(cx.waker().clone());
        Poll::Pending
    }
}

impl TCtl {
    fn wake(&mut self) {
        if let Some(w) = self.waker.take() {
            w.wake();
        }
    }
    pub fn push_event(&mut self, e: TransportEvent<BoxFuture<'static, Result<Out, io::Error>>, io::Error>) {
        self.events.push_back(e);
        self.wake();
    }
    /// a remote connects to listener `l` (index): an `Incoming` event with a scripted upgrade
    pub fn incoming(&mut self, l: usize, local_addr: Multiaddr, send_back: Multiaddr) {
        let (tx, rx) = oneshot::channel();
        let id = self.listeners[l].0;
        let log_pos = self.log_len();
        self.attempts.push(Attempt { kind: AttemptKind::Inbound { listener: l }, tx: Some(tx), resolved: None, mux: None, log_pos });
        self.push_event(TransportEvent::Incoming { listener_id: id, upgrade: recv_fut(rx), local_addr, send_back_addr: send_back });
    }
    /// resolve attempt `k` successfully as peer `p`
    pub fn resolve_ok(&mut self, k: usize, p: u8) -> bool {
        let at = &mut self.attempts[k];
        let Some(tx) = at.tx.take() else { return false };
        let st = Arc::new(Mutex::new(MuxState { close_answer: self.default_close.unwrap_or(CloseAns::Ok), ..MuxState::default() }));
        at.mux = Some(st.clone());
        at.resolved = Some(Ok(p));
        tx.send(Ok((peer(p), StreamMuxerBox::new(ScriptMuxer(st))))).is_ok()
    }
    pub fn resolve_err(&mut self, k: usize) -> bool {
        let at = &mut self.attempts[k];
        let Some(tx) = at.tx.take() else { return false };
        at.resolved = Some(Err(()));
        tx.send(Err(io::Error::other("scripted attempt failure"))).is_ok()
    }
    pub fn open_attempts(&self) -> Vec<usize> {
        (0..self.attempts.len()).filter(|k| self.attempts[*k].open()).collect()
    }
}

// ------------------------------------------------------------------------------------------
// probe behaviour / handler

#[derive(Clone, Copy, Debug, PartialEq, Eq, Default, serde::Serialize, serde::Deserialize)]
pub enum Deny {
    #[default]
    Never,
    Always,
    /// deny the 1st, 3rd, … decision of this kind
    Odd,
    /// deny the 2nd, 4th, … decision of this kind
    Even,
}
impl Deny {
    fn decide(self, n: &mut u32) -> bool {
        *n += 1;
        match self {
            Deny::Never => false,
            Deny::Always => true,
            Deny::Odd => *n % 2 == 1,
            Deny::Even => *n % 2 == 0,
        }
    }
}

#[derive(Clone, Copy, Debug, Default, PartialEq, Eq, serde::Serialize, serde::Deserialize)]
pub struct DenyMask {
    pub pending_in: Deny,
    pub pending_out: Deny,
    pub est_in: Deny,
    pub est_out: Deny,
}

/// What the probes record. `f` is the field index of the probe (0 for a single probe).
#[derive(Clone, Debug, PartialEq, Eq)]
pub enum LogEv {
    PendingIn { f: u8, cid: ConnectionId, denied: bool },
    PendingOut { f: u8, cid: ConnectionId, peer: Option<PeerId>, addrs: Vec<Multiaddr>, denied: bool },
    EstIn { f: u8, cid: ConnectionId, peer: PeerId, denied: bool },
    EstOut { f: u8, cid: ConnectionId, peer: PeerId, addr: Multiaddr, denied: bool },
    // FromSwarm projections
    Established { f: u8, cid: ConnectionId, peer: PeerId, other_established: usize, failed: Vec<Multiaddr>, dialer: bool },
    Closed { f: u8, cid: ConnectionId, peer: PeerId, remaining: usize },
    DialFailure { f: u8, cid: ConnectionId, peer: Option<PeerId>, error: String },
    ListenFailure { f: u8, cid: ConnectionId, peer: Option<PeerId>, error: String },
    Other { f: u8, what: String },
    /// behaviour got an event from a handler
    FromHandler { f: u8, cid: ConnectionId, peer: PeerId, n: u32 },
    /// handler got an event from the behaviour
    HandlerGot { f: u8, cid: ConnectionId, n: u32 },
    HandlerPolled { f: u8, cid: ConnectionId },
    HandlerDropped { f: u8, cid: ConnectionId },
    /// handler got ConnectionEvent::AddressChange
    HandlerAddr { f: u8, cid: ConnectionId, addr: Multiaddr },
}

pub type Log = Arc<Mutex<Vec<LogEv>>>;

#[derive(Debug)]
pub struct ProbeOut(pub u8, pub u32);

pub struct Probe {
    pub f: u8,
    pub log: Log,
    pub deny: DenyMask,
    counters: [u32; 4],
    pub cmds: VecDeque<ToSwarm<ProbeOut, u32>>,
    waker: Option<Waker>,
    /// addresses returned from handle_pending_outbound_connection
    pub extra_addrs: Vec<Multiaddr>,
    /// handlers emit one final event (9000 + field) from `poll_close`, after this many `Pending`s
    /// (None = no final events)
    pub close_events: Option<u8>,
}

impl Probe {
    pub fn new(f: u8, log: Log, deny: DenyMask) -> Self {
        Probe { f, log, deny, counters: [0; 4], cmds: VecDeque::new(), waker: None, extra_addrs: vec![], close_events: None }
    }
    pub fn push(&mut self, c: ToSwarm<ProbeOut, u32>) {
        self.cmds.push_back(c);
        if let Some(w) = self.waker.take() {
            w.wake();
        }
    }
    fn rec(&self, e: LogEv) {
        self.log.lock().unwrap().push(e);
    }
    fn denied() -> ConnectionDenied {
        ConnectionDenied::new(io::Error::other("probe denies"))
    }
}

impl NetworkBehaviour for Probe {
    type ConnectionHandler = ProbeHandler;
    type ToSwarm = ProbeOut;

    fn handle_pending_inbound_connection(&mut self, cid: ConnectionId, _l: &Multiaddr, _r: &Multiaddr) -> Result<(), ConnectionDenied> {
        let d = self.deny.pending_in.decide(&mut self.counters[0]);
        self.rec(LogEv::PendingIn { f: self.f, cid, denied: d });
        if d { Err(Self::denied()) } else { Ok(()) }
    }
    fn handle_established_inbound_connection(&mut self, cid: ConnectionId, peer: PeerId, _l: &Multiaddr, _r: &Multiaddr) -> Result<THandler<Self>, ConnectionDenied> {
        let d = self.deny.est_in.decide(&mut self.counters[2]);
        self.rec(LogEv::EstIn { f: self.f, cid, peer, denied: d });
        if d { Err(Self::denied()) } else { Ok(ProbeHandler::new(self.f, cid, self.log.clone(), self.close_events)) }
    }
    fn handle_pending_outbound_connection(&mut self, cid: ConnectionId, peer: Option<PeerId>, addrs: &[Multiaddr], _r: Endpoint) -> Result<Vec<Multiaddr>, ConnectionDenied> {
        let d = self.deny.pending_out.decide(&mut self.counters[1]);
        self.rec(LogEv::PendingOut { f: self.f, cid, peer, addrs: addrs.to_vec(), denied: d });
        if d { Err(Self::denied()) } else { Ok(self.extra_addrs.clone()) }
    }
    fn handle_established_outbound_connection(&mut self, cid: ConnectionId, peer: PeerId, addr: &Multiaddr, _r: Endpoint, _p: PortUse) -> Result<THandler<Self>, ConnectionDenied> {
        let d = self.deny.est_out.decide(&mut self.counters[3]);
        self.rec(LogEv::EstOut { f: self.f, cid, peer, addr: addr.clone(), denied: d });
        if d { Err(Self::denied()) } else { Ok(ProbeHandler::new(self.f, cid, self.log.clone(), self.close_events)) }
    }
    fn on_swarm_event(&mut self, event: FromSwarm) {
        let f = self.f;
        let e = match event {
            FromSwarm::ConnectionEstablished(e) => LogEv::Established { f, cid: e.connection_id, peer: e.peer_id, other_established: e.other_established, failed: e.failed_addresses.to_vec(), dialer: e.endpoint.is_dialer() },
            FromSwarm::ConnectionClosed(e) => LogEv::Closed { f, cid: e.connection_id, peer: e.peer_id, remaining: e.remaining_established },
            FromSwarm::DialFailure(e) => LogEv::DialFailure { f, cid: e.connection_id, peer: e.peer_id, error: dial_err_class(e.error) },
            FromSwarm::ListenFailure(e) => LogEv::ListenFailure { f, cid: e.connection_id, peer: e.peer_id, error: listen_err_class(e.error) },
            FromSwarm::NewListener(e) => LogEv::Other { f, what: format!("NewListener({:?})", e.listener_id) },
            FromSwarm::NewListenAddr(e) => LogEv::Other { f, what: format!("NewListenAddr({:?},{})", e.listener_id, aname(e.addr)) },
            FromSwarm::ExpiredListenAddr(e) => LogEv::Other { f, what: format!("ExpiredListenAddr({:?},{})", e.listener_id, aname(e.addr)) },
            FromSwarm::ListenerError(e) => LogEv::Other { f, what: format!("ListenerError({:?})", e.listener_id) },
            FromSwarm::ListenerClosed(e) => LogEv::Other { f, what: format!("ListenerClosed({:?},{})", e.listener_id, e.reason.is_ok()) },
            FromSwarm::NewExternalAddrCandidate(e) => LogEv::Other { f, what: format!("NewExternalAddrCandidate({})", aname(e.addr)) },
            FromSwarm::ExternalAddrConfirmed(e) => LogEv::Other { f, what: format!("ExternalAddrConfirmed({})", aname(e.addr)) },
            FromSwarm::ExternalAddrExpired(e) => LogEv::Other { f, what: format!("ExternalAddrExpired({})", aname(e.addr)) },
            FromSwarm::NewExternalAddrOfPeer(e) => LogEv::Other { f, what: format!("NewExternalAddrOfPeer({},{})", kit::ids::pname(&e.peer_id), aname(e.addr)) },
            FromSwarm::AddressChange(e) => LogEv::Other { f, what: format!("AddressChange({})", e.connection_id) },
            _ => LogEv::Other { f, what: "unknown FromSwarm".into() },
        };
        self.rec(e);
    }
    fn on_connection_handler_event(&mut self, peer: PeerId, cid: ConnectionId, n: THandlerOutEvent<Self>) {
        self.rec(LogEv::FromHandler { f: self.f, cid, peer, n });
    }
    fn poll(&mut self, cx: &mut Context<'_>) -> Poll<ToSwarm<ProbeOut, THandlerInEvent<Self>>> {
        if let Some(c) = self.cmds.pop_front() {
            if let ToSwarm::NotifyHandler { event, .. } = &c {
                // the moment the Swarm takes the command = emission time
                self.rec(LogEv::Other { f: self.f, what: format!("emit {event}") });
            }
            return Poll::Ready(c);
        }
        self.waker = Some(cx.waker().clone());
        Poll::Pending
    }
}

pub fn dial_err_class(e: &libp2p_swarm::DialError) -> String {
    use libp2p_swarm::DialError::*;
    match e {
        LocalPeerId { .. } => "LocalPeerId".into(),
        NoAddresses => "NoAddresses".into(),
        DialPeerConditionFalse(c) => format!("DialPeerConditionFalse({c:?})"),
        Aborted => "Aborted".into(),
        WrongPeerId { obtained, .. } => format!("WrongPeerId({})", kit::ids::pname(obtained)),
        Denied { .. } => "Denied".into(),
        Transport(v) => format!("Transport({})", v.iter().map(|(a, _)| aname(a)).collect::<Vec<_>>().join(",")),
    }
}
pub fn listen_err_class(e: &libp2p_swarm::ListenError) -> String {
    use libp2p_swarm::ListenError::*;
    match e {
        Aborted => "Aborted".into(),
        WrongPeerId { .. } => "WrongPeerId".into(),
        LocalPeerId { .. } => "LocalPeerId".into(),
        Denied { .. } => "Denied".into(),
        Transport(_) => "Transport".into(),
    }
}

pub struct ProbeHandler {
    f: u8,
    cid: ConnectionId,
    log: Log,
    replies: VecDeque<u32>,
    waker: Option<Waker>,
    polled_once: bool,
    /// remaining Pendings before the final event; None = no final event / already sent
    close_pending: Option<u8>,
}
impl ProbeHandler {
    fn new(f: u8, cid: ConnectionId, log: Log, close_events: Option<u8>) -> Self {
        ProbeHandler { f, cid, log, replies: VecDeque::new(), waker: None, polled_once: false, close_pending: close_events }
    }
}
impl Drop for ProbeHandler {
    fn drop(&mut self) {
        if let Ok(mut l) = self.log.lock() {
            l.push(LogEv::HandlerDropped { f: self.f, cid: self.cid });
        }
    }
}
impl ConnectionHandler for ProbeHandler {
    type FromBehaviour = u32;
    type ToBehaviour = u32;
    type InboundProtocol = DeniedUpgrade;
    type OutboundProtocol = DeniedUpgrade;
    type InboundOpenInfo = ();
    type OutboundOpenInfo = ();
    fn listen_protocol(&self) -> SubstreamProtocol<DeniedUpgrade, ()> {
        SubstreamProtocol::new(DeniedUpgrade, ())
    }
    fn connection_keep_alive(&self) -> bool {
        true
    }
    fn poll(&mut self, cx: &mut Context<'_>) -> Poll<ConnectionHandlerEvent<DeniedUpgrade, (), u32>> {
        if !self.polled_once {
            self.polled_once = true;
            self.log.lock().unwrap().push(LogEv::HandlerPolled { f: self.f, cid: self.cid });
        }
        if let Some(n) = self.replies.pop_front() {
            return Poll::Ready(ConnectionHandlerEvent::NotifyBehaviour(n));
        }
        self.waker = Some(cx.waker().clone());
        Poll::Pending
    }
    fn on_behaviour_event(&mut self, n: u32) {
        self.log.lock().unwrap().push(LogEv::HandlerGot { f: self.f, cid: self.cid, n });
        // every event is echoed back (+1000) so that handler→behaviour routing is exercised too
        self.replies.push_back(n + 1000);
        if let Some(w) = self.waker.take() {
            w.wake();
        }
    }
    fn on_connection_event(&mut self, e: ConnectionEvent<DeniedUpgrade, DeniedUpgrade, (), ()>) {
        if let ConnectionEvent::AddressChange(c) = e {
            self.log.lock().unwrap().push(LogEv::HandlerAddr { f: self.f, cid: self.cid, addr: c.new_address.clone() });
        }
    }
    fn poll_close(&mut self, cx: &mut Context<'_>) -> Poll<Option<u32>> {
        match self.close_pending {
            None => Poll::Ready(None),
            Some(0) => {
                self.close_pending = None;
                Poll::Ready(Some(9000 + self.f as u32))
            }
            Some(n) => {
                // an asynchronous flush that is not ready yet (re-polled: no lost wake-up)
                self.close_pending = Some(n - 1);
                cx.waker().wake_by_ref();
                Poll::Pending
            }
        }
    }
}

// ------------------------------------------------------------------------------------------
// the system

/// Access to the probe(s) inside a (possibly composed) behaviour.
pub trait HasProbe: NetworkBehaviour {
    fn probe(&mut self) -> &mut Probe;
    /// probe of field `f` (composed behaviours with several probes)
    fn probe_n(&mut self, _f: u8) -> &mut Probe {
        self.probe()
    }
}
impl HasProbe for Probe {
    fn probe(&mut self) -> &mut Probe {
        self
    }
}

/// A normalised SwarmEvent (connection ids as raw ids; mapped to local indices by `SwarmSys::cidx`).
#[derive(Clone, Debug, PartialEq, Eq)]
pub enum Ev {
    Established { cid: ConnectionId, peer: PeerId, num_established: u32, dialer: bool, failed: Vec<Multiaddr> },
    Closed { cid: ConnectionId, peer: PeerId, num_established: u32, cause: Option<String> },
    Incoming { cid: ConnectionId },
    IncomingError { cid: ConnectionId, error: String, peer: Option<PeerId> },
    OutgoingError { cid: ConnectionId, error: String, peer: Option<PeerId> },
    Dialing { cid: ConnectionId, peer: Option<PeerId> },
    NewListenAddr { l: ListenerId, addr: Multiaddr },
    ExpiredListenAddr { l: ListenerId, addr: Multiaddr },
    ListenerClosed { l: ListenerId, addrs: Vec<Multiaddr>, ok: bool },
    ListenerError { l: ListenerId },
    ExternalAddrConfirmed(Multiaddr),
    ExternalAddrExpired(Multiaddr),
    NewExternalAddrCandidate(Multiaddr),
    NewExternalAddrOfPeer(PeerId, Multiaddr),
    Behaviour(String),
    Other(String),
}

pub fn norm<T: std::fmt::Debug>(e: SwarmEvent<T>) -> Ev {
    match e {
        SwarmEvent::ConnectionEstablished { peer_id, connection_id, endpoint, num_established, concurrent_dial_errors, .. } => Ev::Established {
            cid: connection_id,
            peer: peer_id,
            num_established: num_established.get(),
            dialer: endpoint.is_dialer(),
            failed: concurrent_dial_errors.map(|v| v.into_iter().map(|(a, _)| a).collect()).unwrap_or_default(),
        },
        SwarmEvent::ConnectionClosed { peer_id, connection_id, num_established, cause, .. } => Ev::Closed { cid: connection_id, peer: peer_id, num_established, cause: cause.map(|c| c.to_string()) },
        SwarmEvent::IncomingConnection { connection_id, .. } => Ev::Incoming { cid: connection_id },
        SwarmEvent::IncomingConnectionError { connection_id, error, peer_id, .. } => Ev::IncomingError { cid: connection_id, error: listen_err_class(&error), peer: peer_id },
        SwarmEvent::OutgoingConnectionError { connection_id, peer_id, error } => Ev::OutgoingError { cid: connection_id, error: dial_err_class(&error), peer: peer_id },
        SwarmEvent::Dialing { peer_id, connection_id } => Ev::Dialing { cid: connection_id, peer: peer_id },
        SwarmEvent::NewListenAddr { listener_id, address } => Ev::NewListenAddr { l: listener_id, addr: address },
        SwarmEvent::ExpiredListenAddr { listener_id, address } => Ev::ExpiredListenAddr { l: listener_id, addr: address },
        SwarmEvent::ListenerClosed { listener_id, addresses, reason } => Ev::ListenerClosed { l: listener_id, addrs: addresses, ok: reason.is_ok() },
        SwarmEvent::ListenerError { listener_id, .. } => Ev::ListenerError { l: listener_id },
        SwarmEvent::ExternalAddrConfirmed { address } => Ev::ExternalAddrConfirmed(address),
        SwarmEvent::ExternalAddrExpired { address } => Ev::ExternalAddrExpired(address),
        SwarmEvent::NewExternalAddrCandidate { address } => Ev::NewExternalAddrCandidate(address),
        SwarmEvent::NewExternalAddrOfPeer { peer_id, address } => Ev::NewExternalAddrOfPeer(peer_id, address),
        SwarmEvent::Behaviour(b) => Ev::Behaviour(format!("{b:?}")),
        o => Ev::Other(format!("{o:?}")),
    }
}

#[derive(Clone, Copy, Debug, PartialEq, Eq)]
pub enum Exec {
    /// tasks go to the harness executor and are scheduled by the explorer
    Harness,
    /// `Config::without_executor()`: tasks are polled inside `Pool::poll`
    Local,
}

pub struct SysCfg {
    pub exec: Exec,
    pub explore_schedule: bool,
    pub notify_buffer: usize,
    pub conn_event_buffer: usize,
    pub dial_concurrency: u8,
}
impl Default for SysCfg {
    fn default() -> Self {
        SysCfg { exec: Exec::Harness, explore_schedule: false, notify_buffer: 8, conn_event_buffer: 7, dial_concurrency: 8 }
    }
}

pub struct SwarmSys<B: NetworkBehaviour> {
    pub swarm: Swarm<B>,
    pub ctl: Arc<Mutex<TCtl>>,
    spawned: Arc<Mutex<Vec<BoxFuture<'static, ()>>>>,
    pub tasks: Tasks,
    swarm_flag: Arc<Flag>,
    last_was_swarm: bool,
    pub explore_schedule: bool,
    /// everything observed, in order: SwarmEvents as they are returned by poll
    pub events: Vec<Ev>,
    /// connection ids in order of first appearance
    pub cids: Vec<ConnectionId>,
    pub log: Log,
    /// read position in `log` (entries before were already folded by the oracle)
    pub log_pos: usize,
    pub ev_pos: usize,
    pub swarm_polls: u64,
    /// tasks the scheduler currently starves (executor not running them): never polled
    pub frozen: Vec<usize>,
}

impl<B: NetworkBehaviour> SwarmSys<B>
where
    B::ToSwarm: std::fmt::Debug,
{
    pub fn new(behaviour: B, log: Log, cfg: SysCfg) -> Self {
        let ctl = Arc::new(Mutex::new(TCtl { log: Some(log.clone()), ..Default::default() }));
        let spawned: Arc<Mutex<Vec<BoxFuture<'static, ()>>>> = Arc::new(Mutex::new(Vec::new()));
        let config = match cfg.exec {
            Exec::Harness => {
                let q = spawned.clone();
                libp2p_swarm::Config::with_executor(move |f: Pin<Box<dyn std::future::Future<Output = ()> + Send>>| q.lock().unwrap().push(f))
            }
            Exec::Local => libp2p_swarm::Config::without_executor(),
        }
        .with_notify_handler_buffer_size(std::num::NonZeroUsize::new(cfg.notify_buffer).unwrap())
        .with_per_connection_event_buffer_size(cfg.conn_event_buffer)
        .with_dial_concurrency_factor(std::num::NonZeroU8::new(cfg.dial_concurrency).unwrap())
        .with_idle_connection_timeout(std::time::Duration::from_secs(3600 * 24 * 365));
        let swarm = Swarm::new(ScriptTransport(ctl.clone()).boxed(), behaviour, local(), config);
        SwarmSys {
            swarm,
            ctl,
            spawned,
            tasks: Tasks::new(false),
            swarm_flag: Arc::new(Flag(AtomicBool::new(true))),
            last_was_swarm: false,
            explore_schedule: cfg.explore_schedule,
            events: Vec::new(),
            cids: Vec::new(),
            log,
            log_pos: 0,
            ev_pos: 0,
            swarm_polls: 0,
            frozen: Vec::new(),
        }
    }

    /// local index of a connection id (allocating the next index on first sight)
    pub fn cidx(&mut self, c: ConnectionId) -> usize {
        if let Some(i) = self.cids.iter().position(|x| *x == c) {
            return i;
        }
        self.cids.push(c);
        self.cids.len() - 1
    }
    pub fn cname(&mut self, c: ConnectionId) -> String {
        format!("c{}", self.cidx(c))
    }

    fn adopt_spawned(&mut self) {
        let v: Vec<_> = std::mem::take(&mut *self.spawned.lock().unwrap());
        for f in v {
            let n = self.tasks.live();
            self.tasks.spawn_boxed(format!("t{n}"), f);
        }
    }

    /// mark the swarm task runnable (after any harness action that touched it)
    pub fn kick(&mut self) {
        self.swarm_flag.0.store(true, SeqCst);
    }

    /// poll the Swarm once; records the event if one is returned
    pub fn poll_swarm(&mut self) -> bool {
        self.swarm_flag.0.store(false, SeqCst);
        let waker = futures::task::waker(self.swarm_flag.clone());
        let mut cx = Context::from_waker(&waker);
        self.swarm_polls += 1;
        let r = self.swarm.poll_next_unpin(&mut cx);
        self.adopt_spawned();
        match r {
            Poll::Ready(Some(e)) => {
                self.events.push(norm(e));
                // a Ready poll means there may be more
                self.swarm_flag.0.store(true, SeqCst);
                true
            }
            Poll::Ready(None) => false,
            Poll::Pending => false,
        }
    }

    /// One scheduling step: choose among the runnable parties (the Swarm and the spawned
    /// tasks). Default: the Swarm when runnable, else the lowest runnable task (a fixed
    /// priority order; any other choice is a deviation of cost 1). Returns false when nothing
    /// is runnable.
    pub fn sched_step(&mut self) -> bool {
        self.adopt_spawned();
        let mut cands: Vec<Option<usize>> = Vec::new();
        if self.swarm_flag.0.load(SeqCst) {
            cands.push(None);
        }
        for t in self.tasks.runnable() {
            if !self.frozen.contains(&t) {
                cands.push(Some(t));
            }
        }
        if cands.is_empty() {
            return false;
        }
        let k = if self.explore_schedule && cands.len() > 1 { choice::choose_l(cands.len(), 1, "sched") } else { 0 };
        match cands[k] {
            None => {
                self.poll_swarm();
                self.last_was_swarm = true;
            }
            Some(t) => {
                self.tasks.poll_one(t);
                self.adopt_spawned();
                self.last_was_swarm = false;
            }
        }
        true
    }

    pub fn has_runnable(&mut self) -> bool {
        self.adopt_spawned();
        self.swarm_flag.0.load(SeqCst) || self.tasks.runnable().iter().any(|t| !self.frozen.contains(t))
    }
    /// was the last scheduling step a poll of the Swarm itself?
    pub fn last_was_swarm(&self) -> bool {
        self.last_was_swarm
    }

    /// run until nothing is runnable, or `horizon` steps
    pub fn run(&mut self, horizon: u64) -> RunEnd {
        let mut n = 0;
        while self.sched_step() {
            n += 1;
            if n >= horizon {
                return RunEnd::Horizon;
            }
        }
        RunEnd::Quiescent
    }

    /// new log entries with their absolute positions
    pub fn take_log(&mut self) -> Vec<(usize, LogEv)> {
        let l = self.log.lock().unwrap();
        let v = l[self.log_pos..].iter().cloned().enumerate().map(|(i, e)| (self.log_pos + i, e)).collect();
        self.log_pos = l.len();
        v
    }
    pub fn take_events(&mut self) -> Vec<Ev> {
        let v = self.events[self.ev_pos..].to_vec();
        self.ev_pos = self.events.len();
        v
    }
}
