//! Connection-lifecycle exploration of a real Swarm (serves C01, C02, C05, C06): explicit-state
//! BFS over action histories (dial / behaviour-dial / incoming / resolve attempt as peer or with
//! error / close / disconnect / behaviour-close / muxer failure / drain), each history replayed
//! on a fresh `Swarm` over the scripted transport and run to quiescence after every action;
//! plus an E1 pass that explores task-schedule deviations inside each action of short histories.

use crate::sys::*;
use kit::ids::{peer, pidx, pname};
use kit::tasks::RunEnd;
use libp2p_swarm::behaviour::{CloseConnection, ToSwarm};
use libp2p_swarm::dial_opts::{DialOpts, PeerCondition};
use libp2p_swarm::ConnectionId;
use mc::bfs::{self, System};
use mc::choice;
use mc::{json, Ctx, Meta, Outcome, Value};
use serde::{Deserialize, Serialize};
use std::sync::{Arc, Mutex};

const ASSUME: &[&str] = &[
    "bounded universe: peers {P1,P2,LOCAL}, <=3 connection ids per history, dial of P1 over 2 addresses, P2 over 1",
    "interleaving at poll granularity on one thread; futures channels trusted",
    "idle timeout disabled (handlers keep alive); no substreams",
];

pub const META_C01: Meta = Meta {
    level: "model_checking",
    rule: "BFS over action histories {Dial(p,cond), DialAddr, BehDial(p), Incoming, Ok(attempt,peer), Fail(attempt), Close(c), Disconnect(p), BehClose(p,c|all), MuxFail(c), Drain} on a fresh real Swarm per history (scripted transport/muxer, harness executor, default task schedule), deduplicated on reference facts + observable counters; plus E1 exploration of task-schedule deviations (bound 1 quick / 2 thorough) over all histories of length <=3 quick / <=4 thorough from a reduced alphabet. Non-trivial = states in which at least one connection reached a terminal event. The harness-executor configurations are repeated with the probe inside an enabled Toggle<_> and inside each arm of Either<_, _> (depth 3/4).",
    explanation: "Oracle: per ConnectionId automaton (at most one of Established/OutgoingError/IncomingError or the synchronous dial Err; ConnectionClosed at most once and only after Established; exactly one terminal + one Closed per established id after the drain suffix); the FromSwarm lifecycle sequence seen by the behaviour equals the SwarmEvent lifecycle sequence (ids with only a synchronous rejection excluded).",
    assumptions: ASSUME,
};
pub const META_C02: Meta = Meta {
    level: "model_checking",
    rule: "same exploration as C01; after every action at quiescence compare network_info counters, num_peers, is_connected, connected_peers and the num_established / remaining_established / other_established carried by events with a reference folded from the event history. Non-trivial = states with at least one established or pending connection.",
    explanation: "Reference = map id -> {direction, pending/established/closed, peer} folded from SwarmEvents (and separately from FromSwarm events); every getter must equal the reference in every reached state.",
    assumptions: ASSUME,
};
pub const META_C05: Meta = Meta {
    level: "model_checking",
    rule: "same exploration as C01 with attempts resolvable as P1, P2 or LOCAL; for every resolved attempt that completes a pending connection the outcome is predicted from (direction, expected peer, authenticated peer). Non-trivial = states where some attempt was resolved with a mismatching or local identity.",
    explanation: "Oracle: Established iff authenticated != LOCAL and (no expectation or equal); otherwise WrongPeerId / LocalPeerId error and the scripted muxer observed poll_close; counters unchanged (C02 reference).",
    assumptions: ASSUME,
};
pub const META_C06: Meta = Meta {
    level: "model_checking",
    rule: "same exploration as C01 under every deny mask in {pending-in, pending-out, established-in, established-out} x {Always, Odd, Even}; Non-trivial = states in which some connection was denied. All masks are repeated with the probe inside an enabled Toggle<_> and inside each arm of Either<_, _> (depth 3/4).",
    explanation: "Oracle: a denied id never appears established, never has a handler polled or notified, is never counted (C02 reference), and gets exactly one DialFailure/ListenFailure and exactly one SwarmEvent error (or the synchronous Err).",
    assumptions: ASSUME,
};

#[derive(Clone, Debug, Serialize, Deserialize, PartialEq)]
pub enum Act {
    Dial { p: u8, cond: u8 },
    DialAddr,
    BehDial { p: u8 },
    Incoming,
    Ok { k: usize, p: u8 },
    Fail { k: usize },
    Close { c: usize },
    Disconnect { p: u8 },
    BehClose { p: u8, c: Option<usize> },
    MuxFail { c: usize },
    Drain,
    /// allow/block-list change: op 0 = forbid peer p (block / disallow), 1 = permit again
    List { op: u8, p: u8 },
    /// field `f` of a composed behaviour notifies the handler of connection `c`
    Notify { f: u8, c: usize },
    /// dial P1 with explicit addresses extended through the behaviour(s)
    DialExt,
    /// the muxer of live connection `c` will answer `poll_close` with an error / stay pending
    /// (released by the drain suffix)
    MuxClose { c: usize, ans: CloseAns },
    /// dial P1 with an explicit address that carries the /p2p suffix of ANOTHER peer (P2)
    DialSfx,
    /// dial P1 "as a listener" (DialOpts::override_role, hole-punch style) with a PeerCondition
    DialOver { cond: u8 },
    /// the behaviour notifies "any handler" of peer p, whether or not p is connected
    NotifyAny { p: u8 },
    /// the muxer of live connection `c` reports an address change (connection migration)
    MuxAddr { c: usize },
}

#[derive(Clone, Copy, Debug, PartialEq, Eq, Serialize, Deserialize)]
pub enum Which {
    C01,
    C02,
    C05,
    C06,
    C52,
    /// block list
    C53,
    /// allow list
    C53A,
    C58,
}

#[derive(Clone, Debug, Serialize, Deserialize)]
pub struct LifeCfg {
    pub which: Which,
    pub deny: DenyMask,
    pub max_conns: usize,
    pub local_exec: bool,
    /// reduced alphabet (for the schedule exploration)
    pub reduced: bool,
    pub explore_schedule: bool,
    /// start from a non-initial state: this many connections to P1 are already established
    #[serde(default)]
    pub pre_established: u8,
    /// subject-specific variant (limit set, denying field, ...)
    #[serde(default)]
    pub variant: u8,
    /// BFS depth for this configuration (0 = the tier's default)
    #[serde(default)]
    pub depth: usize,
    /// composed subjects: field (index + 1) whose handler stays Pending in poll_close before its
    /// final event (0 = none)
    #[serde(default)]
    pub slow_close: u8,
}

#[derive(Clone, Debug, Default, Serialize)]
struct Conn {
    out: bool,
    expected: Option<u8>,
    sync_err: Option<String>,
    /// lifecycle SwarmEvents for this id, in order
    sw: Vec<String>,
    /// lifecycle FromSwarm events for this id, in order
    fs: Vec<String>,
    incoming_seen: bool,
    peer: Option<u8>,
    /// attempts that belong to this id
    attempts: Vec<usize>,
    /// C05 prediction for the first attempt resolved Ok: expected outcome class
    predicted: Option<String>,
    denied: bool,
    handler_used: bool,
    drained: bool,
    via_behaviour: bool,
    /// behaviour dial: the Swarm accepted it (a `Dialing` SwarmEvent was seen)
    accepted: bool,
}

/// A behaviour that can be put under the lifecycle exploration: it contains a probe (through
/// which the harness emits commands and observes callbacks) and is built from the configuration.
pub trait Subject: libp2p_swarm::NetworkBehaviour + HasProbe + Sized + 'static
where
    Self::ToSwarm: std::fmt::Debug,
{
    fn make(log: Log, cfg: &LifeCfg) -> Self;
    /// subject-specific environment action (allow / block list changes)
    fn extra(&mut self, _op: u8, _p: u8) {}
    /// number of probe fields (for composition oracles)
    fn fields() -> u8 {
        1
    }
}
impl Subject for Probe {
    fn make(log: Log, cfg: &LifeCfg) -> Self {
        Probe::new(0, log, cfg.deny)
    }
}
/// the probe wrapped in an enabled `behaviour::toggle::Toggle`
impl HasProbe for libp2p_swarm::behaviour::toggle::Toggle<Probe> {
    fn probe(&mut self) -> &mut Probe {
        self.as_mut().expect("enabled")
    }
}
impl Subject for libp2p_swarm::behaviour::toggle::Toggle<Probe> {
    fn make(log: Log, cfg: &LifeCfg) -> Self {
        Some(Probe::new(0, log, cfg.deny)).into()
    }
}

/// the probe as one arm of `either::Either` (variant 78: Left, 79: Right)
pub type EitherProbe = either::Either<Probe, Probe>;
impl HasProbe for EitherProbe {
    fn probe(&mut self) -> &mut Probe {
        match self {
            either::Either::Left(p) => p,
            either::Either::Right(p) => p,
        }
    }
}
impl Subject for EitherProbe {
    fn make(log: Log, cfg: &LifeCfg) -> Self {
        let p = Probe::new(0, log, cfg.deny);
        if cfg.variant == 79 { either::Either::Right(p) } else { either::Either::Left(p) }
    }
}
pub type ToggleProbe = libp2p_swarm::behaviour::toggle::Toggle<Probe>;

/// The same configurations with the probe wrapped in the Swarm crate's own behaviour
/// combinators: an enabled `Toggle<_>` (variant 77) and both arms of `Either<_, _>` (78, 79).
/// The wrappers forward every callback, so every oracle must hold unchanged.
fn wrapped(ctx: &Ctx, which: Which, cfgs: &[LifeCfg], depth: usize, sched: (usize, u32)) -> Outcome {
    let with = |v: u8| -> Vec<LifeCfg> { cfgs.iter().cloned().map(|mut c| { c.variant = v; c }).collect() };
    let mut o = run_generic::<ToggleProbe>(ctx, which, with(77), depth, sched);
    o.merge(run_generic::<EitherProbe>(ctx, which, with(78), depth, sched));
    o.merge(run_generic::<EitherProbe>(ctx, which, with(79), depth, sched));
    o
}
fn replay_wrapped(ctx: &Ctx, which: Which, case: &serde_json::Value) -> Outcome {
    match case["cfg"]["variant"].as_u64() {
        Some(77) => run_generic::<ToggleProbe>(ctx, which, vec![], 0, (0, 0)),
        Some(78) | Some(79) => run_generic::<EitherProbe>(ctx, which, vec![], 0, (0, 0)),
        _ => run_generic::<Probe>(ctx, which, vec![], 0, (0, 0)),
    }
}

fn is_term(s: &str) -> bool {
    s == "Est" || s.starts_with("OutErr") || s.starts_with("InErr")
}

pub struct Sys<B: Subject>
where
    B::ToSwarm: std::fmt::Debug,
{
    pub cfg: LifeCfg,
    pub sys: SwarmSys<B>,
    conns: Vec<Conn>,
    sw_seq: Vec<(String, usize)>,
    fs_seq: Vec<(String, usize)>,
    listener_up: bool,
    drained: bool,
    /// owner (cidx) of the attempts created next
    violation: Option<String>,
    att_owner: Vec<Option<usize>>,
    pending_in_cid: std::collections::VecDeque<usize>, // inbound attempts waiting for their cid (FIFO)
    /// (absolute log position, cidx) of every PendingOut callback
    pending_out_pos: Vec<(usize, usize)>,
    pub horizon_hits: u64,
    mismatch_resolved: bool,
    /// C53: peers currently forbidden (blocked / not allowed) in the reference
    forbidden: std::collections::BTreeSet<u8>,
    forbid_count: u32,
    /// C53: connections that existed when their peer became forbidden ("are closed", whatever
    /// happens to the list afterwards)
    doomed: Vec<usize>,
    /// C58: notifications sent: (n, field, conn)
    notified: Vec<(u32, u8, usize)>,
    notify_seq: u32,
    /// full log kept for the composition oracle
    full_log: Vec<LogEv>,
    limit_hit: bool,
    /// the reference (events folded so far) is exact: nothing was runnable when the action began
    quiescent_ref: bool,
    /// C58: connections whose muxer was told to report an address change
    addr_changed: Vec<usize>,
}

const HORIZON: u64 = 2000;

impl<B: Subject> Sys<B>
where
    B::ToSwarm: std::fmt::Debug,
{
    pub fn new(cfg: LifeCfg) -> Self {
        // process-global state of the subject: restart it for every execution
        ConnectionId::verif_reset_allocator(1);
        libp2p_swarm::verif_delay::reset_registry();
        let log = Arc::new(Mutex::new(Vec::new()));
        let probe = B::make(log.clone(), &cfg);
        let scfg = SysCfg { exec: if cfg.local_exec { Exec::Local } else { Exec::Harness }, explore_schedule: cfg.explore_schedule, ..Default::default() };
        let sys = SwarmSys::new(probe, log, scfg);
        let mut s = Sys { cfg, sys, conns: vec![], sw_seq: vec![], fs_seq: vec![], listener_up: false, drained: false, violation: None, att_owner: vec![], pending_in_cid: Default::default(), pending_out_pos: vec![], horizon_hits: 0, mismatch_resolved: false, forbidden: Default::default(), forbid_count: 0, doomed: vec![], notified: vec![], notify_seq: 0, full_log: vec![], limit_hit: false, quiescent_ref: true, addr_changed: vec![] };
        if s.cfg.which == Which::C05 && s.cfg.slow_close > 0 {
            // every muxer closes asynchronously (Pending twice, then Ok)
            s.sys.ctl.lock().unwrap().default_close = Some(CloseAns::Slow);
        }
        s.ensure_listener();
        let sched = std::mem::replace(&mut s.sys.explore_schedule, false);
        // start states: 0 = initial, 1 = [P1], 2 = [P1, P1], 3 = [P1, P2] already established
        let pre: Vec<u8> = match s.cfg.pre_established {
            0 => vec![],
            1 => vec![1],
            2 => vec![1, 1],
            _ => vec![1, 2],
        };
        for (n, p) in pre.into_iter().enumerate() {
            // alternate outgoing / incoming so that both directions are present
            if n % 2 == 0 {
                let _ = s.step(&Act::Dial { p, cond: 0 });
            } else {
                let _ = s.step(&Act::Incoming);
            }
            let k = s.sys.ctl.lock().unwrap().open_attempts()[0];
            let _ = s.step(&Act::Ok { k, p });
            let open = s.sys.ctl.lock().unwrap().open_attempts();
            for k in open {
                let _ = s.step(&Act::Fail { k });
            }
        }
        s.sys.explore_schedule = sched;
        s
    }

    fn conn(&mut self, cid: ConnectionId) -> usize {
        let i = self.sys.cidx(cid);
        while self.conns.len() <= i {
            self.conns.push(Conn::default());
        }
        i
    }

    fn ensure_listener(&mut self) {
        if !self.listener_up {
            self.listener_up = true;
            let id = self.sys.swarm.listen_on(a(100)).expect("listen_on");
            self.sys.ctl.lock().unwrap().push_event(libp2p_core::transport::TransportEvent::NewAddress { listener_id: id, listen_addr: a(100) });
            self.sys.kick();
            let sched = std::mem::replace(&mut self.sys.explore_schedule, false);
            self.settle();
            self.sys.explore_schedule = sched;
            self.fold();
        }
    }

    fn settle(&mut self) {
        if self.sys.run(HORIZON) == RunEnd::Horizon {
            self.horizon_hits += 1;
            self.violation.get_or_insert("horizon :: still runnable after 2000 scheduling steps (livelock?)".into());
        }
    }

    /// attribute transport attempts to connection ids: a dial attempt belongs to the id of the
    /// last `handle_pending_outbound_connection` callback logged before it was created
    fn adopt_attempts(&mut self) {
        let ctl = self.sys.ctl.lock().unwrap();
        while self.att_owner.len() < ctl.attempts.len() {
            self.att_owner.push(None);
        }
        for k in 0..ctl.attempts.len() {
            if self.att_owner[k].is_some() || !matches!(ctl.attempts[k].kind, AttemptKind::Dial { .. }) {
                continue;
            }
            let pos = ctl.attempts[k].log_pos;
            if let Some((_, o)) = self.pending_out_pos.iter().rev().find(|(lp, _)| *lp < pos) {
                self.att_owner[k] = Some(*o);
                self.conns[*o].attempts.push(k);
            }
        }
    }

    fn addrs_of(p: u8) -> Vec<libp2p_core::Multiaddr> {
        match p {
            1 => vec![a(10), a(11)],
            0 => vec![a(40)],
            _ => vec![a(20)],
        }
    }
    fn cond(c: u8) -> PeerCondition {
        match c {
            0 => PeerCondition::Always,
            1 => PeerCondition::Disconnected,
            2 => PeerCondition::NotDialing,
            _ => PeerCondition::DisconnectedAndNotDialing,
        }
    }

    /// established-not-closed connections (model view from SwarmEvents)
    fn live(&self) -> Vec<usize> {
        (0..self.conns.len()).filter(|&i| self.conns[i].sw.iter().any(|s| s == "Est") && !self.conns[i].sw.iter().any(|s| s == "Closed")).collect()
    }
    fn live_of(&self, p: u8) -> Vec<usize> {
        self.live().into_iter().filter(|&i| self.conns[i].peer == Some(p)).collect()
    }
    fn pending(&self, c: &Conn) -> bool {
        // an outgoing id is pending from the moment the Swarm accepted the dial (for a behaviour
        // dial: once the Swarm processed the command, visible as transport attempts) until its
        // terminal event; an inbound id from its IncomingConnection event on
        c.sync_err.is_none() && !c.sw.iter().any(|s| is_term(s)) && ((c.out && (!c.via_behaviour || c.accepted)) || c.incoming_seen)
    }

    /// fold new behaviour-log entries and SwarmEvents into the reference facts; step oracles
    fn fold(&mut self) {
        let which = self.cfg.which;
        // ---- behaviour log (FromSwarm side)
        for (lpos, e) in self.sys.take_log() {
            if which == Which::C58 {
                self.full_log.push(e.clone());
            }
            if matches!(which, Which::C53 | Which::C53A) {
                // the list behaviour is asked before the probe: if the probe is asked at all for
                // a forbidden peer, the list let it through
                let asked = match &e {
                    LogEv::EstIn { peer: p, .. } | LogEv::EstOut { peer: p, .. } => pidx(p),
                    LogEv::PendingOut { peer: Some(p), .. } => pidx(p),
                    _ => None,
                };
                if let Some(p) = asked {
                    if self.forbidden.contains(&p) {
                        self.violation.get_or_insert(format!("accepted-while-forbidden :: the list let a connection decision for forbidden peer P{p} through ({})", match &e { LogEv::PendingOut{..} => "pending outbound", LogEv::EstIn{..} => "established inbound", _ => "established outbound" }));
                    }
                }
            }
            // lifecycle FromSwarm events are folded from field 0 only (composed behaviours log one
            // entry per field; their agreement is C58's forwarding oracle)
            if matches!(&e, LogEv::Established { f, .. } | LogEv::Closed { f, .. } | LogEv::DialFailure { f, .. } | LogEv::ListenFailure { f, .. } if *f != 0) {
                continue;
            }
            match e {
                LogEv::PendingIn { cid, denied, f } => {
                    let known = self.sys.cids.contains(&cid);
                    let i = self.conn(cid);
                    self.conns[i].out = false;
                    self.conns[i].denied |= denied;
                    let _ = f;
                    // the inbound attempt created by the Incoming action belongs to this id (the
                    // first callback for a new id claims it)
                    if known {
                        continue;
                    }
                    if let Some(k) = self.pending_in_cid.pop_front() {
                        while self.att_owner.len() <= k {
                            self.att_owner.push(None);
                        }
                        self.att_owner[k] = Some(i);
                        self.conns[i].attempts.push(k);
                    }
                }
                LogEv::PendingOut { cid, denied, .. } => {
                    let i = self.conn(cid);
                    self.conns[i].denied |= denied;
                    self.pending_out_pos.push((lpos, i));
                }
                LogEv::EstIn { cid, denied, .. } | LogEv::EstOut { cid, denied, .. } => {
                    let i = self.conn(cid);
                    if self.conns[i].denied {
                        self.violation.get_or_insert(format!("denied-then-asked :: c{i} was denied earlier but the behaviour was asked for a handler"));
                    }
                    self.conns[i].denied |= denied;
                }
                LogEv::Established { cid, peer: p, other_established, .. } => {
                    let i = self.conn(cid);
                    let before = self.fs_live_of(p).len();
                    if which == Which::C02 && other_established != before {
                        self.violation.get_or_insert(format!("other-established :: FromSwarm::ConnectionEstablished(c{i}) carries other_established={other_established}, history implies {before}"));
                    }
                    self.conns[i].fs.push("Est".into());
                    self.fs_seq.push(("Est".into(), i));
                    if self.conns[i].denied && (which == Which::C06) {
                        self.violation.get_or_insert(format!("denied-established :: c{i} denied but FromSwarm::ConnectionEstablished delivered"));
                    }
                    let _ = p;
                }
                LogEv::Closed { cid, peer: p, remaining, .. } => {
                    let i = self.conn(cid);
                    self.conns[i].fs.push("Closed".into());
                    self.fs_seq.push(("Closed".into(), i));
                    let after = self.fs_live_of(p).len();
                    if which == Which::C02 && remaining != after {
                        self.violation.get_or_insert(format!("remaining-established :: FromSwarm::ConnectionClosed(c{i}) carries remaining_established={remaining}, history implies {after}"));
                    }
                }
                LogEv::DialFailure { cid, error, .. } => {
                    let i = self.conn(cid);
                    self.conns[i].fs.push(format!("OutErr({error})"));
                    self.fs_seq.push(("Err".into(), i));
                }
                LogEv::ListenFailure { cid, error, .. } => {
                    let i = self.conn(cid);
                    self.conns[i].fs.push(format!("InErr({error})"));
                    self.fs_seq.push(("Err".into(), i));
                }
                LogEv::HandlerGot { cid, .. } | LogEv::HandlerPolled { cid, .. } => {
                    let i = self.conn(cid);
                    self.conns[i].handler_used = true;
                    if self.conns[i].denied && which == Which::C06 {
                        self.violation.get_or_insert(format!("denied-handler-used :: a handler of denied connection c{i} was polled or notified"));
                    }
                }
                _ => {}
            }
        }
        self.adopt_attempts();
        // ---- SwarmEvents
        for e in self.sys.take_events() {
            match e {
                Ev::Incoming { cid } => {
                    let i = self.conn(cid);
                    self.conns[i].incoming_seen = true;
                }
                Ev::Dialing { cid, .. } => {
                    let i = self.conn(cid);
                    self.conns[i].accepted = true;
                }
                Ev::Established { cid, peer: p, num_established, dialer, .. } => {
                    let i = self.conn(cid);
                    let pi = pidx(&p).unwrap_or(99);
                    let before = self.live_of(pi).len() as u32;
                    if which == Which::C02 && num_established != before + 1 {
                        self.violation.get_or_insert(format!("num-established :: ConnectionEstablished(c{i}) carries num_established={num_established}, history implies {}", before + 1));
                    }
                    if dialer != self.conns[i].out {
                        self.violation.get_or_insert(format!("direction :: c{i} established as dialer={dialer} but was created out={}", self.conns[i].out));
                    }
                    if self.conns[i].denied && which == Which::C06 {
                        self.violation.get_or_insert(format!("denied-established :: c{i} was denied but SwarmEvent::ConnectionEstablished reported"));
                    }
                    if which == Which::C05 {
                        if pi == LOCAL {
                            self.violation.get_or_insert(format!("local-established :: c{i} established with the local peer id"));
                        }
                        if let Some(x) = self.conns[i].expected {
                            if x != pi {
                                self.violation.get_or_insert(format!("wrong-peer-established :: c{i} dialed for P{x} but established as P{pi}"));
                            }
                        }
                    }
                    self.conns[i].peer = Some(pi);
                    self.conns[i].sw.push("Est".into());
                    self.sw_seq.push(("Est".into(), i));
                }
                Ev::Closed { cid, peer: p, num_established, .. } => {
                    let i = self.conn(cid);
                    self.conns[i].sw.push("Closed".into());
                    self.sw_seq.push(("Closed".into(), i));
                    let pi = pidx(&p).unwrap_or(99);
                    let after = self.live_of(pi).len() as u32;
                    if which == Which::C02 && num_established != after {
                        self.violation.get_or_insert(format!("num-established-closed :: ConnectionClosed(c{i}) carries num_established={num_established}, history implies {after}"));
                    }
                }
                Ev::OutgoingError { cid, error, .. } => {
                    let i = self.conn(cid);
                    self.conns[i].sw.push(format!("OutErr({error})"));
                    self.sw_seq.push(("Err".into(), i));
                }
                Ev::IncomingError { cid, error, .. } => {
                    let known = self.sys.cids.contains(&cid);
                    let i = self.conn(cid);
                    if !known {
                        // an inbound id no behaviour callback was logged for (denied by a field
                        // that precedes the probe): it still owns the oldest unclaimed attempt
                        if let Some(k) = self.pending_in_cid.pop_front() {
                            while self.att_owner.len() <= k {
                                self.att_owner.push(None);
                            }
                            self.att_owner[k] = Some(i);
                            self.conns[i].attempts.push(k);
                        }
                    }
                    self.conns[i].sw.push(format!("InErr({error})"));
                    self.sw_seq.push(("Err".into(), i));
                }
                _ => {}
            }
        }
    }

    fn fs_live_of(&self, p: libp2p_identity::PeerId) -> Vec<usize> {
        let pi = pidx(&p);
        (0..self.conns.len())
            .filter(|&i| self.conns[i].fs.iter().any(|s| s == "Est") && !self.conns[i].fs.iter().any(|s| s == "Closed"))
            .filter(|&i| {
                // peer of an fs-established connection: known from the swarm side once folded, or from the resolved attempt
                self.conns[i].peer.map(|x| Some(x) == pi).unwrap_or_else(|| self.resolved_peer(i) == pi)
            })
            .collect()
    }
    fn resolved_peer(&self, i: usize) -> Option<u8> {
        let ctl = self.sys.ctl.lock().unwrap();
        self.conns[i].attempts.iter().find_map(|&k| match ctl.attempts[k].resolved {
            Some(Ok(p)) => Some(p),
            _ => None,
        })
    }

    // ------------------------------------------------------------------ oracles on a state
    fn check_c01(&self) -> Result<(), String> {
        for (i, c) in self.conns.iter().enumerate() {
            let terms = c.sw.iter().filter(|s| is_term(s)).count() + c.sync_err.is_some() as usize;
            if terms > 1 {
                return Err(format!("multiple-terminals :: c{i}: events {:?} sync_err {:?}", c.sw, c.sync_err));
            }
            let closed = c.sw.iter().filter(|s| *s == "Closed").count();
            if closed > 1 {
                return Err(format!("double-close :: c{i}: events {:?}", c.sw));
            }
            if closed == 1 {
                let pe = c.sw.iter().position(|s| s == "Est");
                let pc = c.sw.iter().position(|s| s == "Closed");
                if pe.is_none() || pe > pc {
                    return Err(format!("close-without-established :: c{i}: events {:?}", c.sw));
                }
            }
            if c.sw.iter().any(|s| s.starts_with("OutErr")) && !c.out || c.sw.iter().any(|s| s.starts_with("InErr")) && c.out {
                return Err(format!("error-direction :: c{i} out={} events {:?}", c.out, c.sw));
            }
            // behaviour side mirrors it
            let fterms = c.fs.iter().filter(|s| is_term(s)).count();
            if fterms > 1 {
                return Err(format!("multiple-fromswarm-terminals :: c{i}: FromSwarm events {:?}", c.fs));
            }
            if c.sync_err.is_some() && (c.fs.len() != 1 || !c.fs[0].starts_with("OutErr")) {
                return Err(format!("sync-reject-report :: c{i} rejected synchronously ({:?}) but behaviour saw {:?}", c.sync_err, c.fs));
            }
            if c.drained || self.drained {
                if terms != 1 {
                    return Err(format!("no-terminal-after-drain :: c{i}: events {:?} sync_err {:?} (out={}, incoming_seen={})", c.sw, c.sync_err, c.out, c.incoming_seen));
                }
                if c.sw.iter().any(|s| s == "Est") && closed != 1 {
                    return Err(format!("no-close-after-drain :: c{i}: events {:?}", c.sw));
                }
            }
        }
        // same order on both sides (ids with a SwarmEvent counterpart)
        let sync: Vec<usize> = (0..self.conns.len()).filter(|&i| self.conns[i].sync_err.is_some()).collect();
        let fs: Vec<&(String, usize)> = self.fs_seq.iter().filter(|(_, i)| !sync.contains(i)).collect();
        let sw: Vec<&(String, usize)> = self.sw_seq.iter().collect();
        if fs != sw {
            return Err(format!("order-mismatch :: FromSwarm lifecycle {:?} vs SwarmEvent lifecycle {:?}", fs, sw));
        }
        Ok(())
    }

    fn check_c02(&mut self) -> Result<(), String> {
        let mut po = 0;
        let mut pi = 0;
        let mut eo = 0;
        let mut ei = 0;
        for c in &self.conns {
            if self.pending(c) {
                if c.out { po += 1 } else { pi += 1 }
            }
        }
        for i in self.live() {
            if self.conns[i].out { eo += 1 } else { ei += 1 }
        }
        let info = self.sys.swarm.network_info();
        let cc = info.connection_counters();
        let got = (cc.num_pending_outgoing(), cc.num_pending_incoming(), cc.num_established_outgoing(), cc.num_established_incoming());
        if got != (po, pi, eo, ei) {
            return Err(format!("counters :: swarm (pending_out,pending_in,est_out,est_in)={got:?}, history implies {:?}", (po, pi, eo, ei)));
        }
        if cc.num_pending() != po + pi || cc.num_established() != eo + ei || cc.num_connections() != po + pi + eo + ei {
            return Err(format!("counter-sums :: pending {} established {} connections {} vs parts {:?}", cc.num_pending(), cc.num_established(), cc.num_connections(), got));
        }
        let mut peers: Vec<u8> = self.live().iter().filter_map(|&i| self.conns[i].peer).collect();
        peers.sort();
        peers.dedup();
        if info.num_peers() != peers.len() {
            return Err(format!("num-peers :: swarm {} history {:?}", info.num_peers(), peers));
        }
        let mut got: Vec<u8> = self.sys.swarm.connected_peers().filter_map(pidx).collect();
        got.sort();
        if got != peers {
            return Err(format!("connected-peers :: swarm {got:?} history {peers:?}"));
        }
        for p in 0..3u8 {
            if self.sys.swarm.is_connected(&peer(p)) != peers.contains(&p) {
                return Err(format!("is-connected :: P{p}: swarm {} history {}", self.sys.swarm.is_connected(&peer(p)), peers.contains(&p)));
            }
        }
        Ok(())
    }

    fn check_c05(&self) -> Result<(), String> {
        let ctl = self.sys.ctl.lock().unwrap();
        for (i, c) in self.conns.iter().enumerate() {
            let Some(pred) = &c.predicted else { continue };
            let term: Option<&String> = c.sw.iter().find(|s| is_term(s));
            let Some(term) = term else {
                return Err(format!("no-outcome :: c{i}: attempt resolved (predicted {pred}) but no terminal event at quiescence; events {:?}", c.sw));
            };
            // A pending connection can also be aborted (disconnect_peer_id / CloseConnection::All
            // racing with the resolution): then the outcome is `Aborted` whatever the identity.
            let aborted = term.contains("Aborted");
            let ok = aborted
                || match pred.as_str() {
                    "Est" => term == "Est" || c.denied,
                    "Wrong" => term.starts_with("OutErr(WrongPeerId"),
                    "Local" => term.contains("LocalPeerId"),
                    _ => true,
                };
            if !ok {
                return Err(format!("identity-outcome :: c{i} (out={}, expected {:?}): predicted {pred}, got {term}", c.out, c.expected));
            }
            if pred != "Est" && !aborted {
                // the underlying connection must have been closed
                let closed = c.attempts.iter().any(|&k| ctl.attempts[k].mux.as_ref().map(|m| m.lock().unwrap().closed).unwrap_or(false));
                if !closed {
                    return Err(format!("not-closed :: c{i}: rejected identity ({term}) but the muxer never saw poll_close complete"));
                }
            }
        }
        Ok(())
    }

    fn check_c06(&self, quiescent: bool) -> Result<(), String> {
        for (i, c) in self.conns.iter().enumerate() {
            if !c.denied {
                continue;
            }
            if c.sw.iter().any(|s| s == "Est") || c.fs.iter().any(|s| s == "Est") {
                return Err(format!("denied-established :: c{i}: {:?} / {:?}", c.sw, c.fs));
            }
            if c.handler_used {
                return Err(format!("denied-handler-used :: c{i}"));
            }
            let errs_sw = c.sw.iter().filter(|s| s.contains("Denied")).count() + c.sync_err.as_ref().map(|s| s.contains("Denied") as usize).unwrap_or(0);
            let errs_fs = c.fs.iter().filter(|s| s.contains("Denied")).count();
            if errs_sw > 1 || errs_fs > 1 || (quiescent && (errs_sw != 1 || errs_fs != 1)) {
                return Err(format!("denied-report-count :: c{i}: SwarmEvent/sync errors {errs_sw} (events {:?}, sync {:?}), FromSwarm failures {errs_fs} ({:?})", c.sw, c.sync_err, c.fs));
            }
            if c.sw.len() + c.sync_err.is_some() as usize > 1 || c.fs.len() > 1 {
                return Err(format!("denied-extra-events :: c{i}: events {:?} sync {:?} fromswarm {:?}", c.sw, c.sync_err, c.fs));
            }
        }
        Ok(())
    }
}

impl<B: Subject> System for Sys<B>
where
    B::ToSwarm: std::fmt::Debug,
{
    type Action = Act;

    fn actions(&self) -> Vec<Act> {
        if self.drained {
            return vec![];
        }
        let mut v = Vec::new();
        let red = self.cfg.reduced;
        if self.conns.len() < self.cfg.max_conns % 10 {
            for p in [1u8, 2, 0] {
                if red && p == 2 {
                    continue;
                }
                // dialing the local peer id itself (e.g. an own address with /p2p/<own id>)
                if p == 0 && self.cfg.which != Which::C05 && red {
                    continue;
                }
                for cond in 0..4u8 {
                    if p == 0 && cond != 0 {
                        continue;
                    }
                    if red && cond != 0 && cond != 3 {
                        continue;
                    }
                    v.push(Act::Dial { p, cond });
                }
                if p != 0 {
                    v.push(Act::BehDial { p });
                }
            }
            if !red {
                v.push(Act::DialAddr);
            }
            if self.cfg.which == Which::C05 {
                v.push(Act::DialSfx);
            }
            if !red || matches!(self.cfg.which, Which::C02 | Which::C01) {
                v.push(Act::DialOver { cond: 0 });
                if !red {
                    v.push(Act::DialOver { cond: 2 });
                }
            }
            v.push(Act::Incoming);
        }
        {
            let ctl = self.sys.ctl.lock().unwrap();
            for k in ctl.open_attempts() {
                let peers: &[u8] = if self.cfg.which == Which::C05 || !red { &[1, 2, 0] } else { &[1, 2] };
                for &p in peers {
                    if red && p == 0 && self.cfg.which != Which::C05 {
                        continue;
                    }
                    v.push(Act::Ok { k, p });
                }
                v.push(Act::Fail { k });
            }
        }
        let live = self.live();
        for &c in &live {
            v.push(Act::Close { c });
            let (failed, ans) = self.mux_of(c).map(|m| { let m = m.lock().unwrap(); (m.fail, m.close_answer) }).unwrap_or((true, CloseAns::Err));
            if !failed {
                v.push(Act::MuxFail { c });
            }
            if ans == CloseAns::Ok {
                v.push(Act::MuxClose { c, ans: CloseAns::Err });
                if !red {
                    v.push(Act::MuxClose { c, ans: CloseAns::Pending });
                }
            }
        }
        for p in [1u8, 2] {
            let involved = self.conns.iter().any(|c| (c.peer == Some(p) || c.expected == Some(p)) && (self.pending(c) || c.sw.iter().any(|s| s == "Est") && !c.sw.iter().any(|s| s == "Closed")));
            if involved {
                v.push(Act::Disconnect { p });
                if !red {
                    v.push(Act::BehClose { p, c: None });
                    for &c in &live {
                        if self.conns[c].peer == Some(p) {
                            v.push(Act::BehClose { p, c: Some(c) });
                        }
                    }
                }
            }
        }
        match self.cfg.which {
            Which::C53 | Which::C53A => {
                for p in [1u8, 2] {
                    if self.forbidden.contains(&p) {
                        v.push(Act::List { op: 1, p });
                    } else if self.forbid_count < 2 {
                        v.push(Act::List { op: 0, p });
                    }
                }
            }
            Which::C02 => {
                if self.notify_seq < 1 {
                    for p in [1u8, 2] {
                        v.push(Act::NotifyAny { p });
                    }
                }
            }
            Which::C58 => {
                if self.notified.len() < 2 {
                    for &c in &live {
                        for f in 0..B::fields() {
                            v.push(Act::Notify { f, c });
                        }
                    }
                }
                if self.conns.len() < self.cfg.max_conns % 10 {
                    v.push(Act::DialExt);
                }
                if self.addr_changed.is_empty() {
                    for &c in &live {
                        v.push(Act::MuxAddr { c });
                    }
                }
            }
            _ => {}
        }
        if !self.conns.is_empty() {
            v.push(Act::Drain);
        }
        v
    }

    fn step(&mut self, act: &Act) -> Result<(), String> {
        self.apply(act);
        self.sys.kick();
        self.settle();
        self.fold();
        self.check_step()?;
        self.check_quiescent()
    }

    fn canon(&self) -> Vec<u8> {
        let ctl = self.sys.ctl.lock().unwrap();
        let att: Vec<String> = ctl
            .attempts
            .iter()
            .map(|a| {
                let m = a.mux.as_ref().map(|m| {
                    let m = m.lock().unwrap();
                    format!("{}{}{}{:?}", m.fail as u8, m.closed as u8, m.dropped as u8, m.close_answer)
                });
                format!("{:?}/{:?}/{}/{:?}", a.resolved, m, a.cancelled() as u8, matches!(a.kind, AttemptKind::Dial { .. }))
            })
            .collect();
        let info = self.sys.swarm.network_info();
        let cc = info.connection_counters();
        format!(
            "{:?}|{:?}|{:?}|{}|{}|{:?}|{:?}|{}|{}|{:?}|{:?}",
            self.doomed,
            self.forbidden,
            self.notified,
            self.forbid_count,
            serde_json::to_string(&self.conns).unwrap(),
            self.sw_seq,
            att,
            self.drained,
            self.listener_up,
            (cc.num_pending_outgoing(), cc.num_pending_incoming(), cc.num_established_outgoing(), cc.num_established_incoming(), info.num_peers()),
            self.sys.tasks.live(),
        )
        .into_bytes()
    }

    fn nontrivial(&self) -> bool {
        match self.cfg.which {
            Which::C01 => self.conns.iter().any(|c| c.sw.iter().any(|s| is_term(s)) || c.sync_err.is_some()),
            Which::C02 => self.conns.iter().any(|c| self.pending(c)) || !self.live().is_empty(),
            Which::C05 => self.mismatch_resolved,
            Which::C06 => self.conns.iter().any(|c| c.denied),
            Which::C52 => self.limit_hit,
            Which::C53 | Which::C53A => !self.forbidden.is_empty() || self.forbid_count > 0,
            Which::C58 => !self.notified.is_empty() || self.conns.iter().any(|c| c.denied) || !self.full_log.is_empty(),
        }
    }
}

impl<B: Subject> Sys<B>
where
    B::ToSwarm: std::fmt::Debug,
{
    /// Is the action meaningful in the current state (its indices exist)? Used when the
    /// schedule exploration applies an action before the system went quiescent.
    pub fn applicable(&self, act: &Act) -> bool {
        match act {
            Act::Ok { k, .. } | Act::Fail { k } => self.sys.ctl.lock().unwrap().attempts.get(*k).map(|a| a.open()).unwrap_or(false),
            Act::Close { c } | Act::MuxFail { c } | Act::BehClose { c: Some(c), .. } | Act::Notify { c, .. } | Act::MuxClose { c, .. } | Act::MuxAddr { c } => self.live().contains(c),
            _ => true,
        }
    }

    /// perform the action on the real Swarm / environment (no scheduling)
    pub fn apply(&mut self, act: &Act) {
        self.quiescent_ref = !self.sys.has_runnable();
        // bring the reference up to date first (attribution of attempts needs the callbacks
        // logged so far)
        self.fold();
        match act {
            Act::Dial { p, cond } => {
                let opts = DialOpts::peer_id(peer(*p)).addresses(Self::addrs_of(*p)).condition(Self::cond(*cond)).build();
                let i = self.conn(opts.connection_id());
                self.conns[i].out = true;
                self.conns[i].expected = Some(*p);
                let dialing = self.conns.iter().enumerate().any(|(j, c)| j != i && c.out && c.expected == Some(*p) && self.pending(c));
                let connected = !self.live_of(*p).is_empty();
                let holds = match cond {
                    0 => true,
                    1 => !connected,
                    2 => !dialing,
                    _ => !connected && !dialing,
                };
                let r = self.sys.swarm.dial(opts);
                // the condition is judged at quiescent points only (the reference is exact there)
                {
                    match &r {
                        Ok(()) if !holds && self.quiescent_ref => {
                            self.violation.get_or_insert(format!("condition-ignored :: dial with condition {cond} accepted although connected={connected} dialing={dialing}"));
                        }
                        Err(libp2p_swarm::DialError::DialPeerConditionFalse(_)) if holds && self.quiescent_ref => {
                            self.violation.get_or_insert(format!("condition-false-positive :: dial with condition {cond} rejected although connected={connected} dialing={dialing}"));
                        }
                        _ => {}
                    }
                }
                if let Err(e) = r {
                    self.conns[i].sync_err = Some(dial_err_class(&e));
                }
            }
            Act::DialAddr => {
                let opts = DialOpts::unknown_peer_id().address(a(30)).build();
                let i = self.conn(opts.connection_id());
                self.conns[i].out = true;
                if let Err(e) = self.sys.swarm.dial(opts) {
                    self.conns[i].sync_err = Some(dial_err_class(&e));
                }
            }
            Act::DialOver { cond } => {
                let opts = DialOpts::peer_id(peer(1)).addresses(vec![a(13)]).condition(Self::cond(*cond)).override_role().build();
                let i = self.conn(opts.connection_id());
                self.conns[i].out = true;
                self.conns[i].expected = Some(1);
                // reference for the condition: NotDialing is false while any outgoing dial for P1
                // (role-overridden or not) is pending
                let dialing = self.conns.iter().enumerate().any(|(j, c)| j != i && c.out && c.expected == Some(1) && self.pending(c));
                let r = self.sys.swarm.dial(opts);
                match (&r, *cond == 2 && dialing) {
                    (Ok(()), true) => {
                        self.violation.get_or_insert("condition-ignored :: dial with PeerCondition::NotDialing accepted while another dial to the peer is pending".into());
                    }
                    (Err(e), false) => {
                        if matches!(e, libp2p_swarm::DialError::DialPeerConditionFalse(_)) {
                            self.violation.get_or_insert("condition-false-positive :: dial rejected with DialPeerConditionFalse although the condition holds".into());
                        }
                    }
                    _ => {}
                }
                if let Err(e) = r {
                    self.conns[i].sync_err = Some(dial_err_class(&e));
                }
            }
            Act::DialSfx => {
                // the dial is FOR P1; the address names P2 (e.g. a stale address-book entry)
                let ad = a(12).with_p2p(peer(2)).expect("p2p suffix");
                let opts = DialOpts::peer_id(peer(1)).addresses(vec![ad]).condition(PeerCondition::Always).build();
                let i = self.conn(opts.connection_id());
                self.conns[i].out = true;
                self.conns[i].expected = Some(1);
                if let Err(e) = self.sys.swarm.dial(opts) {
                    self.conns[i].sync_err = Some(dial_err_class(&e));
                }
            }
            Act::BehDial { p } => {
                let opts = DialOpts::peer_id(peer(*p)).addresses(Self::addrs_of(*p)).build();
                let i = self.conn(opts.connection_id());
                self.conns[i].out = true;
                self.conns[i].expected = Some(*p);
                self.conns[i].via_behaviour = true;
                self.sys.swarm.behaviour_mut().probe().push(ToSwarm::Dial { opts });
            }
            Act::Incoming => {
                let k = {
                    let mut ctl = self.sys.ctl.lock().unwrap();
                    ctl.incoming(0, a(100), a(200));
                    ctl.attempts.len() - 1
                };
                self.pending_in_cid.push_back(k);
            }
            Act::Ok { k, p } => {
                self.adopt_attempts();
                let owner = self.att_owner.get(*k).copied().flatten();
                if let Some(o) = owner {
                    if self.conns[o].predicted.is_none() {
                        let c = &self.conns[o];
                        let pred = if c.out && c.expected.is_some() && c.expected != Some(*p) {
                            "Wrong"
                        } else if *p == LOCAL {
                            "Local"
                        } else {
                            "Est"
                        };
                        if pred != "Est" {
                            self.mismatch_resolved = true;
                        }
                        self.conns[o].predicted = Some(pred.into());
                    }
                }
                self.sys.ctl.lock().unwrap().resolve_ok(*k, *p);
            }
            Act::Fail { k } => {
                self.sys.ctl.lock().unwrap().resolve_err(*k);
            }
            Act::Close { c } => {
                let cid = self.sys.cids[*c];
                self.sys.swarm.close_connection(cid);
            }
            Act::Disconnect { p } => {
                let _ = self.sys.swarm.disconnect_peer_id(peer(*p));
            }
            Act::BehClose { p, c } => {
                let connection = match c {
                    None => CloseConnection::All,
                    Some(c) => CloseConnection::One(self.sys.cids[*c]),
                };
                self.sys.swarm.behaviour_mut().probe().push(ToSwarm::CloseConnection { peer_id: peer(*p), connection });
            }
            Act::MuxFail { c } => {
                if let Some(m) = self.mux_of(*c) {
                    m.lock().unwrap().fail = true;
                    mux_wake(&m);
                }
            }
            Act::MuxClose { c, ans } => {
                if let Some(m) = self.mux_of(*c) {
                    m.lock().unwrap().close_answer = *ans;
                }
            }
            Act::MuxAddr { c } => {
                if let Some(m) = self.mux_of(*c) {
                    self.addr_changed.push(*c);
                    m.lock().unwrap().addr_change = Some(a(90));
                    mux_wake(&m);
                }
            }
            Act::List { op, p } => {
                if *op == 0 {
                    if self.forbidden.insert(*p) {
                        for c in self.live_of(*p) {
                            if !self.doomed.contains(&c) {
                                self.doomed.push(c);
                            }
                        }
                    }
                    self.forbid_count += 1;
                } else {
                    self.forbidden.remove(p);
                }
                self.sys.swarm.behaviour_mut().extra(*op, *p);
            }
            Act::Notify { f, c } => {
                self.notify_seq += 1;
                let n = 100 * (*f as u32) + self.notify_seq;
                self.notified.push((n, *f, *c));
                let cid = self.sys.cids[*c];
                let peer_id = peer(self.conns[*c].peer.unwrap_or(1));
                self.sys.swarm.behaviour_mut().probe_n(*f).push(ToSwarm::NotifyHandler { peer_id, handler: libp2p_swarm::NotifyHandler::One(cid), event: n });
            }
            Act::NotifyAny { p } => {
                self.notify_seq += 1;
                self.sys.swarm.behaviour_mut().probe().push(ToSwarm::NotifyHandler { peer_id: peer(*p), handler: libp2p_swarm::NotifyHandler::Any, event: 7 });
            }
            Act::DialExt => {
                let opts = DialOpts::peer_id(peer(1)).addresses(vec![a(10)]).condition(PeerCondition::Always).extend_addresses_through_behaviour().build();
                let i = self.conn(opts.connection_id());
                self.conns[i].out = true;
                self.conns[i].expected = Some(1);
                let before = self.sys.ctl.lock().unwrap().dial_calls.len();
                match self.sys.swarm.dial(opts) {
                    Err(e) => self.conns[i].sync_err = Some(dial_err_class(&e)),
                    Ok(()) => {
                        // pending-dial addresses = explicit ++ concatenation of the fields' lists
                        let calls: Vec<String> = self.sys.ctl.lock().unwrap().dial_calls[before..].iter().map(|c| aname(&c.0)).collect();
                        let mut want = vec![format!("A10/p2p/P1")];
                        for f in 0..B::fields() {
                            want.push(format!("A{}/p2p/P1", 60 + f as u64));
                        }
                        let (mut g, mut w) = (calls.clone(), want.clone());
                        g.sort();
                        w.sort();
                        if g != w {
                            self.violation.get_or_insert(format!("address-union :: extended dial handed the transport {calls:?}, expected explicit + every field's addresses {want:?}"));
                        }
                    }
                }
            }
            Act::Drain => {
                // drain suffix: fail everything pending, then close everything established
                let sched = std::mem::replace(&mut self.sys.explore_schedule, false);
                self.sys.kick();
                self.settle();
                self.fold();
                let open = self.sys.ctl.lock().unwrap().open_attempts();
                for k in open {
                    self.sys.ctl.lock().unwrap().resolve_err(k);
                }
                self.sys.kick();
                self.settle();
                self.fold();
                for c in self.live() {
                    let cid = self.sys.cids[c];
                    self.sys.swarm.close_connection(cid);
                }
                // muxers that keep `poll_close` pending now complete it
                let muxes: Vec<_> = self.sys.ctl.lock().unwrap().attempts.iter().filter_map(|a| a.mux.clone()).collect();
                for m in muxes {
                    let pending = m.lock().unwrap().close_answer == CloseAns::Pending;
                    if pending {
                        m.lock().unwrap().close_answer = CloseAns::Ok;
                        mux_wake(&m);
                    }
                }
                self.sys.kick();
                self.settle();
                self.sys.explore_schedule = sched;
                self.drained = true;
            }
        }
    }

    /// oracles that hold after every poll of the Swarm
    pub fn check_step(&mut self) -> Result<(), String> {
        // a behaviour dial that the Swarm rejected synchronously leaves only a DialFailure
        for c in self.conns.iter_mut() {
            if c.via_behaviour && c.sync_err.is_none() && c.sw.is_empty() && c.attempts.is_empty() && c.fs.len() == 1 && c.fs[0].starts_with("OutErr") {
                c.sync_err = Some(c.fs[0].clone());
            }
        }
        if let Some(v) = self.violation.take() {
            return Err(v);
        }
        match self.cfg.which {
            Which::C01 => self.check_c01(),
            Which::C02 => self.check_c02(),
            Which::C05 => Ok(()),
            Which::C06 => self.check_c06(false).and_then(|_| self.check_c02()),
            Which::C52 => self.check_c52(),
            Which::C53 | Which::C53A => Ok(()),
            Which::C58 => self.check_c58(false),
        }
    }
    /// oracles that are only meaningful when nothing is runnable
    pub fn check_quiescent(&mut self) -> Result<(), String> {
        match self.cfg.which {
            Which::C05 => self.check_c05(),
            Which::C06 => self.check_c06(true),
            Which::C53 | Which::C53A => self.check_c53(),
            Which::C58 => self.check_c58(true).and_then(|_| self.check_c06(true)),
            _ => Ok(()),
        }
    }

    fn check_c52(&mut self) -> Result<(), String> {
        let l = crate::compose::limit_set(self.cfg.variant);
        let byp = Some(crate::compose::BYPASSED);
        let mut pin = 0u32;
        let mut pout = 0u32;
        for c in &self.conns {
            if self.pending(c) {
                if c.out {
                    if c.expected != byp {
                        pout += 1;
                    }
                } else {
                    pin += 1;
                }
            }
        }
        let mut ein = 0u32;
        let mut eout = 0u32;
        let mut per: std::collections::BTreeMap<u8, u32> = Default::default();
        for i in self.live() {
            let c = &self.conns[i];
            if c.peer == byp {
                continue;
            }
            if c.out { eout += 1 } else { ein += 1 }
            *per.entry(c.peer.unwrap_or(99)).or_default() += 1;
        }
        let got = [pin, pout, ein, eout, per.values().copied().max().unwrap_or(0), ein + eout];
        let names = ["pending incoming", "pending outgoing", "established incoming", "established outgoing", "established per peer", "established total"];
        for k in 0..6 {
            if got[k] > l[k] {
                return Err(format!("limit-exceeded {} :: {} non-bypassed connections, limit {} (limits {l:?}, counts {got:?})", names[k], got[k], l[k]));
            }
            if got[k] == l[k] {
                self.limit_hit = true;
            }
        }
        Ok(())
    }

    fn check_c53(&self) -> Result<(), String> {
        for &c in &self.doomed {
            let closed = self.conns[c].sw.iter().any(|s| s == "Closed") || self.mux_of(c).map(|m| m.lock().unwrap().close_polled > 0).unwrap_or(false);
            if !closed {
                return Err(format!("existing-connection-not-closed :: connection c{c} existed when its peer became forbidden but is still established (and nobody tried to close it) at quiescence"));
            }
        }
        for &p in &self.forbidden {
            // a connection whose muxer has been asked to close (and keeps the answer pending, a
            // scripted environment behaviour) is being closed: only connections nobody tried to
            // close count
            let live: Vec<usize> = self.live_of(p).into_iter().filter(|&c| self.mux_of(c).map(|m| m.lock().unwrap().close_polled == 0).unwrap_or(true)).collect();
            if !live.is_empty() {
                return Err(format!("forbidden-peer-connected :: P{p} is forbidden but connections {live:?} are still established at quiescence"));
            }
        }
        Ok(())
    }

    fn check_c58(&self, quiescent: bool) -> Result<(), String> {
        let nf = B::fields();
        // (1) every FromSwarm event reaches every field, in the same order
        let proj = |f: u8| -> Vec<String> {
            self.full_log
                .iter()
                .filter_map(|e| match e {
                    LogEv::Established { f: x, cid, other_established, .. } if *x == f => Some(format!("Est({cid},{other_established})")),
                    LogEv::Closed { f: x, cid, remaining, .. } if *x == f => Some(format!("Closed({cid},{remaining})")),
                    LogEv::DialFailure { f: x, cid, error, .. } if *x == f => Some(format!("DialFailure({cid},{error})")),
                    LogEv::ListenFailure { f: x, cid, error, .. } if *x == f => Some(format!("ListenFailure({cid},{error})")),
                    LogEv::Other { f: x, what } if *x == f && !what.starts_with("emit ") => Some(what.clone()),
                    _ => None,
                })
                .collect()
        };
        let p0 = proj(0);
        for f in 1..nf {
            let pf = proj(f);
            // a FromSwarm event is delivered to all fields within one call, so the projections
            // agree after every poll
            if pf != p0 {
                return Err(format!("forwarding :: field {f} saw {pf:?}, field 0 saw {p0:?}"));
            }
        }
        // (2) handler events come back to the field whose handler emitted them, and behaviour
        // events reach that field's handler on the right connection
        for e in &self.full_log {
            match e {
                LogEv::HandlerGot { f, cid, n } => {
                    let Some(&(_, wf, wc)) = self.notified.iter().find(|x| x.0 == *n) else {
                        return Err(format!("phantom-handler-event :: handler of field {f} got {n} which nobody sent"));
                    };
                    if wf != *f || self.sys.cids.get(wc) != Some(cid) {
                        return Err(format!("misrouted-to-handler :: event {n} sent by field {wf} to c{wc} reached the handler of field {f} on connection {cid}"));
                    }
                }
                LogEv::FromHandler { f, n, .. } if *n >= 9000 => {
                    // final event emitted from poll_close: must come back to its own field
                    if *n != 9000 + *f as u32 {
                        return Err(format!("misrouted-close-event :: final event {n} of field {} was delivered to field {f}", n - 9000));
                    }
                }
                LogEv::FromHandler { f, cid, n, .. } => {
                    let orig = n.wrapping_sub(1000);
                    let Some(&(_, wf, wc)) = self.notified.iter().find(|x| x.0 == orig) else {
                        return Err(format!("phantom-behaviour-event :: field {f} got handler event {n} which no handler emitted"));
                    };
                    if wf != *f || self.sys.cids.get(wc) != Some(cid) {
                        return Err(format!("misrouted-to-behaviour :: handler event {n} of field {wf} on c{wc} was delivered to field {f} for connection {cid}"));
                    }
                }
                _ => {}
            }
        }
        // (3) a connection event that carries no handler-specific type (AddressChange) reaches the
        // handler of every field exactly once per change
        for (i, c) in self.conns.iter().enumerate() {
            let Some(cid) = self.sys.cids.get(i) else { continue };
            let applied = self.addr_changed.iter().filter(|&&x| x == i).count();
            let count = |f: u8| self.full_log.iter().filter(|e| matches!(e, LogEv::HandlerAddr { f: x, cid: y, .. } if *x == f && y == cid)).count();
            let c0 = count(0);
            for f in 0..nf {
                let cf = count(f);
                if cf > applied {
                    return Err(format!("address-change-duplicated :: handler of field {f} on c{i} got {cf} AddressChange events, the muxer reported {applied}"));
                }
                if quiescent && cf != c0 {
                    return Err(format!("address-change-not-forwarded :: on c{i} the handler of field 0 got {c0} AddressChange events, the handler of field {f} got {cf}"));
                }
            }
            let live = c.sw.iter().any(|s| s == "Est") && !c.sw.iter().any(|s| s == "Closed");
            let closing = self.mux_of(i).map(|m| { let m = m.lock().unwrap(); m.close_polled > 0 || m.fail }).unwrap_or(true);
            if quiescent && live && !closing && c0 != applied {
                return Err(format!("address-change-lost :: the muxer of live c{i} reported {applied} address change(s), handlers got {c0}"));
            }
        }
        if quiescent {
            // every closed connection delivered each field's final (poll_close) event exactly once
            for (i, c) in self.conns.iter().enumerate() {
                if !c.sw.iter().any(|s| s == "Closed") {
                    continue;
                }
                let cid = self.sys.cids[i];
                for f in 0..nf {
                    let k = self.full_log.iter().filter(|e| matches!(e, LogEv::FromHandler { f: x, cid: y, n, .. } if *x == f && *y == cid && *n == 9000 + f as u32)).count();
                    if k != 1 {
                        return Err(format!("close-event-count field {f} :: connection c{i} is closed but the final event of field {f}'s handler reached its field {k} times (expected once)"));
                    }
                }
            }
            for (n, f, c) in &self.notified {
                // closed, or being closed (its muxer was asked to close and keeps that pending)
                let closed = self.conns[*c].sw.iter().any(|s| s == "Closed") || self.mux_of(*c).map(|m| m.lock().unwrap().close_polled > 0).unwrap_or(false);
                let echoed = self.full_log.iter().any(|e| matches!(e, LogEv::FromHandler { n: m, .. } if *m == n + 1000));
                if !echoed && !closed {
                    return Err(format!("handler-event-lost :: event {n} of field {f} on live connection c{c} never came back"));
                }
            }
        }
        // (2b) every field is consulted at every decision point a connection passed: an accepted
        // outgoing dial (transport attempts exist) was put to every field's
        // handle_pending_outbound_connection, an accepted inbound connection to every
        // handle_pending_inbound_connection, an established one to every handle_established_*
        for (i, c) in self.conns.iter().enumerate() {
            let cid = self.sys.cids[i];
            let asked = |kind: u8| -> Vec<u8> {
                self.full_log
                    .iter()
                    .filter_map(|e| match e {
                        LogEv::PendingIn { f, cid: x, .. } if *x == cid && kind == 0 => Some(*f),
                        LogEv::PendingOut { f, cid: x, .. } if *x == cid && kind == 1 => Some(*f),
                        LogEv::EstIn { f, cid: x, .. } | LogEv::EstOut { f, cid: x, .. } if *x == cid && kind == 2 => Some(*f),
                        _ => None,
                    })
                    .collect()
            };
            let all: Vec<u8> = (0..nf).collect();
            if c.out && !c.attempts.is_empty() && asked(1) != all {
                return Err(format!("field-not-asked pending-outbound :: c{i} was dialed (transport attempts exist) but handle_pending_outbound_connection reached fields {:?} of {nf}", asked(1)));
            }
            if c.incoming_seen && asked(0) != all {
                return Err(format!("field-not-asked pending-inbound :: c{i} was accepted as pending inbound but handle_pending_inbound_connection reached fields {:?} of {nf}", asked(0)));
            }
            if c.sw.iter().any(|s| s == "Est") && asked(2) != all {
                return Err(format!("field-not-asked established :: c{i} is established but handle_established_* reached fields {:?} of {nf}", asked(2)));
            }
        }
        // (3) denial short-circuits: after a field denied, later fields are not asked, and no
        // handler of that connection is ever polled
        for (i, c) in self.conns.iter().enumerate() {
            if !c.denied {
                continue;
            }
            let cid = self.sys.cids[i];
            let mut denied_by: Option<u8> = None;
            for e in &self.full_log {
                match e {
                    LogEv::PendingIn { f, cid: x, denied } | LogEv::PendingOut { f, cid: x, denied, .. } | LogEv::EstIn { f, cid: x, denied, .. } | LogEv::EstOut { f, cid: x, denied, .. } if *x == cid => {
                        if let Some(d) = denied_by {
                            return Err(format!("asked-after-denial :: c{i}: field {d} denied, yet field {f} was still asked"));
                        }
                        if *denied {
                            denied_by = Some(*f);
                        }
                    }
                    LogEv::HandlerPolled { cid: x, f } | LogEv::HandlerGot { cid: x, f, .. } if *x == cid => {
                        return Err(format!("denied-handler-used :: c{i}: a handler of field {f} was used although the connection was denied"));
                    }
                    _ => {}
                }
            }
        }
        Ok(())
    }

    fn mux_of(&self, c: usize) -> Option<Arc<Mutex<MuxState>>> {
        let ctl = self.sys.ctl.lock().unwrap();
        self.conns[c].attempts.iter().find_map(|&k| ctl.attempts[k].mux.clone())
    }
}

// ---------------------------------------------------------------------------------------------

fn cfg_json(c: &LifeCfg) -> Value {
    serde_json::to_value(c).unwrap()
}

fn replay_case<B: Subject>(case: &Value, out: &mut Outcome)
where
    B::ToSwarm: std::fmt::Debug,
{
    out.evaluations = 1;
    let cfg: LifeCfg = match serde_json::from_value(case["cfg"].clone()) {
        Ok(c) => c,
        Err(e) => {
            out.machinery(format!("bad replay cfg: {e}"));
            return;
        }
    };
    let r = if case.get("choices").is_some() {
        let choices: Vec<u32> = serde_json::from_value(case["choices"].clone()).unwrap_or_default();
        let hist: Vec<Act> = serde_json::from_value(case["history"].clone()).unwrap_or_default();
        choice::replay(&choices, |ch| iso(true, ch, || run_history::<B>(&cfg, &hist)))
    } else {
        bfs::replay_history_iso(0, || Sys::<B>::new(cfg.clone()), case)
    };
    if let Err(m) = r {
        out.violation(bfs::signature_of(&m), m, case.clone());
    }
}

/// Run one history with the current chooser deciding the schedule. Default: run to quiescence
/// between actions (exactly what the BFS does). Deviations: poll another runnable party than
/// the default one, or apply the next action although the system is not quiescent yet.
fn run_history<B: Subject>(cfg: &LifeCfg, hist: &[Act]) -> Result<(), String>
where
    B::ToSwarm: std::fmt::Debug,
{
    let guard = |s: &mut Sys<B>, f: &mut dyn FnMut(&mut Sys<B>) -> Result<(), String>| -> Result<(), String> {
        mc::catch(|| f(s)).unwrap_or_else(|p| Err(format!("panic at {} :: {p}", mc::shim::last_panic_loc().unwrap_or_default())))
    };
    let mut s = Sys::<B>::new(cfg.clone());
    let mut next = 0;
    let mut steps = 0u64;
    loop {
        let can_act = next < hist.len() && s.applicable(&hist[next]);
        let runnable = s.sys.has_runnable();
        if !runnable {
            // quiescent point
            guard(&mut s, &mut |s| {
                s.fold();
                s.check_step()?;
                s.check_quiescent()
            })?;
            if !can_act {
                break; // history finished, or its next action can never apply in this execution
            }
        }
        let act_now = if can_act && runnable && cfg.explore_schedule { choice::choose_l(2, 1, "act-early") == 1 } else { can_act && !runnable };
        if act_now {
            let a = hist[next].clone();
            next += 1;
            guard(&mut s, &mut |s| {
                s.apply(&a);
                s.sys.kick();
                Ok(())
            })?;
        } else {
            guard(&mut s, &mut |s| {
                s.sys.sched_step();
                if s.sys.last_was_swarm() {
                    s.fold();
                    s.check_step()?;
                }
                Ok(())
            })?;
        }
        steps += 1;
        if steps > 4 * HORIZON {
            return Err("horizon :: execution did not quiesce".into());
        }
    }
    choice::observe(&format!("{:?}|{:?}", s.sw_seq, next));
    // drain suffix (default schedule) after every explored schedule: whatever the interleaving
    // left behind must still come to exactly one terminal event and one close per id
    if !s.drained {
        s.sys.explore_schedule = false;
        guard(&mut s, &mut |s| s.step(&Act::Drain))?;
    }
    Ok(())
}

/// run `f` as one isolated execution (fresh thread, entropy/clock reset) with `ch` installed
fn iso(isolate: bool, ch: &mut choice::Chooser, f: impl FnOnce() -> Result<(), String> + Send) -> Result<(), String> {
    if !isolate {
        return choice::scoped(ch, f);
    }
    let mut c = std::mem::take(ch);
    let r = mc::shim::isolated_scoped(0, || {
        let r = choice::scoped(&mut c, f);
        (r, c)
    });
    match r {
        Ok((r, c)) => {
            *ch = c;
            r
        }
        Err(p) => Err(format!("panic :: {p}")),
    }
}

fn explore_cfg<B: Subject>(ctx: &Ctx, cfg: &LifeCfg, depth: usize, cap: u64, out: &mut Outcome)
where
    B::ToSwarm: std::fmt::Debug,
{
    let cj = cfg_json(cfg);
    // With the harness executor every scheduling decision is the explorer's, and connection ids
    // are reset per execution, so executions are reproducible in one thread (checked by the
    // determinism self-test). `without_executor` polls tasks through FuturesUnordered in an order
    // that follows hash-map iteration: those configurations run as isolated executions.
    let (st, viols) = if cfg.local_exec { bfs::bfs_replay_iso(0, || Sys::<B>::new(cfg.clone()), depth.saturating_sub(1).max(2), cap) } else { bfs::bfs_replay(|| Sys::<B>::new(cfg.clone()), depth, cap) };
    bfs::record(out, &cj, &st, &viols);
    out.count("bfs_configs", 1);
    let _ = ctx;
}

/// E1 part: schedule deviations over all short histories of the reduced alphabet
fn schedules<B: Subject>(cfg0: &LifeCfg, hist_len: usize, bound: u32, out: &mut Outcome, ctx: &Ctx, stripe: &mut u64)
where
    B::ToSwarm: std::fmt::Debug,
{
    let mut cfg = cfg0.clone();
    cfg.reduced = true;
    cfg.explore_schedule = false;
    // enumerate histories with the default schedule first (DFS over enabled actions)
    let mut hists: Vec<Vec<Act>> = Vec::new();
    let mut stack: Vec<Vec<Act>> = vec![vec![]];
    while let Some(h) = stack.pop() {
        let body = || {
            let mut s = Sys::<B>::new(cfg.clone());
            for a in &h {
                if s.step(a).is_err() {
                    return None;
                }
            }
            Some(s.actions())
        };
        let r = if cfg.local_exec { mc::shim::isolated_scoped(0, body) } else { mc::catch(body) };
        let Ok(Some(acts)) = r else { continue };
        if !h.is_empty() {
            hists.push(h.clone());
        }
        if h.len() < hist_len {
            for a in acts {
                if a == Act::Drain && h.len() + 1 < hist_len {
                    continue; // Drain is terminal; only as last action
                }
                let mut h2 = h.clone();
                h2.push(a);
                stack.push(h2);
            }
        }
    }
    cfg.explore_schedule = true;
    let cj = cfg_json(&cfg);
    for h in hists {
        *stripe += 1;
        if !ctx.mine(*stripe) {
            continue;
        }
        let (st, viol) = choice::explore(bound, 200_000, |ch| iso(cfg.local_exec, ch, || run_history::<B>(&cfg, &h)));
        out.add_explore(&st);
        out.count("schedule_histories", 1);
        out.count("schedule_distinct_observations", st.distinct_obs);
        if st.executions > 1 {
            out.nontrivial(&format!("sched{cj}{h:?}"));
        }
        if out.get("schedule_histories") % 199 == 1 {
            out.sample(json!({"history": format!("{h:?}"), "schedule_executions": st.executions, "distinct_event_orders": st.distinct_obs}));
        }
        if let Some((choices, m)) = viol {
            if m.starts_with("NONDETERMINISM") {
                out.machinery(format!("{m} history={h:?}"));
            } else {
                out.violation(bfs::signature_of(&m), format!("{m} under schedule {choices:?} of history {h:?}"), json!({"cfg": cj, "history": h, "choices": choices}));
            }
        }
    }
}

pub fn base(which: Which) -> LifeCfg {
    LifeCfg { which, deny: DenyMask::default(), max_conns: 3, local_exec: false, reduced: false, explore_schedule: false, pre_established: 0, variant: 0, depth: 0, slow_close: 0 }
}

pub fn run_generic<B: Subject>(ctx: &Ctx, which: Which, cfgs: Vec<LifeCfg>, depth: usize, sched: (usize, u32)) -> Outcome
where
    B::ToSwarm: std::fmt::Debug,
{
    if let Some(case) = &ctx.replay {
        let mut out = Outcome::default();
        replay_case::<B>(case, &mut out);
        return out;
    }
    let n = cfgs.len();
    let mut out = mc::workers(ctx, 16, |ctx| {
        let mut out = Outcome::default();
        let mut stripe = 0u64;
        for (i, cfg) in cfgs.iter().enumerate() {
            // BFS of one configuration is sequential: stripe configurations over workers
            if ctx.mine(i as u64) {
                explore_cfg::<B>(ctx, cfg, if cfg.depth != 0 { cfg.depth } else { depth }, 4_000_000, &mut out);
            }
            // `without_executor` executions are isolated (fresh thread each): in the quick tier they
            // get the BFS only, the schedule exploration runs on the harness-executor configurations
            if !(cfg.local_exec && ctx.quick()) {
                schedules::<B>(cfg, sched.0, sched.1, &mut out, ctx, &mut stripe);
            }
        }
        out
    });
    out.notes.push(format!("{which:?}: {n} configurations, BFS depth {depth}, schedule exploration over histories of length <= {} with deviation bound {}", sched.0, sched.1));
    out
}

/// both executor modes, from the initial state and from states with 1 and 2 connections to P1
/// already established (max_conns grows accordingly so that three more ids can be created)
pub fn two_execs(c: LifeCfg) -> Vec<LifeCfg> {
    let mut v = Vec::new();
    for pre in 0..3u8 {
        let mut h = c.clone();
        h.pre_established = pre;
        h.max_conns = c.max_conns + pre as usize - (pre > 0) as usize;
        let mut l = h.clone();
        l.local_exec = true;
        v.push(h);
        if pre < 1 {
            v.push(l);
        }
    }
    v
}

/// the plain configurations plus two in which the behaviour denies every other decision at
/// every decision point (denied connections must keep both event streams in step as well)
fn with_denials(which: Which) -> Vec<LifeCfg> {
    let mut v = two_execs(base(which));
    for d in [Deny::Odd, Deny::Even] {
        let mut c = base(which);
        c.deny = DenyMask { pending_in: d, pending_out: d, est_in: d, est_out: d };
        v.push(c);
    }
    v
}

pub fn run_c01(ctx: &Ctx) -> Outcome {
    let cfgs = with_denials(Which::C01);
    if let Some(case) = &ctx.replay {
        return replay_wrapped(ctx, Which::C01, case);
    }
    let mut o = run_generic::<Probe>(ctx, Which::C01, cfgs.clone(), ctx.tier.pick(4, 5), (ctx.tier.pick(3, 4), ctx.tier.pick(1, 2)));
    // both event streams must stay in step as well when the behaviour sits inside a combinator
    let harness_exec: Vec<LifeCfg> = cfgs.into_iter().filter(|c| !c.local_exec).collect();
    o.merge(wrapped(ctx, Which::C01, &harness_exec, ctx.tier.pick(3, 4), (ctx.tier.pick(2, 3), 1)));
    o
}
pub fn run_c02(ctx: &Ctx) -> Outcome {
    let cfgs = with_denials(Which::C02);
    run_generic::<Probe>(ctx, Which::C02, cfgs, ctx.tier.pick(4, 5), (ctx.tier.pick(3, 4), ctx.tier.pick(1, 2)))
}
pub fn run_c05(ctx: &Ctx) -> Outcome {
    let mut cfgs = two_execs(base(Which::C05));
    // the same with muxers whose close is asynchronous: a rejected connection must still be
    // closed to completion, not dropped after the first poll_close
    let mut slow = base(Which::C05);
    slow.slow_close = 1;
    cfgs.push(slow);
    run_generic::<Probe>(ctx, Which::C05, cfgs, ctx.tier.pick(4, 5), (ctx.tier.pick(3, 4), ctx.tier.pick(1, 2)))
}
pub fn run_c06(ctx: &Ctx) -> Outcome {
    let mut cfgs = Vec::new();
    for slot in 0..4 {
        for d in [Deny::Always, Deny::Odd, Deny::Even] {
            let mut c = base(Which::C06);
            match slot {
                0 => c.deny.pending_in = d,
                1 => c.deny.pending_out = d,
                2 => c.deny.est_in = d,
                _ => c.deny.est_out = d,
            }
            cfgs.push(c);
        }
    }
    let _ = pname;
    if let Some(case) = &ctx.replay {
        return replay_wrapped(ctx, Which::C06, case);
    }
    let mut o = run_generic::<Probe>(ctx, Which::C06, cfgs.clone(), ctx.tier.pick(4, 5), (ctx.tier.pick(3, 4), ctx.tier.pick(1, 2)));
    // the same denials issued from inside the Swarm crate's behaviour combinators
    o.merge(wrapped(ctx, Which::C06, &cfgs, ctx.tier.pick(3, 4), (ctx.tier.pick(2, 3), 1)));
    o
}


// ---------------------------------------------------------------------------------------------
// composed subjects

pub const META_C52: Meta = Meta {
    level: "model_checking",
    rule: "lifecycle exploration (as C01, <=4 connection ids, start states with 0/1 established connection) of a Swarm whose behaviour is #[derive]d from connection_limits::Behaviour (3 limit sets with every limit 1 or 2, P2 bypassed) and a probe; BFS + schedule exploration. Non-trivial = states in which some counter sits exactly at its limit.",
    explanation: "Oracle after every Swarm poll: reference counts (from the SwarmEvent history) of non-bypassed pending in/out, established in/out, per-peer and total never exceed the configured limits.",
    assumptions: ASSUME,
};
pub const META_C53: Meta = Meta {
    level: "model_checking",
    rule: "lifecycle exploration (as C01) plus forbid/permit actions on a Swarm whose behaviour is #[derive]d from allow_block_list::Behaviour<BlockedPeers> resp. <AllowedPeers> and a probe; BFS + schedule exploration in which list changes race with connection establishment. Non-trivial = states reached after at least one list change.",
    explanation: "Oracle: the probe (asked after the list) never sees an established / pending-outbound decision for a peer that is forbidden at that moment; at every quiescent point no connection to a forbidden peer is established (connections that existed when the peer became forbidden were closed).",
    assumptions: ASSUME,
};
pub const META_C58: Meta = Meta {
    level: "model_checking",
    rule: "lifecycle exploration (as C01) plus Notify(field, connection) and extended-dial actions on Swarms whose behaviour is #[derive]d from 2 and 3 probes, under deny masks placed on each field and decision point; BFS + schedule exploration. Non-trivial = states with a notification, a denial or any forwarded event.",
    explanation: "Oracle: every FromSwarm event reaches every field once and in the same order; a behaviour event reaches the handler of the emitting field on the addressed connection and the handler's reply returns to that field; a connection is denied iff some field denies, fields after the denier are not asked and no handler of a denied connection is used; an extended dial hands the transport the explicit address plus every field's addresses.",
    assumptions: ASSUME,
};

pub fn run_c52(ctx: &Ctx) -> Outcome {
    let mut cfgs = Vec::new();
    for variant in 0..3u8 {
        for pre in 0..2u8 {
            let mut c = base(Which::C52);
            c.variant = variant;
            c.max_conns = 4;
            c.pre_established = pre;
            cfgs.push(c);
        }
    }
    for variant in 4..10u8 {
        for pre in 0..2u8 {
            let mut c = base(Which::C52);
            c.variant = variant;
            c.max_conns = 3;
            c.pre_established = pre;
            cfgs.push(c);
        }
    }
    // per-peer limit 2 with room in the total: two connections to P1 exist at the start, so that
    // "one of two closes, then more are opened" is within depth
    let mut c = base(Which::C52);
    c.variant = 3;
    c.max_conns = 4;
    c.pre_established = 2;
    c.reduced = true;
    c.depth = ctx.tier.pick(5, 6);
    cfgs.push(c);
    let mut o = run_generic::<crate::compose::Limited>(ctx, Which::C52, cfgs, ctx.tier.pick(4, 5), (ctx.tier.pick(3, 4), ctx.tier.pick(1, 2)));
    if ctx.replay.is_none() && o.get("nontrivial_states") == 0 {
        o.machinery("vacuity: no state ever reached a limit");
    }
    o
}
pub fn run_c53(ctx: &Ctx) -> Outcome {
    if let Some(case) = &ctx.replay {
        // dispatch on the recorded configuration
        let allow = case["cfg"]["which"] == "C53A";
        return if allow { run_generic::<crate::compose::Allowing>(ctx, Which::C53A, vec![], 0, (0, 0)) } else { run_generic::<crate::compose::Blocking>(ctx, Which::C53, vec![], 0, (0, 0)) };
    }
    let mk = |w: Which| {
        let mut v = Vec::new();
        for pre in 0..4u8 {
            let mut c = base(w);
            c.pre_established = pre;
            c.max_conns = 3 + (pre.min(2)) as usize - (pre > 0) as usize;
            // the schedule exploration of the start state [P1, P2] needs P2 in its alphabet
            v.push(c);
        }
        v
    };
    let d = ctx.tier.pick(4, 5);
    let sch = (ctx.tier.pick(3, 4), ctx.tier.pick(1, 2));
    let mut o = run_generic::<crate::compose::Blocking>(ctx, Which::C53, mk(Which::C53), d, sch);
    o.merge(run_generic::<crate::compose::Allowing>(ctx, Which::C53A, mk(Which::C53A), d, sch));
    o
}
pub fn run_c58(ctx: &Ctx) -> Outcome {
    if let Some(case) = &ctx.replay {
        let three = case["cfg"]["max_conns"] == 13; // marker for the three-field subject (see below)
        return if three { run_generic::<crate::compose::Three>(ctx, Which::C58, vec![], 0, (0, 0)) } else { run_generic::<crate::compose::Two>(ctx, Which::C58, vec![], 0, (0, 0)) };
    }
    let mk = |fields: u8| {
        let mut v = Vec::new();
        // no denial, then each decision point denied by each field
        let mut plain = base(Which::C58);
        plain.pre_established = 1;
        plain.max_conns = 3;
        v.push(plain.clone());
        let mut p0 = base(Which::C58);
        p0.max_conns = 2;
        v.push(p0);
        for slow in 1..=fields {
            let mut c = plain.clone();
            c.slow_close = slow;
            c.max_conns = 2;
            v.push(c);
        }
        for f in 0..fields {
            for slot in 0..4 {
                for d in [Deny::Always, Deny::Even] {
                    let mut c = base(Which::C58);
                    c.variant = f;
                    c.max_conns = 2;
                    match slot {
                        0 => c.deny.pending_in = d,
                        1 => c.deny.pending_out = d,
                        2 => c.deny.est_in = d,
                        _ => c.deny.est_out = d,
                    }
                    v.push(c);
                }
            }
        }
        v
    };
    let d = ctx.tier.pick(3, 5);
    let sch = (ctx.tier.pick(3, 4), ctx.tier.pick(1, 2));
    let mut o = run_generic::<crate::compose::Two>(ctx, Which::C58, mk(2), d, sch);
    // the three-field subject is marked by max_conns + 10 so that a replay file identifies it
    let three: Vec<LifeCfg> = mk(3).into_iter().map(|mut c| { c.max_conns += 10; c }).collect();
    o.merge(run_generic::<crate::compose::Three>(ctx, Which::C58, three, d, sch));
    o
}
