//! C07 — NotifyHandler events are targeted, ordered and not lost (E1: schedule exploration of
//! a real Swarm with notify_handler_buffer_size = 1 and per-connection event buffer 1, one peer
//! with two established connections and a third one that may become established mid-run).

use crate::sys::*;
use kit::ids::peer;
use libp2p_swarm::behaviour::{NotifyHandler, ToSwarm};
use libp2p_swarm::dial_opts::{DialOpts, PeerCondition};
use libp2p_swarm::ConnectionId;
use mc::choice::{self, Chooser};
use mc::{json, Ctx, Meta, Outcome, Value};
use serde::{Deserialize, Serialize};
use std::sync::{Arc, Mutex};

pub const META: Meta = Meta {
    level: "model_checking",
    rule: "all scripts of length <=3 (quick) / <=4 (thorough) over {Notify One(c0), One(c1), One(c2), Any, close c0, muxer failure on c1, establish c2} (close/fail/establish at most once each), each explored under every schedule with <= bound deviations (bound 2 quick / 3 thorough): a deviation is polling a non-default runnable party (Swarm, connection tasks) or applying the next script action before quiescence. Non-trivial = executions in which at least two events were in flight towards the same connection or a target connection closed during the run; distinct by (script, choice sequence).",
    explanation: "Oracle from the probe log order: One(c) reaches only c's handler; each Any event reaches at most one handler and only one whose connection was established (and not closed) when the behaviour emitted it; per handler, arrival order = emission order; an event is missing only if every possible target was closed/failed during the run or did not exist.",
    assumptions: &["poll-granularity interleaving on one thread", "peer P1 with connections c0,c1 established and c2 pending at start", "emission time = the moment the Swarm takes the command out of the behaviour's poll"],
};

#[derive(Clone, Copy, Debug, PartialEq, Eq, Serialize, Deserialize)]
pub enum A {
    N0,
    N1,
    N2,
    NA,
    X0,
    F1,
    E2,
    /// the executor runs the (so far starved) connection tasks of c0 and c1 again
    TH,
}

struct World {
    sys: SwarmSys<Probe>,
    cids: [ConnectionId; 3],
    next_n: u32,
    /// (n, target) in push order; target None = Any
    emitted: Vec<(u32, Option<usize>)>,
    closed_or_failed: [bool; 3],
    c2_attempt: usize,
    conn_tasks: Vec<usize>,
}

/// `backpressured`: start from a state in which the executor starves the tasks of c0 and c1 and
/// their command channels are full (one event each: buffer size 1 means capacity 0 + 1 sender slot), so that the next event for them parks in
/// the Swarm until `TH`.
fn setup(sched: bool, backpressured: bool) -> Result<World, String> {
    ConnectionId::verif_reset_allocator(1);
    let log = Arc::new(Mutex::new(Vec::new()));
    let probe = Probe::new(0, log.clone(), DenyMask::default());
    let cfg = SysCfg { notify_buffer: 1, conn_event_buffer: 1, explore_schedule: false, ..Default::default() };
    let mut sys = SwarmSys::new(probe, log, cfg);
    let mut cids = Vec::new();
    for (i, ad) in [10u64, 11, 12].iter().enumerate() {
        let o = DialOpts::peer_id(peer(1)).addresses(vec![a(*ad)]).condition(PeerCondition::Always).build();
        cids.push(o.connection_id());
        sys.swarm.dial(o).map_err(|e| format!("harness :: dial {e}"))?;
        if i < 2 {
            sys.ctl.lock().unwrap().resolve_ok(i, 1);
        }
        sys.kick();
        sys.run(1000);
    }
    if sys.swarm.network_info().connection_counters().num_established() != 2 {
        return Err("harness :: setup did not establish two connections".into());
    }
    // tasks: 0 pending c0 (done), 1 established c0, 2 pending c1 (done), 3 established c1, 4 pending c2
    if !(sys.tasks.is_done(0) && !sys.tasks.is_done(1) && sys.tasks.is_done(2) && !sys.tasks.is_done(3) && sys.tasks.live() == 3) {
        return Err("harness :: unexpected task layout after setup".into());
    }
    let mut w = World { sys, cids: [cids[0], cids[1], cids[2]], next_n: 1, emitted: vec![], closed_or_failed: [false; 3], c2_attempt: 2, conn_tasks: vec![1, 3] };
    if backpressured {
        w.sys.frozen = w.conn_tasks.clone();
        for a in [A::N0, A::N1] {
            w.apply(a);
            w.sys.run(1000);
        }
        // both must have been taken by the Swarm and none delivered yet
        let log = w.sys.log.lock().unwrap();
        let emits = log.iter().filter(|e| matches!(e, LogEv::Other { what, .. } if what.starts_with("emit "))).count();
        let got = log.iter().filter(|e| matches!(e, LogEv::HandlerGot { .. })).count();
        if emits != 2 || got != 0 {
            return Err(format!("harness :: back-pressure set-up: {emits} emitted, {got} delivered"));
        }
    }
    w.sys.explore_schedule = sched;
    Ok(w)
}

impl World {
    fn apply(&mut self, act: A) {
        let mut notify = |w: &mut World, t: Option<usize>| {
            let n = w.next_n;
            w.next_n += 1;
            w.emitted.push((n, t));
            let handler = match t {
                Some(c) => NotifyHandler::One(w.cids[c]),
                None => NotifyHandler::Any,
            };
            w.sys.swarm.behaviour_mut().push(ToSwarm::NotifyHandler { peer_id: peer(1), handler, event: n });
        };
        match act {
            A::N0 => notify(self, Some(0)),
            A::N1 => notify(self, Some(1)),
            A::N2 => notify(self, Some(2)),
            A::NA => notify(self, None),
            A::X0 => {
                self.sys.swarm.close_connection(self.cids[0]);
                self.closed_or_failed[0] = true;
            }
            A::F1 => {
                let m = self.sys.ctl.lock().unwrap().attempts[1].mux.clone();
                if let Some(m) = m {
                    m.lock().unwrap().fail = true;
                    mux_wake(&m);
                }
                self.closed_or_failed[1] = true;
            }
            A::E2 => {
                self.sys.ctl.lock().unwrap().resolve_ok(self.c2_attempt, 1);
            }
            A::TH => {
                self.sys.frozen.clear();
            }
        }
        self.sys.kick();
    }

    fn check(&self, script: &[A]) -> Result<(bool, String), String> {
        let log = self.sys.log.lock().unwrap();
        let cidx = |c: &ConnectionId| self.cids.iter().position(|x| x == c);
        // established set over time, emission positions
        let mut est: [bool; 3] = [false; 3];
        let mut cands_at_emit: std::collections::BTreeMap<u32, Vec<usize>> = Default::default();
        let mut got: Vec<(usize, u32)> = Vec::new();
        for e in log.iter() {
            match e {
                LogEv::Established { cid, .. } => {
                    if let Some(i) = cidx(cid) {
                        est[i] = true;
                    }
                }
                LogEv::Closed { cid, .. } => {
                    if let Some(i) = cidx(cid) {
                        est[i] = false;
                    }
                }
                LogEv::Other { what, .. } if what.starts_with("emit ") => {
                    let n: u32 = what[5..].parse().unwrap_or(0);
                    cands_at_emit.insert(n, (0..3).filter(|i| est[*i]).collect());
                }
                LogEv::HandlerGot { cid, n, .. } => {
                    if let Some(i) = cidx(cid) {
                        got.push((i, *n));
                    }
                }
                _ => {}
            }
        }
        let dead_at_emit = |i: usize, n: u32| -> bool {
            let emit = log.iter().position(|e| matches!(e, LogEv::Other { what, .. } if *what == format!("emit {n}")));
            let dropped = log.iter().position(|e| matches!(e, LogEv::HandlerDropped { cid, .. } if cidx(cid) == Some(i)));
            matches!((emit, dropped), (Some(e), Some(d)) if d < e)
        };
        let ever_closed = |i: usize| self.closed_or_failed[i] || log.iter().any(|e| matches!(e, LogEv::Closed{cid,..} if cidx(cid)==Some(i)));
        let c2_established = log.iter().any(|e| matches!(e, LogEv::Established{cid,..} if cidx(cid)==Some(2)));
        for (n, target) in &self.emitted {
            let recv: Vec<usize> = got.iter().filter(|g| g.1 == *n).map(|g| g.0).collect();
            if recv.len() > 1 {
                return Err(format!("delivered-twice :: event {n} ({target:?}) reached handlers {recv:?}"));
            }
            match target {
                Some(c) => {
                    if let Some(r) = recv.first() {
                        if r != c {
                            return Err(format!("wrong-target :: event {n} for One(c{c}) reached c{r}"));
                        }
                    } else {
                        let gone = ever_closed(*c) || (*c == 2 && !c2_established) || (*c == 2 && cands_at_emit.get(n).map(|v| !v.contains(&2)).unwrap_or(true));
                        if !gone {
                            return Err(format!("lost :: event {n} for One(c{c}) never delivered although c{c} stayed established"));
                        }
                    }
                }
                None => {
                    let cands = cands_at_emit.get(n).cloned().unwrap_or_default();
                    if let Some(r) = recv.first() {
                        if !cands.contains(r) {
                            return Err(format!("any-late-connection :: Any event {n} reached c{r}, connections established at emission were {cands:?}"));
                        }
                    } else if cands_at_emit.contains_key(n) && !cands.is_empty() && cands.iter().any(|c| !ever_closed(*c)) && cands.iter().filter(|c| ever_closed(**c)).all(|c| dead_at_emit(*c, *n)) {
                        // Reading: the Swarm may hand an Any event to a candidate that is closing
                        // but whose command channel still accepts it (close requested, task not
                        // yet run): the event is then dropped with that connection — "dropped only
                        // when the target connection is closing or gone" permits this. A candidate
                        // whose task had ALREADY finished closing when the event was emitted
                        // (handler dropped before the emission) cannot have swallowed it, so if
                        // every closed candidate was already dead at emission and a healthy
                        // candidate exists, the event must have been delivered.
                        return Err(format!("lost :: Any event {n} never delivered although a candidate of {cands:?} stayed established and no candidate that was still alive at emission closed"));
                    } else if !cands_at_emit.contains_key(n) {
                        return Err(format!("not-emitted :: event {n} never taken from the behaviour at quiescence"));
                    }
                }
            }
        }
        for i in 0..3 {
            let seq: Vec<u32> = got.iter().filter(|g| g.0 == i).map(|g| g.1).collect();
            if seq.windows(2).any(|w| w[0] >= w[1]) {
                return Err(format!("reordered :: handler of c{i} received {seq:?}"));
            }
        }
        // non-trivial: two events to the same connection, or a close during the run
        let mut per = [0; 3];
        for g in &got {
            per[g.0] += 1;
        }
        let nontrivial = per.iter().any(|n| *n >= 2) || (script.iter().any(|a| matches!(a, A::X0 | A::F1)) && !self.emitted.is_empty());
        Ok((nontrivial, format!("{got:?}")))
    }
}

fn run_script(script: &[A], sched: bool, backpressured: bool) -> Result<(bool, String), String> {
    let mut w = setup(sched, backpressured)?;
    let mut next = 0;
    let mut steps = 0;
    loop {
        let runnable = w.sys.has_runnable();
        let can_act = next < script.len();
        if !runnable && !can_act {
            if !w.sys.frozen.is_empty() {
                // end of script: the executor eventually runs every task
                w.sys.frozen.clear();
                w.sys.tasks.wake_all();
                continue;
            }
            break;
        }
        let act_now = if can_act && runnable && sched { choice::choose_l(2, 1, "act-early") == 1 } else { can_act && !runnable };
        if act_now {
            w.apply(script[next]);
            next += 1;
        } else {
            w.sys.sched_step();
        }
        steps += 1;
        if steps > 5000 {
            return Err("horizon :: no quiescence after 5000 steps".into());
        }
    }
    if std::env::var_os("VERIF_VERBOSE").is_some() {
        for e in w.sys.log.lock().unwrap().iter() {
            eprintln!("  log: {e:?}");
        }
        for e in &w.sys.events {
            eprintln!("  ev: {e:?}");
        }
    }
    let r = w.check(script)?;
    choice::observe(&r.1);
    Ok(r)
}

fn scripts(max_len: usize, backpressured: bool) -> Vec<Vec<A>> {
    let letters: Vec<A> = if backpressured { vec![A::N0, A::NA, A::X0, A::E2, A::TH] } else { vec![A::N0, A::N1, A::N2, A::NA, A::X0, A::F1, A::E2] };
    let mut v = Vec::new();
    mc::enumerate::sequences_upto(letters.len(), max_len, |idx| {
        let s: Vec<A> = idx.iter().map(|&i| letters[i]).collect();
        for once in [A::X0, A::F1, A::E2, A::TH] {
            if s.iter().filter(|a| **a == once).count() > 1 {
                return;
            }
        }
        if !s.iter().any(|a| matches!(a, A::N0 | A::N1 | A::N2 | A::NA)) {
            return;
        }
        v.push(s);
    });
    v
}

fn body<'a>(script: &'a [A], backpressured: bool, nontrivial: &'a std::cell::Cell<bool>) -> impl FnMut(&mut Chooser) -> Result<(), String> + 'a {
    move |ch: &mut Chooser| {
        choice::scoped(ch, || {
            mc::catch(|| run_script(script, true, backpressured)).unwrap_or_else(|p| Err(format!("panic at {} :: {p}", mc::shim::last_panic_loc().unwrap_or_default()))).map(|(nt, _)| {
                if nt {
                    nontrivial.set(true)
                }
            })
        })
    }
}

pub fn run(ctx: &Ctx) -> Outcome {
    if let Some(case) = &ctx.replay {
        let mut out = Outcome::default();
        out.evaluations = 1;
        let script: Vec<A> = serde_json::from_value(case["script"].clone()).unwrap_or_default();
        let choices: Vec<u32> = serde_json::from_value(case["choices"].clone()).unwrap_or_default();
        let nt = std::cell::Cell::new(false);
        let bp = case["backpressured"].as_bool().unwrap_or(false);
        if let Err(m) = choice::replay(&choices, body(&script, bp, &nt)) {
            out.violation(mc::bfs::signature_of(&m), m, case.clone());
        }
        return out;
    }
    let mut all: Vec<(Vec<A>, bool)> = scripts(ctx.tier.pick(3, 4), false).into_iter().map(|s| (s, false)).collect();
    all.extend(scripts(ctx.tier.pick(3, 4), true).into_iter().map(|s| (s, true)));
    let bound = ctx.tier.pick(2, 3);
    let mut o = mc::workers(ctx, 16, |ctx| {
        let mut out = Outcome::default();
        for (i, (s, bp)) in all.iter().enumerate() {
            let bp = *bp;
            if !ctx.mine(i as u64) {
                continue;
            }
            let nt = std::cell::Cell::new(false);
            let mut nt_execs = 0u64;
            let (st, viol) = {
                let mut b = body(s, bp, &nt);
                choice::explore(bound, 300_000, |ch| {
                    nt.set(false);
                    let r = b(ch);
                    if nt.get() {
                        nt_execs += 1;
                    }
                    r
                })
            };
            out.add_explore(&st);
            out.count("scripts", 1);
            if bp {
                out.count("backpressured_scripts", 1);
            }
            out.count("distinct_delivery_outcomes", st.distinct_obs);
            out.count("nontrivial_executions", nt_execs);
            for k in 0..nt_execs.min(20_000) {
                out.nontrivial_h(mc::report::hash_str(&format!("{s:?}{bp}")) ^ k.wrapping_mul(0x9e3779b97f4a7c15));
            }
            if i % 53 == 0 {
                out.sample(json!({"script": s, "backpressured": bp, "executions": st.executions, "distinct_delivery_outcomes": st.distinct_obs}));
            }
            if let Some((choices, m)) = viol {
                if m.starts_with("NONDETERMINISM") || m.starts_with("harness ::") {
                    out.machinery(format!("{m} script={s:?}"));
                } else {
                    out.violation(mc::bfs::signature_of(&m), format!("{m} in script {s:?} (backpressured start: {bp}) under schedule {choices:?}"), json!({"script": s, "choices": choices, "backpressured": bp}));
                }
            }
        }
        out
    });
    if o.get("distinct_delivery_outcomes") <= o.get("scripts") {
        o.machinery("vacuity: schedule exploration never changed a delivery outcome");
    }
    let _: Option<Value> = None;
    o
}
