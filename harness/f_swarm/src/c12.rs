//! C12 — listen / external address views equal the fold of their events.
//! Part (b,c): BFS over listener and external-address histories of a real Swarm over the
//! scripted transport. Part (a): the helper structs (module shared with f_swarm_unit).

use crate::sys::*;
use libp2p_core::transport::{ListenerId, TransportEvent};
use libp2p_core::Multiaddr;
use libp2p_swarm::behaviour::ToSwarm;
use libp2p_swarm::ConnectionId;
use mc::bfs::{self, System};
use mc::{json, Ctx, Meta, Outcome};
use serde::{Deserialize, Serialize};
use std::collections::BTreeMap;
use std::sync::{Arc, Mutex};

#[path = "../../f_swarm_unit/src/c12a.rs"]
mod c12a;

pub const META: Meta = Meta {
    level: "model_checking",
    rule: "(b,c) BFS over all histories of {listen_on (<=2 listeners), NewAddress / AddressExpired over 3 addresses per listener, listener closed by the transport (ok|error), Swarm::remove_listener, listener error, add/remove_external_address, behaviour ExternalAddrConfirmed / ExternalAddrExpired / NewExternalAddrCandidate over 2 addresses} on a fresh real Swarm per history, deduplicated on reference + getters; (a) BFS over FromSwarm histories of the ExternalAddresses / ListenAddresses / PeerAddresses helpers (see the notes in evidence). Non-trivial = states with at least one listen or external address.",
    explanation: "Oracle: Swarm::listeners() as a multiset equals the fold of NewListenAddr / ExpiredListenAddr / ListenerClosed SwarmEvents; ListenerClosed.addresses equals that listener's remaining set; Swarm::external_addresses() equals confirmed minus expired as reported to the behaviour; helpers equal the fold of the events they are fed and report `changed` exactly on change.",
    assumptions: &["transport events for closed or unknown listeners are outside the alphabet (transports must not produce them)", "3 listen addresses, 2 listeners, 2 external addresses"],
};

#[derive(Clone, Debug, Serialize, Deserialize, PartialEq)]
pub enum Act {
    Listen,
    NewAddr(usize, u8),
    Expire(usize, u8),
    CloseL(usize, bool),
    Remove(usize),
    LErr(usize),
    ExtAdd(u8),
    ExtRemove(u8),
    BehConfirm(u8),
    BehExpire(u8),
    BehCandidate(u8),
}

pub struct Sys {
    sys: SwarmSys<Probe>,
    ids: Vec<ListenerId>,
    alive: Vec<bool>,
    /// reference: per listener its announced-not-expired addresses (fold of SwarmEvents)
    model: BTreeMap<usize, Vec<Multiaddr>>,
    ext: Vec<Multiaddr>,
    steps: u32,
}

fn la(x: u8) -> Multiaddr {
    a(100 + x as u64)
}
fn ea(x: u8) -> Multiaddr {
    a(300 + x as u64)
}

impl Sys {
    pub fn new() -> Self {
        ConnectionId::verif_reset_allocator(1);
        let log = Arc::new(Mutex::new(Vec::new()));
        let probe = Probe::new(0, log.clone(), DenyMask::default());
        let sys = SwarmSys::new(probe, log, SysCfg::default());
        Sys { sys, ids: vec![], alive: vec![], model: BTreeMap::new(), ext: vec![], steps: 0 }
    }
    fn lidx(&self, l: ListenerId) -> Option<usize> {
        self.ids.iter().position(|x| *x == l)
    }
    fn fold(&mut self) -> Result<(), String> {
        for (_, e) in self.sys.take_log() {
            if let LogEv::Other { what, .. } = e {
                if let Some(r) = what.strip_prefix("ExternalAddrConfirmed(") {
                    let n: u64 = r.trim_end_matches(')').trim_start_matches('A').parse().unwrap_or(0);
                    if !self.ext.contains(&a(n)) {
                        self.ext.push(a(n));
                    }
                } else if let Some(r) = what.strip_prefix("ExternalAddrExpired(") {
                    let n: u64 = r.trim_end_matches(')').trim_start_matches('A').parse().unwrap_or(0);
                    self.ext.retain(|x| *x != a(n));
                }
            }
        }
        for e in self.sys.take_events() {
            match e {
                Ev::NewListenAddr { l, addr } => {
                    let i = self.lidx(l).ok_or_else(|| format!("unknown-listener :: NewListenAddr for unknown listener {l:?}"))?;
                    let v = self.model.entry(i).or_default();
                    if !v.contains(&addr) {
                        v.push(addr);
                    }
                }
                Ev::ExpiredListenAddr { l, addr } => {
                    let i = self.lidx(l).ok_or_else(|| format!("unknown-listener :: ExpiredListenAddr for unknown listener {l:?}"))?;
                    self.model.entry(i).or_default().retain(|x| *x != addr);
                }
                Ev::ListenerClosed { l, addrs, .. } => {
                    let i = self.lidx(l).ok_or_else(|| format!("unknown-listener :: ListenerClosed for unknown listener {l:?}"))?;
                    let mut want = self.model.remove(&i).unwrap_or_default();
                    let mut got = addrs.clone();
                    want.sort_by_key(|m| m.to_string());
                    got.sort_by_key(|m| m.to_string());
                    if want != got {
                        return Err(format!("listener-closed-addresses :: ListenerClosed(l{i}) carries {:?}, the listener's remaining addresses are {:?}", got.iter().map(aname).collect::<Vec<_>>(), want.iter().map(aname).collect::<Vec<_>>()));
                    }
                }
                _ => {}
            }
        }
        Ok(())
    }
    fn check(&self) -> Result<(), String> {
        let mut got: Vec<String> = self.sys.swarm.listeners().map(aname).collect();
        let mut want: Vec<String> = self.model.values().flatten().map(aname).collect();
        got.sort();
        want.sort();
        if got != want {
            return Err(format!("listeners-view :: Swarm::listeners() = {got:?}, events imply {want:?}"));
        }
        let mut got: Vec<String> = self.sys.swarm.external_addresses().map(aname).collect();
        let mut want: Vec<String> = self.ext.iter().map(aname).collect();
        got.sort();
        want.sort();
        if got != want {
            return Err(format!("external-view :: Swarm::external_addresses() = {got:?}, confirmed minus expired = {want:?}"));
        }
        Ok(())
    }
}

impl System for Sys {
    type Action = Act;
    fn actions(&self) -> Vec<Act> {
        let mut v = Vec::new();
        if self.ids.len() < 2 {
            v.push(Act::Listen);
        }
        for l in 0..self.ids.len() {
            if !self.alive[l] {
                continue;
            }
            for x in 0..3 {
                v.push(Act::NewAddr(l, x));
                v.push(Act::Expire(l, x));
            }
            v.push(Act::CloseL(l, true));
            v.push(Act::CloseL(l, false));
            v.push(Act::Remove(l));
            v.push(Act::LErr(l));
        }
        for x in 0..2 {
            v.push(Act::ExtAdd(x));
            v.push(Act::ExtRemove(x));
            v.push(Act::BehConfirm(x));
            v.push(Act::BehExpire(x));
            v.push(Act::BehCandidate(x));
        }
        v
    }
    fn step(&mut self, act: &Act) -> Result<(), String> {
        self.steps += 1;
        let push = |s: &mut Sys, e| s.sys.ctl.lock().unwrap().push_event(e);
        match act {
            Act::Listen => {
                let n = self.ids.len() as u64;
                let id = self.sys.swarm.listen_on(a(400 + n)).map_err(|e| format!("harness :: listen_on {e}"))?;
                self.ids.push(id);
                self.alive.push(true);
            }
            Act::NewAddr(l, x) => push(self, TransportEvent::NewAddress { listener_id: self.ids[*l], listen_addr: la(*x) }),
            Act::Expire(l, x) => push(self, TransportEvent::AddressExpired { listener_id: self.ids[*l], listen_addr: la(*x) }),
            Act::CloseL(l, ok) => {
                self.alive[*l] = false;
                let id = self.ids[*l];
                {
                    let mut c = self.sys.ctl.lock().unwrap();
                    if let Some(e) = c.listeners.iter_mut().find(|e| e.0 == id) {
                        e.2 = false;
                    }
                }
                push(self, TransportEvent::ListenerClosed { listener_id: id, reason: if *ok { Ok(()) } else { Err(std::io::Error::other("scripted")) } });
            }
            Act::Remove(l) => {
                self.alive[*l] = false;
                if !self.sys.swarm.remove_listener(self.ids[*l]) {
                    return Err(format!("remove-listener :: remove_listener(l{l}) returned false for a live listener"));
                }
            }
            Act::LErr(l) => push(self, TransportEvent::ListenerError { listener_id: self.ids[*l], error: std::io::Error::other("scripted") }),
            Act::ExtAdd(x) => self.sys.swarm.add_external_address(ea(*x)),
            Act::ExtRemove(x) => self.sys.swarm.remove_external_address(&ea(*x)),
            Act::BehConfirm(x) => self.sys.swarm.behaviour_mut().push(ToSwarm::ExternalAddrConfirmed(ea(*x))),
            Act::BehExpire(x) => self.sys.swarm.behaviour_mut().push(ToSwarm::ExternalAddrExpired(ea(*x))),
            Act::BehCandidate(x) => self.sys.swarm.behaviour_mut().push(ToSwarm::NewExternalAddrCandidate(ea(*x))),
        }
        self.sys.kick();
        if self.sys.run(2000) == kit::tasks::RunEnd::Horizon {
            return Err("horizon :: no quiescence".into());
        }
        self.fold()?;
        self.check()
    }
    fn canon(&self) -> Vec<u8> {
        let mut l: Vec<String> = self.sys.swarm.listeners().map(aname).collect();
        l.sort();
        let mut e: Vec<String> = self.sys.swarm.external_addresses().map(aname).collect();
        e.sort();
        format!("{:?}|{:?}|{:?}|{:?}|{:?}", self.model.iter().map(|(k, v)| (*k, v.iter().map(aname).collect::<Vec<_>>())).collect::<Vec<_>>(), self.ext.iter().map(aname).collect::<Vec<_>>(), self.alive, l, e).into_bytes()
    }
    fn nontrivial(&self) -> bool {
        !self.model.values().all(|v| v.is_empty()) || !self.ext.is_empty()
    }
}

pub fn run(ctx: &Ctx) -> Outcome {
    let mut out = Outcome::default();
    if let Some(case) = &ctx.replay {
        out.evaluations = 1;
        if !c12a::replay_into(case, &mut out) {
            if let Err(m) = bfs::replay_history(Sys::new(), case) {
                out.violation(bfs::signature_of(&m), m, case.clone());
            }
        }
        return out;
    }
    let depth = ctx.tier.pick(5, 6);
    let (st, v) = bfs::bfs_replay(Sys::new, depth, 3_000_000);
    bfs::record(&mut out, &json!({"part": "bc"}), &st, &v);
    let (n, capped, v2) = bfs::dfs_all(Sys::new, ctx.tier.pick(2, 3), 2_000_000);
    out.count("dfs_companion_sequences", n);
    out.evaluations += n;
    out.traces += n;
    if capped {
        out.caps.push("dfs companion capped".into());
    }
    bfs::record(&mut out, &json!({"part": "bc"}), &Default::default(), &v2);
    out.notes.push(format!("part (b,c): swarm BFS depth {depth}"));
    c12a::run_into(ctx, &mut out);
    out
}
