//! C35 — publishing without a subscription keeps its fanout peers (E2 over histories of one
//! GsNode that is *not* subscribed to the topic, flood_publish off, mesh_n = 2).

use crate::explore::{self, Maker, Sys};
use crate::meshsys::{make_config, score_params};
use crate::node::{self, GsNode, Kind};
use kit::ids::peer;
use libp2p_gossipsub as gs;
use libp2p_identity::PeerId;
use mc::{json, Ctx, Meta, Outcome};
use serde::{Deserialize, Serialize};
use std::collections::BTreeSet;
use std::sync::Arc;

pub const META: Meta = Meta {
    level: "model_checking",
    rule: "BFS over histories of {connect, disconnect, Subscribe RPC, Unsubscribe RPC (3 gossipsub v1.1 peers), publish to T, heartbeat, inbound GRAFT and PRUNE for T; with scoring active also: application score of a peer below / back above publish_threshold} against one real gossipsub Behaviour that is not subscribed to T (flood_publish off, mesh_n = 2, so the fanout holds at most 2 of the 3 peers and a replacement is observable). Non-trivial = distinct reached states with a non-empty fanout set.",
    explanation: "Around every publish and around every other non-heartbeat step the topic's fanout set is read (hook) before and after; every peer that was in the fanout before and is still eligible (connected, subscribed to T as the node was told, score not below publish_threshold) must still be in it afterwards. Every transition is one execution of the real code with owned entropy; states deduplicated on model + fanout/mesh/peer projections; un-deduplicated companion search; thorough repeats under 4 entropy seeds (different peer samples).",
    assumptions: &["3 peers / 1 topic / depth-bounded histories (small-scope)", "eligibility = connected, subscribed and score not below publish_threshold (scoring configured in half of the configurations; no explicit peers, all peers gossipsub)", "message-cache contents are not part of the canonical key (they do not influence fanout selection)"],
};

const T: &str = "T1";

#[derive(Clone, Copy, Debug, Serialize, Deserialize, PartialEq, Eq)]
pub enum Act {
    Connect(u8),
    Disconnect(u8),
    Sub(u8),
    Unsub(u8),
    Publish,
    Heartbeat,
    /// inbound GRAFT / PRUNE (1 s backoff) for the topic (which the node is not subscribed to)
    Graft(u8),
    Prune(u8),
    /// application score so low that the peer falls below publish_threshold (true) / back to 0
    Score(u8, bool),
}

#[derive(Clone, Debug, Serialize, Deserialize)]
pub struct Cfg {
    pub seed: u64,
    /// 0 = empty start, 1 = all three peers already connected
    #[serde(default)]
    pub start: u8,
    /// peer scoring active (publish_threshold -50) and the score actions offered
    #[serde(default)]
    pub scoring: bool,
}

pub struct FanSys {
    node: GsNode,
    connected: [bool; 3],
    subs: [bool; 3],
    /// score below publish_threshold (set by the Score action; cleared on disconnect only if the
    /// behaviour forgets the peer, which it does not for non-positive scores -> kept)
    low: [bool; 3],
    scoring: bool,
    published: u32,
    marks: Vec<String>,
}

fn pid(i: u8) -> PeerId {
    peer(i + 1)
}

impl FanSys {
    pub fn new(cfg: &Cfg) -> Self {
        // mesh parameters 3 = (outbound_min 1, n_low 1, n 2, n_high 2); flood_publish off
        let mut beh = gs::Behaviour::new(gs::MessageAuthenticity::Author(peer(0)), make_config(3, false)).expect("behaviour");
        if cfg.scoring {
            let (sp, st) = score_params();
            beh.with_peer_score(sp, st).expect("score params");
        }
        let mut s = FanSys { node: GsNode::new(beh), connected: [false; 3], subs: [false; 3], low: [false; 3], scoring: cfg.scoring, published: 0, marks: vec![] };
        if cfg.start == 1 {
            for p in 0..3 {
                s.step(&Act::Connect(p)).expect("preamble");
            }
        }
        s
    }
    fn fanout(&self) -> BTreeSet<u8> {
        self.node.beh.verif_fanout().get(T).map(|v| v.iter().map(|p| kit::ids::pidx(p).map(|i| i.wrapping_sub(1)).unwrap_or(200)).collect()).unwrap_or_default()
    }
}

impl Sys for FanSys {
    type Act = Act;
    fn actions(&self) -> Vec<Act> {
        let mut v = vec![];
        for p in 0..3u8 {
            if !self.connected[p as usize] {
                v.push(Act::Connect(p));
            } else {
                v.push(Act::Disconnect(p));
                v.push(if self.subs[p as usize] { Act::Unsub(p) } else { Act::Sub(p) });
                v.push(Act::Prune(p));
                v.push(Act::Graft(p));
            }
        }
        if self.scoring {
            for p in 0..3u8 {
                if self.connected[p as usize] {
                    v.push(Act::Score(p, !self.low[p as usize]));
                }
            }
        }
        v.push(Act::Publish);
        v.push(Act::Heartbeat);
        v
    }
    fn step(&mut self, a: &Act) -> Result<(), String> {
        let fan_before_step = self.fanout();
        match *a {
            Act::Graft(p) => {
                self.node.inject(pid(p), &node::enc_grafts(&[T])).expect("well-formed rpc");
                // a GRAFT implies a subscription (the behaviour records it)
                self.subs[p as usize] = true;
                self.marks.push("graft-in".into());
            }
            Act::Prune(p) => {
                if fan_before_step.contains(&p) {
                    self.marks.push("prune-in.from-fanout-peer".into());
                }
                self.node.inject(pid(p), &node::enc_prunes(&[T], Some(1))).expect("well-formed rpc");
            }
            Act::Connect(p) => {
                self.node.connect(pid(p), p == 0, Kind::G11);
                self.connected[p as usize] = true;
                self.low[p as usize] = self.node.beh.peer_score(&pid(p)).is_some_and(|s| s < -50.0);
            }
            Act::Disconnect(p) => {
                self.node.disconnect(pid(p));
                self.connected[p as usize] = false;
                self.subs[p as usize] = false;
                // the behaviour retains non-positive scores of disconnected peers, but the
                // application score of a retained peer can no longer be read back reliably from
                // here; the model re-reads it from the behaviour on the next connect
                self.low[p as usize] = false;
            }
            Act::Sub(p) | Act::Unsub(p) => {
                let sub = matches!(a, Act::Sub(_));
                self.node.inject(pid(p), &node::enc_subs(&[(sub, T)])).expect("well-formed rpc");
                self.subs[p as usize] = sub;
            }
            Act::Heartbeat => self.node.heartbeat(),
            Act::Score(p, low) => {
                // weight 1, publish_threshold -50: -100 is below it, 0 is not
                self.node.beh.set_application_score(&pid(p), if low { -100.0 } else { 0.0 });
                self.node.pump();
                self.low[p as usize] = low;
            }
            Act::Publish => {
                let before = self.fanout();
                self.published += 1;
                let data = format!("m{}", self.published).into_bytes();
                let r = self.node.beh.publish(gs::IdentTopic::new(T).hash(), data);
                self.node.pump();
                let after = self.fanout();
                // who got the message (wire level)
                let mut recipients = BTreeSet::new();
                for p in 0..3u8 {
                    if self.connected[p as usize] && self.node.drain_parsed(&pid(p)).iter().any(|r| !r.msgs.is_empty()) {
                        recipients.insert(p);
                    }
                }
                self.marks.push(if r.is_ok() { "publish.ok".into() } else { "publish.err".into() });
                if !before.is_empty() {
                    self.marks.push("publish.with-existing-fanout".into());
                }
                if after.difference(&before).next().is_some() && !before.is_empty() {
                    self.marks.push("publish.fanout-grew-or-changed".into());
                }
                // eligible = what publish itself and the heartbeat's fanout maintenance require:
                // connected, subscribed, score not below publish_threshold
                let eligible: BTreeSet<u8> = (0..3u8).filter(|p| self.connected[*p as usize] && self.subs[*p as usize] && !self.low[*p as usize]).collect();
                if before.iter().any(|p| *p < 3 && self.low[*p as usize]) {
                    self.marks.push("publish.with-low-score-fanout-peer".into());
                }
                if after.len() > 2 {
                    self.marks.push("publish.fanout-above-mesh_n".into());
                }
                let lost: Vec<u8> = before.intersection(&eligible).filter(|p| !after.contains(p)).copied().collect();
                if !lost.is_empty() {
                    let added: Vec<u8> = after.difference(&before).copied().collect();
                    return Err(format!(
                        "C35 eligible-fanout-peer-dropped-by-publish lost={} added={} :: fanout {:?} -> {:?}, eligible {:?}, recipients {:?}, publish result {:?}",
                        lost.len(),
                        added.len(),
                        before,
                        after,
                        eligible,
                        recipients,
                        r.map(|_| "ok")
                    ));
                }
            }
        }
        // Between heartbeats the fanout set may only lose peers that stopped being eligible
        // (statement: "fanout peers selected earlier that are still eligible stay in the topic's
        // fanout set ... until the heartbeat maintains the set"); judged on every step that is
        // neither a publish (judged above, with its own signature) nor a heartbeat.
        if !matches!(a, Act::Publish | Act::Heartbeat) {
            let after = self.fanout();
            let eligible: BTreeSet<u8> = (0..3u8).filter(|p| self.connected[*p as usize] && self.subs[*p as usize] && !self.low[*p as usize]).collect();
            let lost: Vec<u8> = fan_before_step.intersection(&eligible).filter(|p| !after.contains(p)).copied().collect();
            if !lost.is_empty() {
                let kind = match a {
                    Act::Connect(_) => "Connect",
                    Act::Disconnect(_) => "Disconnect",
                    Act::Sub(_) => "SubscribeRpc",
                    Act::Unsub(_) => "UnsubscribeRpc",
                    Act::Graft(_) => "GraftRpc",
                    Act::Prune(_) => "PruneRpc",
                    Act::Score(..) => "Score",
                    _ => "other",
                };
                return Err(format!("C35 eligible-fanout-peer-dropped via={kind} :: fanout {:?} -> {:?}, eligible {:?}, action {:?}", fan_before_step, after, eligible, a));
            }
        }
        // drain what was queued (subscriptions, gossip) so that queues never fill up
        for p in 0..3u8 {
            if self.connected[p as usize] {
                let _ = self.node.drain_wire(&pid(p));
            }
        }
        self.node.app_events.clear();
        self.node.notes.clear();
        Ok(())
    }
    fn canon(&self) -> Vec<u8> {
        let views: Vec<_> = (0..3u8).map(|p| self.node.beh.verif_peer(&pid(p))).collect();
        format!("{:?}|{:?}|{:?}|{:?}|{:?}|{:?}|{:?}", self.low, self.connected, self.subs, self.node.beh.verif_fanout(), self.node.beh.verif_fanout_last_pub(), self.node.mesh(), views).into_bytes()
    }
    fn nontrivial(&self) -> bool {
        !self.fanout().is_empty()
    }
    fn take_marks(&mut self) -> Vec<String> {
        std::mem::take(&mut self.marks)
    }
}

fn maker(cfg: &Cfg) -> Maker<FanSys> {
    let cfg = cfg.clone();
    Arc::new(move || FanSys::new(&cfg))
}

pub fn run(ctx: &Ctx) -> Outcome {
    if let Some(case) = &ctx.replay {
        let mut out = Outcome::default();
        out.evaluations = 1;
        let cfg: Cfg = serde_json::from_value(case["cfg"].clone()).unwrap_or(Cfg { seed: 11, start: 0, scoring: false });
        match explore::replay(maker(&cfg), cfg.seed, case) {
            Ok(Some(m)) => out.violation(mc::bfs::signature_of(&m), m, case.clone()),
            Ok(None) => {}
            Err(e) => out.machinery(e),
        }
        return out;
    }
    let depth = ctx.tier.pick(7, 10);
    let ddepth = ctx.tier.pick(4, 6);
    let mut seeds: Vec<u64> = if ctx.quick() { vec![11] } else { vec![11, 22, 33, 44] };
    let n = seeds.len();
    seeds.rotate_left(ctx.seed as usize % n);
    let k = ctx.tier.pick(8, 32);
    let mut out = mc::workers(ctx, 16, |ctx| {
        let mut out = Outcome::default();
        for seed in &seeds {
            // (start, scoring): the original exploration from the empty node without scoring, and
            // one from "all peers connected" with scoring and the score actions
            for (start, scoring, dd) in [(0u8, false, 0usize), (1, true, 1)] {
                let cfg = Cfg { seed: *seed, start, scoring };
                let cj = json!(cfg);
                let s = explore::search(maker(&cfg), *seed, depth - dd, 3, true, ctx.worker, k, 0);
                explore::record(&mut out, &cj, &s, "bfs");
                let mut d = explore::search(maker(&cfg), *seed, ddepth - dd, 2, false, ctx.worker, 0, 0);
                out.count("dfs_companion_sequences", d.stats.transitions);
                d.stats.nontrivial_keys.clear();
                d.stats.marks.clear();
                d.stats.states = 0;
                explore::record(&mut out, &cj, &d, "dfs-companion");
            }
        }
        out
    });
    for g in ["publish.ok", "publish.with-existing-fanout", "publish.fanout-grew-or-changed", "publish.with-low-score-fanout-peer", "publish.fanout-above-mesh_n", "prune-in.from-fanout-peer", "graft-in"] {
        if out.get(g) == 0 {
            out.machinery(format!("vacuity guard: counter '{g}' is zero"));
        }
    }
    out.notes.push(format!("bfs depth {depth}, companion depth {ddepth}, entropy seeds {seeds:?}; state counts are summed over 16 worker stripes"));
    out
}
