//! C27 — delivery exactly once (E1: deviation-bounded exploration of delivery order, publish
//! timing and heartbeat placement in a network of 3 -> 4 real gossipsub Behaviours wired by the
//! harness: each directed link is a FIFO of the wire frames node A's behaviour queued for B,
//! delivered as B's inbound handler events through the real codec).

use crate::meshsys::{config_builder, score_params};
use crate::node::{parse_frame, GsNode, Kind};
use kit::ids::peer;
use libp2p_gossipsub as gs;
use mc::choice::{self, Chooser};
use mc::{json, Ctx, Meta, Outcome, Value};
use std::collections::{BTreeMap, BTreeSet, VecDeque};

pub const META: Meta = Meta {
    level: "model_checking",
    rule: "configurations = topology (all connected graphs on 3 nodes; path/cycle/star/complete on 4) x publisher(s) of 1 or 2 messages (every node / ordered pair of nodes) x flood_publish on/off x {no application validation; validate_messages with scoring off; validate_messages with scoring on}, plus (without validation) the topology's first edge turned into an explicit-peer link or a floodsub link, plus (single publish) {XOR payload transform, identity} x {content-addressed message ids, default ids} x {anonymous, author} in 4 combinations; per configuration a deterministic set-up (connect, subscribe, exchange subscriptions and GRAFTs to quiescence, one heartbeat per node; every link must then be a mesh link) followed by every execution with <= bound deviations from the default schedule (default: deliver the globally oldest in-flight frame, then let applications report Accept for pending messages, publish the 2nd message when the 1st has settled, no heartbeat; deviation: deliver the head of another link first, report a verdict or publish earlier, run a heartbeat at some node). Non-trivial = executions with >= 1 deviation, distinct by (configuration, choice sequence).",
    explanation: "E1 stateless deviation-bounded DFS; every execution runs 3-4 real Behaviours with owned entropy. Oracle at quiescence: every subscribed node except the publisher emitted exactly one Event::Message per message, the publisher none; during the run no frame carrying message m is queued by node n towards a peer from which n has already received m (any of them, duplicates included, also when forwarding is deferred until the application's Accept), nor towards m's source (when the message names one); the publisher never queues its own publication a second time and never sends IWANT for it.",
    assumptions: &["<= 4 nodes (not a dozen): larger networks are out of exhaustive reach and are not claimed", "per-link FIFO (streams), reordering only across links", "no topology or subscription change during the explored phase; virtual time does not advance (well within the duplicate-cache lifetime)", "messages are unsigned with author + random seqno (ValidationMode::Permissive)"],
};

const T: &str = "T1";

/// A simple non-identity `DataTransform` (what a compressing application installs): every payload
/// byte is XOR-ed with 0x5A on the way out and on the way in; identity when `on` is false.
#[derive(Clone, Default)]
pub struct XorT {
    on: bool,
}
fn xor(on: bool, mut d: Vec<u8>) -> Vec<u8> {
    if on {
        for b in d.iter_mut() {
            *b ^= 0x5A;
        }
    }
    d
}
impl gs::DataTransform for XorT {
    fn inbound_transform(&self, raw: gs::RawMessage) -> Result<gs::Message, std::io::Error> {
        Ok(gs::Message { source: raw.source, data: xor(self.on, raw.data), sequence_number: raw.sequence_number, topic: raw.topic })
    }
    fn outbound_transform(&self, _topic: &gs::TopicHash, data: Vec<u8>) -> Result<Vec<u8>, std::io::Error> {
        Ok(xor(self.on, data))
    }
}

use std::sync::atomic::{AtomicU64, Ordering::Relaxed};
/// vacuity counters (per worker process, folded into the outcome)
static DUP_RECEPTIONS: AtomicU64 = AtomicU64::new(0);
static MSG_FRAMES: AtomicU64 = AtomicU64::new(0);
static HEARTBEATS: AtomicU64 = AtomicU64::new(0);
static EARLY_PUBLISH: AtomicU64 = AtomicU64::new(0);
static VALIDATIONS: AtomicU64 = AtomicU64::new(0);
/// a frame carrying a message was delivered to the node that published it (echo)
static ECHO_TO_PUBLISHER: AtomicU64 = AtomicU64::new(0);
/// a node received a duplicate while its first copy was still awaiting application validation
static DUP_WHILE_PENDING: AtomicU64 = AtomicU64::new(0);

fn edges(topo: &str) -> (usize, Vec<(usize, usize)>) {
    match topo {
        "3-path-0" => (3, vec![(0, 1), (0, 2)]),
        "3-path-1" => (3, vec![(1, 0), (1, 2)]),
        "3-path-2" => (3, vec![(2, 0), (2, 1)]),
        "3-triangle" => (3, vec![(0, 1), (1, 2), (0, 2)]),
        "4-path" => (4, vec![(0, 1), (1, 2), (2, 3)]),
        "4-cycle" => (4, vec![(0, 1), (1, 2), (2, 3), (3, 0)]),
        "4-star" => (4, vec![(0, 1), (0, 2), (0, 3)]),
        "4-complete" => (4, vec![(0, 1), (0, 2), (0, 3), (1, 2), (1, 3), (2, 3)]),
        _ => panic!("unknown topology {topo}"),
    }
}

struct Frame {
    seq: u64,
    bytes: Vec<u8>,
}

struct Net {
    nodes: Vec<GsNode<XorT>>,
    /// payloads on the wire are XOR-transformed (the harness keys everything by the plain data)
    xor: bool,
    /// (publisher, message) whose initial publication has been collected: any later frame of
    /// the publisher carrying it is a re-forward
    published: BTreeSet<(usize, Vec<u8>)>,
    nbrs: Vec<Vec<usize>>,
    links: BTreeMap<(usize, usize), VecDeque<Frame>>,
    seq: u64,
    /// message (data) -> publisher
    source: BTreeMap<Vec<u8>, usize>,
    /// (node, message) -> peers from which the node has received it
    received_from: BTreeMap<(usize, Vec<u8>), BTreeSet<usize>>,
    /// (node, message) -> number of Event::Message
    delivered: BTreeMap<(usize, Vec<u8>), u32>,
    frames_delivered: u64,
    violation: Option<String>,
    /// application validates messages before they are forwarded
    validate: bool,
    /// per node: messages handed to the application and not yet reported back (id, received from, data)
    pending: Vec<VecDeque<(gs::MessageId, libp2p_identity::PeerId, Vec<u8>)>>,
}

impl Net {
    /// `special` = kind of the topology's first edge: "explicit" (both ends list each other as
    /// explicit/direct peers), "floodsub" (the link negotiated /floodsub/1.0.0: both ends see a
    /// floodsub peer) or anything else for an ordinary gossipsub link
    #[allow(clippy::too_many_arguments)]
    fn new(topo: &str, flood: bool, validate: bool, scoring: bool, special: &str, xor_on: bool, content_id: bool, anonymous: bool) -> Net {
        let (n, es) = edges(topo);
        let first = es[0];
        let mut nodes = Vec::new();
        for i in 0..n {
            let mut cb = config_builder(4, flood, validate);
            if content_id {
                // content-addressed ids: the id of a message is its (plain) payload
                cb.message_id_fn(|m: &gs::Message| gs::MessageId::from(m.data.clone()));
            }
            let auth = if anonymous { gs::MessageAuthenticity::Anonymous } else { gs::MessageAuthenticity::Author(peer(i as u8)) };
            let mut beh = gs::Behaviour::<XorT>::new_with_transform(auth, cb.build().expect("valid config"), XorT { on: xor_on }).expect("behaviour");
            if scoring {
                let (sp, st) = score_params();
                beh.with_peer_score(sp, st).expect("score params");
            }
            if special == "explicit" && (i == first.0 || i == first.1) {
                let other = if i == first.0 { first.1 } else { first.0 };
                beh.add_explicit_peer(&peer(other as u8));
            }
            nodes.push(GsNode::new(beh));
        }
        let mut nbrs = vec![vec![]; n];
        let mut links = BTreeMap::new();
        for (a, b) in &es {
            nbrs[*a].push(*b);
            nbrs[*b].push(*a);
            links.insert((*a, *b), VecDeque::new());
            links.insert((*b, *a), VecDeque::new());
        }
        let mut net = Net { nodes, xor: xor_on, published: BTreeSet::new(), nbrs, links, seq: 0, source: BTreeMap::new(), received_from: BTreeMap::new(), delivered: BTreeMap::new(), frames_delivered: 0, violation: None, validate, pending: vec![VecDeque::new(); n] };
        for (a, b) in &es {
            let kind = if special == "floodsub" && (*a, *b) == first { Kind::Flood } else { Kind::G11 };
            net.nodes[*a].connect(peer(*b as u8), true, kind);
            net.nodes[*b].connect(peer(*a as u8), false, kind);
        }
        for i in 0..n {
            net.nodes[i].beh.subscribe(&gs::IdentTopic::new(T)).expect("subscribe");
            net.nodes[i].pump();
            net.collect(i);
        }
        net.settle();
        for i in 0..n {
            net.nodes[i].heartbeat();
            net.collect(i);
        }
        net.settle();
        net
    }

    /// move what node `a` queued for its neighbours onto the links; judge the "not sent back /
    /// not sent to the source" part of the oracle on every frame that carries a message
    fn collect(&mut self, a: usize) {
        for b in self.nbrs[a].clone() {
            for bytes in self.nodes[a].drain_wire(&peer(b as u8)) {
                if let Some(rpc) = parse_frame(&bytes) {
                    for m in &rpc.msgs {
                        let data = xor(self.xor, m.data.clone());
                        let name = String::from_utf8_lossy(&data).into_owned();
                        if self.received_from.get(&(a, data.clone())).is_some_and(|s| s.contains(&b)) && self.violation.is_none() {
                            self.violation = Some(format!("sent-back-to-sender :: node {a} queued message {name:?} towards node {b} from which it had received it"));
                        }
                        // "never sent to its source" can only be judged by a node that can know
                        // the source: the message must carry a `from` field (not anonymous)
                        if m.from.is_some() && self.source.get(&data) == Some(&b) && self.violation.is_none() {
                            self.violation = Some(format!("sent-to-source :: node {a} queued message {name:?} towards its source node {b}"));
                        }
                        if self.published.contains(&(a, data.clone())) && self.violation.is_none() {
                            self.violation = Some(format!("publisher-forwarded-own-message-again :: node {a} queued its own publication {name:?} a second time (towards node {b})"));
                        }
                    }
                    for id in &rpc.iwant {
                        // with content-addressed ids the id is the plain payload
                        if self.source.get(id) == Some(&a) && self.violation.is_none() {
                            self.violation = Some(format!("iwant-for-own-message :: node {a} asked node {b} for its own publication {:?}", String::from_utf8_lossy(id)));
                        }
                    }
                }
                self.seq += 1;
                self.links.get_mut(&(a, b)).unwrap().push_back(Frame { seq: self.seq, bytes });
            }
        }
        // application events
        for ev in std::mem::take(&mut self.nodes[a].app_events) {
            if let gs::Event::Message { message, message_id, propagation_source } = ev {
                *self.delivered.entry((a, message.data.clone())).or_insert(0) += 1;
                if self.validate {
                    self.pending[a].push_back((message_id, propagation_source, message.data.clone()));
                }
            }
        }
        self.nodes[a].notes.clear();
    }

    fn deliver(&mut self, a: usize, b: usize) {
        let Some(f) = self.links.get_mut(&(a, b)).and_then(|q| q.pop_front()) else { return };
        if let Some(rpc) = parse_frame(&f.bytes) {
            for m in &rpc.msgs {
                MSG_FRAMES.fetch_add(1, Relaxed);
                let data = xor(self.xor, m.data.clone());
                if self.source.get(&data) == Some(&b) {
                    ECHO_TO_PUBLISHER.fetch_add(1, Relaxed);
                }
                let e = self.received_from.entry((b, data.clone())).or_default();
                if !e.is_empty() || self.source.get(&data) == Some(&b) {
                    // the receiver already has this message: the duplicate cache must absorb it
                    DUP_RECEPTIONS.fetch_add(1, Relaxed);
                    if self.pending[b].iter().any(|p| p.2 == data) {
                        DUP_WHILE_PENDING.fetch_add(1, Relaxed);
                    }
                }
                e.insert(a);
            }
        }
        self.frames_delivered += 1;
        if let Err(e) = self.nodes[b].inject(peer(a as u8), &f.bytes) {
            if self.violation.is_none() {
                self.violation = Some(format!("codec-rejected-own-frame :: node {b} could not decode a frame of node {a}: {e}"));
            }
        }
        self.collect(b);
    }

    /// heads of the non-empty links, oldest first
    fn heads(&self) -> Vec<(usize, usize)> {
        let mut v: Vec<(u64, (usize, usize))> = self.links.iter().filter_map(|(k, q)| q.front().map(|f| (f.seq, *k))).collect();
        v.sort();
        v.into_iter().map(|x| x.1).collect()
    }

    /// FIFO delivery to quiescence (set-up phase)
    fn settle(&mut self) {
        let mut guard = 0;
        while let Some((a, b)) = self.heads().first().copied() {
            self.deliver(a, b);
            guard += 1;
            assert!(guard < 10_000, "set-up does not quiesce");
        }
    }

    /// the application of node `a` accepts the oldest message it was handed
    fn validate_oldest(&mut self, a: usize) {
        let Some((id, from, _)) = self.pending[a].pop_front() else { return };
        VALIDATIONS.fetch_add(1, Relaxed);
        self.nodes[a].beh.report_message_validation_result(&id, &from, gs::MessageAcceptance::Accept);
        self.nodes[a].pump();
        self.collect(a);
    }

    fn publish(&mut self, p: usize, data: &[u8]) -> Result<(), String> {
        self.source.insert(data.to_vec(), p);
        let r = self.nodes[p].beh.publish(gs::IdentTopic::new(T).hash(), data.to_vec());
        self.nodes[p].pump();
        self.collect(p);
        self.published.insert((p, data.to_vec()));
        r.map(|_| ()).map_err(|e| format!("{e:?}"))
    }
}

#[derive(Clone, Copy, PartialEq, Debug)]
enum Ev {
    Deliver(usize, usize),
    /// the application of this node reports `Accept` for the oldest message it was handed
    Validate(usize),
    Publish,
    Heartbeat(usize),
}

/// one execution; Err("signature :: details") = violation, Err("SETUP…") = machinery
fn one(cfg: &Value) -> Result<(), String> {
    let topo = cfg["topo"].as_str().unwrap();
    let flood = cfg["flood"].as_bool().unwrap();
    let pubs: Vec<usize> = cfg["pubs"].as_array().unwrap().iter().map(|v| v.as_u64().unwrap() as usize).collect();
    let validate = cfg["validate"].as_bool().unwrap_or(false);
    let scoring = cfg["scoring"].as_bool().unwrap_or(false);
    let special = cfg["special"].as_str().unwrap_or("none");
    let xor_on = cfg["xor"].as_bool().unwrap_or(false);
    let content_id = cfg["content_id"].as_bool().unwrap_or(false);
    let anonymous = cfg["anonymous"].as_bool().unwrap_or(false);
    let mut net = Net::new(topo, flood, validate, scoring, special, xor_on, content_id, anonymous);
    let first_edge = edges(topo).1[0];
    let n = net.nodes.len();
    // precondition of the property ("delivered to every subscriber" is promised on a mesh that
    // spans the graph): after set-up every link is a mesh link in both directions
    for a in 0..n {
        let mesh = net.nodes[a].mesh();
        let members = mesh.get(T).cloned().unwrap_or_default();
        for b in &net.nbrs[a] {
            let is_special = special != "none" && ((a, *b) == first_edge || (*b, a) == first_edge);
            if is_special {
                // explicit and floodsub neighbours are served by flooding, never by the mesh
                if members.contains(&peer(*b as u8)) {
                    return Err(format!("SETUP: {special} neighbour {b} is in node {a}'s mesh ({topo})"));
                }
            } else if !members.contains(&peer(*b as u8)) {
                return Err(format!("SETUP: after set-up node {b} is not in node {a}'s mesh ({topo})"));
            }
        }
    }
    if let Some(v) = net.violation.take() {
        return Err(format!("SETUP: {v}"));
    }
    let msgs: Vec<Vec<u8>> = (0..pubs.len()).map(|i| format!("M{}", i + 1).into_bytes()).collect();
    let mut next_pub = 0usize;
    let mut hb_left = vec![1u8; n];
    // the first message is published at the start of the explored phase
    net.publish(pubs[0], &msgs[0]).map_err(|e| format!("publish-failed :: first publish: {e}"))?;
    next_pub += 1;
    let mut steps = 0;
    loop {
        steps += 1;
        if steps > 400 {
            return Err("horizon :: more than 400 events".into());
        }
        let mut menu: Vec<Ev> = net.heads().into_iter().map(|(a, b)| Ev::Deliver(a, b)).collect();
        // default order: deliveries (oldest first), then pending application verdicts, then the
        // next publish; a verdict given while frames are still in flight is a deviation
        for i in 0..n {
            if !net.pending[i].is_empty() {
                menu.push(Ev::Validate(i));
            }
        }
        let work_left = !menu.is_empty() || next_pub < pubs.len();
        if !work_left {
            break;
        }
        if next_pub < pubs.len() {
            menu.push(Ev::Publish);
        }
        for (i, h) in hb_left.iter().enumerate() {
            if *h > 0 {
                menu.push(Ev::Heartbeat(i));
            }
        }
        let c = choice::choose_l(menu.len(), 1, "event");
        match menu[c] {
            Ev::Deliver(a, b) => net.deliver(a, b),
            Ev::Validate(i) => net.validate_oldest(i),
            Ev::Publish => {
                if !net.heads().is_empty() {
                    EARLY_PUBLISH.fetch_add(1, Relaxed);
                }
                net.publish(pubs[next_pub], &msgs[next_pub]).map_err(|e| format!("publish-failed :: publish {}: {e}", next_pub + 1))?;
                next_pub += 1;
            }
            Ev::Heartbeat(i) => {
                hb_left[i] -= 1;
                HEARTBEATS.fetch_add(1, Relaxed);
                net.nodes[i].heartbeat();
                net.collect(i);
            }
        }
        if let Some(v) = net.violation.take() {
            return Err(v);
        }
    }
    // ---- oracle at quiescence
    let mut obs = String::new();
    for (mi, m) in msgs.iter().enumerate() {
        for node in 0..n {
            let got = net.delivered.get(&(node, m.clone())).copied().unwrap_or(0);
            obs.push_str(&format!("{node}:{mi}:{got};"));
            if node == pubs[mi] {
                if got != 0 {
                    return Err(format!("delivered-to-publisher :: node {node} published M{} and saw it {got} time(s) as Event::Message", mi + 1));
                }
            } else if got == 0 {
                return Err(format!("missing-delivery :: node {node} never saw M{} (published by node {})", mi + 1, pubs[mi]));
            } else if got > 1 {
                return Err(format!("duplicate-delivery :: node {node} saw M{} {got} times", mi + 1));
            }
        }
    }
    choice::observe(&obs);
    choice::observe(&format!("frames={}", net.frames_delivered));
    Ok(())
}

const SEED: u64 = 11;

fn body(cfg: &Value) -> impl FnMut(&mut Chooser) -> Result<(), String> + '_ {
    move |ch: &mut Chooser| {
        if crate::fresh::reset(SEED) {
            choice::scoped(ch, || mc::catch(|| one(cfg)).unwrap_or_else(|p| Err(format!("panic {} :: {p}", mc::shim::last_panic_loc().unwrap_or_default()))))
        } else {
            // fall back to a real fresh thread per execution
            let mut moved = std::mem::take(ch);
            let cfg2 = cfg.clone();
            let r = crate::explore::isolated(SEED, move || {
                let _ = crate::fresh::reset(SEED);
                let r = choice::scoped(&mut moved, || mc::catch(|| one(&cfg2)).unwrap_or_else(|p| Err(format!("panic :: {p}"))));
                (moved, r)
            });
            match r {
                Ok((m, r)) => {
                    *ch = m;
                    r
                }
                Err(p) => Err(format!("panic :: {p}")),
            }
        }
    }
}

fn configs(ctx: &Ctx) -> Vec<Value> {
    let mut v = Vec::new();
    let three = ["3-path-0", "3-path-1", "3-path-2", "3-triangle"];
    let four = ["4-path", "4-cycle", "4-star", "4-complete"];
    // (application validates before forwarding, peer scoring active)
    // the topology's first edge as an explicit-peer link / a floodsub link (no validation): the
    // explicit or floodsub neighbour is then source, relay or sink depending on the publisher
    for special in ["explicit", "floodsub"] {
        let two = !ctx.quick();
        for flood in [false, true] {
            for (ts, n) in [(&three[..], 3usize), (&four[..], 4)] {
                for t in ts {
                    for a in 0..n {
                        v.push(json!({"topo": t, "flood": flood, "pubs": [a], "validate": false, "scoring": false, "special": special}));
                        if two {
                            for b in 0..n {
                                v.push(json!({"topo": t, "flood": flood, "pubs": [a, b], "validate": false, "scoring": false, "special": special}));
                            }
                        }
                    }
                }
            }
        }
    }
    // payload transform x message-id function x authenticity (single publish): with anonymous
    // messages nothing on the wire names the publisher, so its own message can be echoed back
    for (x, cid, anon) in [(true, true, true), (false, true, true), (true, true, false), (true, false, false)] {
        for flood in [false, true] {
            for (ts, n) in [(&three[..], 3usize), (&four[..], 4)] {
                for t in ts {
                    for a in 0..n {
                        v.push(json!({"topo": t, "flood": flood, "pubs": [a], "validate": false, "scoring": false, "xor": x, "content_id": cid, "anonymous": anon}));
                    }
                }
            }
        }
    }
    for (validate, scoring) in [(false, false), (true, false), (true, true)] {
        // quick: the validating modes with one publish only
        let two = !(ctx.quick() && validate);
        for flood in [false, true] {
            for t in three {
                for a in 0..3 {
                    v.push(json!({"topo": t, "flood": flood, "pubs": [a], "validate": validate, "scoring": scoring}));
                    if two {
                        for b in 0..3 {
                            v.push(json!({"topo": t, "flood": flood, "pubs": [a, b], "validate": validate, "scoring": scoring}));
                        }
                    }
                }
            }
            for t in four {
                for a in 0..4 {
                    v.push(json!({"topo": t, "flood": flood, "pubs": [a], "validate": validate, "scoring": scoring}));
                    if two {
                        for b in 0..4 {
                            v.push(json!({"topo": t, "flood": flood, "pubs": [a, b], "validate": validate, "scoring": scoring}));
                        }
                    }
                }
            }
        }
    }
    v
}

pub fn run(ctx: &Ctx) -> Outcome {
    if let Some(case) = &ctx.replay {
        let mut out = Outcome::default();
        out.evaluations = 1;
        let choices: Vec<u32> = serde_json::from_value(case["choices"].clone()).unwrap_or_default();
        if let Err(m) = choice::replay(&choices, body(&case["cfg"])) {
            out.violation(format!("C27 {} topo={}", mc::bfs::signature_of(&m), case["cfg"]["topo"].as_str().unwrap_or("?")), m, case.clone());
        }
        return out;
    }
    // deviation bound: 3-node networks one deeper than 4-node networks
    let bound3 = ctx.tier.pick(2, 4);
    let bound4 = ctx.tier.pick(1, 2);
    // 4 nodes with a single publish (shorter traces): one more deviation
    let bound4_single = ctx.tier.pick(1, 3);
    let mut cfgs = configs(ctx);
    let n = cfgs.len();
    cfgs.rotate_left(ctx.seed as usize % n);
    let mut out = mc::workers(ctx, 16, |ctx| {
        let mut out = Outcome::default();
        for (i, cfg) in cfgs.iter().enumerate() {
            if !ctx.mine(i as u64) {
                continue;
            }
            let validating = cfg["validate"].as_bool().unwrap_or(false);
            let bound = if cfg["topo"].as_str().unwrap().starts_with('3') {
                // validating modes have longer traces (verdict events): one deviation less in thorough
                if validating && !ctx.quick() { bound3 - 1 } else { bound3 }
            } else if cfg["pubs"].as_array().unwrap().len() == 1 {
                bound4_single
            } else {
                bound4
            };
            let (st, viol) = choice::explore(bound, 0, body(cfg));
            out.add_explore(&st);
            out.count("configs", 1);
            out.count("distinct_observations", st.distinct_obs);
            for k in 1..st.executions.min(100_000) {
                out.nontrivial_h(mc::report::hash_str(&cfg.to_string()) ^ k.wrapping_mul(0x9e3779b97f4a7c15));
            }
            if i % 37 == 0 {
                out.sample(json!({"cfg": cfg, "executions": st.executions, "max_trace_len": st.max_trace_len}));
            }
            if let Some((choices, m)) = viol {
                if m.starts_with("NONDETERMINISM") || m.starts_with("SETUP") {
                    out.machinery(format!("{m} cfg={cfg}"));
                } else {
                    out.violation(format!("C27 {} topo={}", mc::bfs::signature_of(&m), cfg["topo"].as_str().unwrap()), format!("{m} (cfg {cfg}, choices {choices:?})"), json!({"cfg": cfg, "choices": choices}));
                }
            }
        }
        out.count("message_frames_delivered", MSG_FRAMES.load(Relaxed));
        out.count("duplicate_receptions", DUP_RECEPTIONS.load(Relaxed));
        out.count("heartbeats_explored", HEARTBEATS.load(Relaxed));
        out.count("publish_interleaved_with_inflight", EARLY_PUBLISH.load(Relaxed));
        out.count("application_verdicts", VALIDATIONS.load(Relaxed));
        out.count("own_message_echoed_to_publisher", ECHO_TO_PUBLISHER.load(Relaxed));
        out.count("duplicate_received_while_awaiting_validation", DUP_WHILE_PENDING.load(Relaxed));
        out
    });
    for g in ["message_frames_delivered", "duplicate_receptions", "heartbeats_explored", "publish_interleaved_with_inflight", "application_verdicts", "duplicate_received_while_awaiting_validation", "own_message_echoed_to_publisher"] {
        if out.get(g) == 0 {
            out.machinery(format!("vacuity guard: counter '{g}' is zero"));
        }
    }
    if out.get("executions") <= out.get("configs") {
        out.machinery("vacuity guard: no configuration had more than the default schedule");
    }
    out.notes.push(format!("deviation bound {bound3} (3 nodes) / {bound4_single} (4 nodes, 1 publish) / {bound4} (4 nodes, 2 publishes); {} configurations; entropy seed {SEED}", cfgs.len()));
    out
}
