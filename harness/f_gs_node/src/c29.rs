//! C29 — connection handlers know whether their peer is in a mesh (same exploration as C28,
//! oracle: the real handler's `in_mesh`, observed through `connection_keep_alive()` after the
//! JoinedMesh/LeftMesh notifications of the step were applied, equals membership in any mesh).
//!
//! Reading for peers with more than one connection (settled from the code and the statement):
//! the behaviour informs exactly one handler per peer, the one of `connections.first()`
//! (`peer_added_to_mesh` / `peer_removed_from_mesh`), and when a connection closes while others
//! remain it re-sends `JoinedMesh` to the new first connection (`on_connection_closed`). "It" in
//! the statement is therefore the handler of the peer's oldest live connection: after every step
//! that handler must believe `in_mesh` when the peer is in some mesh (this is what keeps a mesh
//! connection alive), and no live handler of the peer may believe `in_mesh` when the peer is in
//! no mesh. Handlers of younger connections are allowed to be uninformed while the peer is a
//! member. Notifications addressed to a closed connection are dropped, as the Swarm does.
use crate::meshsys::Prop;
use mc::{Ctx, Meta, Outcome};

pub const META: Meta = Meta {
    level: "model_checking",
    rule: "Same exploration as C28 (histories of connect/disconnect/Subscribe/Unsubscribe/GRAFT/PRUNE RPCs incl. two-topic RPCs, local subscribe/unsubscribe, score, advance, heartbeat over 3 peers x 2 topics). Non-trivial = distinct reached states with a non-empty mesh; guards require steps that add / remove one peer in both topics at once.",
    explanation: "After every step the ToSwarm::NotifyHandler{JoinedMesh|LeftMesh} events drained from the behaviour are applied to the peer's real connection Handler; for every connected peer handler.connection_keep_alive() (= in_mesh) must equal membership of the peer in the union of all topic meshes.",
    assumptions: &["3 peers / 2 topics / depth-bounded histories (small-scope)", "at most two connections per peer (second connection, then either closes); notifications for closed connections are dropped as the Swarm does", "with two connections the judged handler is the one of the oldest live connection (the one the behaviour addresses)"],
};

pub fn run(ctx: &Ctx) -> Outcome {
    crate::meshrun::run(ctx, Prop::C29, &["note.joined", "note.left", "multi-add.Heartbeat", "multi-add.SubscribeRpc", "multi-remove.Heartbeat", "add.GraftRpc", "remove.PruneRpc", "close-oldest-connection-of-mesh-peer", "close-newest-connection-of-mesh-peer", "step-with-peer-in-two-meshes-and-unshared-topic", "add-stalled-peer.LocalSubscribe", "add-stalled-peer.SubscribeRpc"])
}
