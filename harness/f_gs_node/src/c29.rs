//! C29 — connection handlers know whether their peer is in a mesh (same exploration as C28,
//! oracle: the real handler's `in_mesh`, observed through `connection_keep_alive()` after the
//! JoinedMesh/LeftMesh notifications of the step were applied, equals membership in any mesh).
use crate::meshsys::Prop;
use mc::{Ctx, Meta, Outcome};

pub const META: Meta = Meta {
    level: "model_checking",
    rule: "Same exploration as C28 (histories of connect/disconnect/Subscribe/Unsubscribe/GRAFT/PRUNE RPCs incl. two-topic RPCs, local subscribe/unsubscribe, score, advance, heartbeat over 3 peers x 2 topics). Non-trivial = distinct reached states with a non-empty mesh; guards require steps that add / remove one peer in both topics at once.",
    explanation: "After every step the ToSwarm::NotifyHandler{JoinedMesh|LeftMesh} events drained from the behaviour are applied to the peer's real connection Handler; for every connected peer handler.connection_keep_alive() (= in_mesh) must equal membership of the peer in the union of all topic meshes.",
    assumptions: &["3 peers / 2 topics / depth-bounded histories (small-scope)", "one connection per peer, notifications for closed connections are dropped as the Swarm does"],
};

pub fn run(ctx: &Ctx) -> Outcome {
    crate::meshrun::run(ctx, Prop::C29, &["note.joined", "note.left", "multi-add.Heartbeat", "multi-add.SubscribeRpc", "multi-remove.Heartbeat", "add.GraftRpc", "remove.PruneRpc"])
}
