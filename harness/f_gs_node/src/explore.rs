//! E2 for subjects that are neither `Clone` nor independent of hash order / RNG: a breadth-first
//! search over action histories in which **every transition is one execution on a fresh OS
//! thread** (`mc::isolated`: entropy stream + virtual clock reset, fresh `RandomState` and
//! `ThreadRng`), rebuilt from the history. States are de-duplicated on the system's canonical
//! key. Work is split over worker processes by striping the frontier reached at a small split
//! depth (every process computes that prefix identically; only worker 0 reports it).
//!
//! Violations do not stop the search (the offending path is not extended); the first history per
//! signature is kept.

use mc::{json, Outcome, Value};
use serde::{de::DeserializeOwned, Serialize};
use std::collections::{BTreeMap, HashMap};
use std::sync::Arc;

pub trait Sys {
    type Act: Clone + std::fmt::Debug + Serialize + DeserializeOwned + Send + 'static;
    fn actions(&self) -> Vec<Self::Act>;
    /// apply on the real code and check the oracles; Err("signature :: details") = violation
    fn step(&mut self, a: &Self::Act) -> Result<(), String>;
    fn canon(&self) -> Vec<u8>;
    fn nontrivial(&self) -> bool {
        true
    }
    /// names of the interesting things that happened during the *last* step (vacuity counters)
    fn take_marks(&mut self) -> Vec<String>;
}

#[derive(Debug, Clone)]
pub struct ExecOut<A> {
    pub canon: u128,
    pub actions: Vec<A>,
    pub marks: Vec<String>,
    pub nontrivial: bool,
}

#[derive(Debug, Clone)]
pub enum ExecErr {
    /// violation at history index i (+ the marks of the violating step: the situation a vacuity
    /// guard counts has occurred even if the step was judged a violation)
    Violation(usize, String, Vec<String>),
    Panic(String),
}

pub type Maker<S> = Arc<dyn Fn() -> S + Send + Sync>;

fn run_history<S: Sys>(make: &Maker<S>, hist: &[S::Act]) -> Result<ExecOut<S::Act>, ExecErr> {
    let mut s = make();
    let _ = s.take_marks();
    let n = hist.len();
    for (i, a) in hist.iter().enumerate() {
        if i + 1 == n {
            let _ = s.take_marks();
        }
        if let Err(m) = s.step(a) {
            return Err(ExecErr::Violation(i, m, s.take_marks()));
        }
    }
    Ok(ExecOut { canon: mc::bfs::h128(&s.canon()), actions: s.actions(), marks: s.take_marks(), nontrivial: s.nontrivial() })
}

/// One execution on a real fresh OS thread (the reference semantics).
pub fn exec_thread<S: Sys + 'static>(make: &Maker<S>, seed: u64, hist: &[S::Act]) -> Result<ExecOut<S::Act>, ExecErr> {
    let make = make.clone();
    let hist: Vec<S::Act> = hist.to_vec();
    // The execution state is *defined* as: RandomState keys = f(seed), ThreadRng reseeded from the
    // start of the entropy stream, clock at origin (fresh::reset). A real fresh thread applies the
    // same initialisation, so that both ways of running an execution agree also where the
    // subject really samples (a pristine thread would seed its ThreadRng lazily, from a later
    // position of the entropy stream). If the in-place reset is unavailable this is a no-op and
    // every execution of the run uses pristine fresh threads.
    match isolated(seed, move || {
        let _ = crate::fresh::reset(seed);
        run_history(&make, &hist)
    }) {
        Ok(x) => x,
        Err(p) => Err(ExecErr::Panic(format!("{p} at {}", mc::shim::last_panic_loc().unwrap_or_default()))),
    }
}

/// One execution: replay `hist` from scratch in the state "fresh thread, entropy stream `seed`,
/// clock at origin" — in place when `fresh::reset` is available, else on a fresh thread.
pub fn exec<S: Sys + 'static>(make: &Maker<S>, seed: u64, hist: &[S::Act]) -> Result<ExecOut<S::Act>, ExecErr> {
    if !crate::fresh::reset(seed) {
        return exec_thread(make, seed, hist);
    }
    match mc::catch(|| run_history(make, hist)) {
        Ok(x) => x,
        Err(p) => Err(ExecErr::Panic(format!("{p} at {}", mc::shim::last_panic_loc().unwrap_or_default()))),
    }
}

/// Same contract as `mc::isolated` (fresh OS thread, entropy stream and virtual clock reset
/// first) with a small stack: the 16 MiB stacks of `mc::isolated` cost an mmap/munmap/madvise
/// round trip per execution, which dominates when an execution takes well under a millisecond.
pub fn isolated<T: Send + 'static>(seed: u64, f: impl FnOnce() -> T + Send + 'static) -> Result<T, String> {
    mc::shim::arm();
    mc::entropy::reset(seed);
    mc::vclock::reset();
    let h = std::thread::Builder::new()
        .stack_size(1 << 20)
        .spawn(move || std::panic::catch_unwind(std::panic::AssertUnwindSafe(f)))
        .expect("spawn");
    match h.join() {
        Ok(Ok(v)) => Ok(v),
        Ok(Err(p)) | Err(p) => Err(mc::shim::panic_msg(&p)),
    }
}

#[derive(Debug, Clone, Default)]
pub struct Stats {
    pub states: u64,
    pub transitions: u64,
    pub executions: u64,
    pub depth_completed: usize,
    pub capped: bool,
    pub marks: BTreeMap<String, u64>,
    pub nontrivial_keys: Vec<u64>,
    pub samples: Vec<String>,
    pub selftested: u64,
    pub max_frontier: usize,
}

pub struct Found<A> {
    pub history: Vec<A>,
    pub message: String,
}

pub struct Search<S: Sys> {
    pub make: Maker<S>,
    pub seed: u64,
    pub dedup: bool,
    pub selftest_k: u64,
    pub stats: Stats,
    pub found: Vec<Found<S::Act>>,
    pub machinery: Vec<String>,
    sigs: std::collections::HashSet<String>,
    /// canon -> smallest depth at which it was reached
    seen: HashMap<u128, usize>,
}

pub struct Node<A> {
    pub hist: Vec<A>,
    pub actions: Vec<A>,
}

impl<S: Sys + 'static> Search<S> {
    pub fn new(make: Maker<S>, seed: u64, dedup: bool, selftest_k: u64) -> Self {
        Search { make, seed, dedup, selftest_k, stats: Stats::default(), found: vec![], machinery: vec![], sigs: Default::default(), seen: HashMap::new() }
    }

    fn add_violation(&mut self, hist: Vec<S::Act>, msg: String) {
        let sig = mc::bfs::signature_of(&msg);
        if self.sigs.insert(sig) && self.found.len() < 64 {
            self.found.push(Found { history: hist, message: msg });
        }
    }

    /// the root node (empty history); Err if the initial state itself is broken
    pub fn root(&mut self) -> Option<Node<S::Act>> {
        match exec(&self.make, self.seed, &[]) {
            Ok(o) => {
                self.stats.executions += 1;
                self.seen.insert(o.canon, 0);
                self.stats.states += 1;
                Some(Node { hist: vec![], actions: o.actions })
            }
            Err(e) => {
                self.machinery.push(format!("initial state cannot be built: {e:?}"));
                None
            }
        }
    }

    /// Expand `frontier` (all nodes at depth `d`) by one level. `count` = false suppresses
    /// statistics/violations (used by workers != 0 for the shared prefix).
    pub fn level(&mut self, frontier: Vec<Node<S::Act>>, d: usize, count: bool, max_states: u64) -> Vec<Node<S::Act>> {
        let mut next = Vec::new();
        self.stats.max_frontier = self.stats.max_frontier.max(frontier.len());
        for node in frontier {
            for a in &node.actions {
                let mut h2 = node.hist.clone();
                h2.push(a.clone());
                let r = exec(&self.make, self.seed, &h2);
                if count {
                    self.stats.executions += 1;
                    self.stats.transitions += 1;
                }
                // determinism self-test: the first K executions are run twice
                // ... and afterwards every 4001st one (deep histories, where the subject really samples)
                if count && (self.stats.selftested < self.selftest_k || (self.selftest_k > 0 && self.stats.executions % 4001 == 0)) {
                    self.stats.selftested += 1;
                    // the re-run uses a real fresh OS thread: checks determinism *and* that the
                    // in-place reset (fresh.rs) is equivalent to a fresh thread
                    let r2 = exec_thread(&self.make, self.seed, &h2);
                    let same = match (&r, &r2) {
                        (Ok(x), Ok(y)) => x.canon == y.canon && x.marks == y.marks && format!("{:?}", x.actions) == format!("{:?}", y.actions),
                        (Err(ExecErr::Violation(i, m, _)), Err(ExecErr::Violation(j, n, _))) => i == j && m == n,
                        (Err(ExecErr::Panic(m)), Err(ExecErr::Panic(n))) => m == n,
                        _ => false,
                    };
                    if !same {
                        self.machinery.push(format!("NONDETERMINISM: history {h2:?} gave two different outcomes"));
                    }
                }
                match r {
                    Ok(o) => {
                        if count {
                            for m in &o.marks {
                                *self.stats.marks.entry(m.clone()).or_insert(0) += 1;
                            }
                        }
                        let new = if self.dedup {
                            match self.seen.get(&o.canon) {
                                Some(_) => false,
                                None => {
                                    self.seen.insert(o.canon, d + 1);
                                    true
                                }
                            }
                        } else {
                            true
                        };
                        if new {
                            if count {
                                self.stats.states += 1;
                                if o.nontrivial && self.stats.nontrivial_keys.len() < 400_000 {
                                    self.stats.nontrivial_keys.push(o.canon as u64);
                                }
                                if self.stats.samples.len() < 3 && self.stats.states % 1013 == 7 {
                                    self.stats.samples.push(format!("{h2:?}"));
                                }
                            }
                            next.push(Node { hist: h2, actions: o.actions });
                            if max_states != 0 && self.stats.states >= max_states {
                                self.stats.capped = true;
                                return next;
                            }
                        }
                    }
                    Err(ExecErr::Violation(i, m, marks)) => {
                        if count && i + 1 == h2.len() {
                            for mk in &marks {
                                *self.stats.marks.entry(mk.clone()).or_insert(0) += 1;
                            }
                        }
                        if i + 1 < h2.len() {
                            self.machinery.push(format!("NONDETERMINISM: replay of an accepted prefix diverged at step {i} of {h2:?}: {m}"));
                        } else if count {
                            self.add_violation(h2, m);
                        }
                    }
                    Err(ExecErr::Panic(p)) => {
                        if count {
                            self.add_violation(h2, format!("panic {} :: {p}", p.rsplit(" at ").next().unwrap_or("")));
                        }
                    }
                }
            }
            if self.found.len() >= 64 {
                self.stats.capped = true;
                return next;
            }
        }
        if count {
            self.stats.depth_completed = d + 1;
        }
        next
    }
}

/// Complete search to `depth`, striped over the worker processes at `split` (<= depth).
/// `worker` = Some((i, n)) in a worker process.
pub fn search<S: Sys + 'static>(make: Maker<S>, seed: u64, depth: usize, split: usize, dedup: bool, worker: Option<(usize, usize)>, selftest_k: u64, max_states: u64) -> Search<S> {
    let mut s = Search::new(make, seed, dedup, selftest_k);
    let (wi, wn) = worker.unwrap_or((0, 1));
    let lead = wi == 0;
    let Some(root) = s.root() else { return s };
    if !lead {
        s.stats = Stats::default();
        s.machinery.clear();
    }
    let mut frontier = vec![root];
    let split = split.min(depth);
    for d in 0..split {
        frontier = s.level(frontier, d, lead, max_states);
        if s.stats.capped {
            return s;
        }
    }
    // stripe
    let mut mine: Vec<Node<S::Act>> = Vec::new();
    for (i, n) in frontier.into_iter().enumerate() {
        if i % wn == wi {
            mine.push(n);
        }
    }
    let mut frontier = mine;
    let progress = std::env::var_os("VERIF_PROGRESS").is_some();
    let t0 = mc::report::real_now();
    for d in split..depth {
        if progress {
            eprintln!("[w{wi}] depth {d}: frontier {} states {} transitions {} t={:.1}s", frontier.len(), s.stats.states, s.stats.transitions, mc::report::real_now() - t0);
        }
        if frontier.is_empty() {
            // nothing left in this stripe: the remaining depths are trivially complete here
            s.stats.depth_completed = s.stats.depth_completed.max(depth);
            break;
        }
        frontier = s.level(frontier, d, true, max_states);
        if s.stats.capped {
            return s;
        }
    }
    s
}

/// Fold a search into the outcome. Violations carry `{"cfg":…, "history":…}` as replay case.
pub fn record<S: Sys>(out: &mut Outcome, cfg: &Value, s: &Search<S>, tag: &str) {
    let st = &s.stats;
    out.states += st.states;
    out.transitions += st.transitions;
    out.evaluations += st.executions;
    out.traces += st.executions;
    out.max("max_depth_completed", st.depth_completed as u64);
    out.max("max_frontier", st.max_frontier as u64);
    out.count("selftest_reexecutions", st.selftested);
    let salt = mc::report::hash_str(&format!("{cfg}{tag}"));
    for k in &st.nontrivial_keys {
        out.nontrivial_h(k ^ salt);
    }
    for (k, n) in &st.marks {
        out.count(k, *n);
    }
    for smp in &st.samples {
        out.sample(json!({"cfg": cfg, "history": smp}));
    }
    if st.capped {
        out.caps.push(format!("{tag}: cap hit after completing depth {} (cfg {cfg})", st.depth_completed));
        out.not_exhaustive = true;
    }
    for m in &s.machinery {
        out.machinery(format!("{m} (cfg {cfg})"));
    }
    for f in &s.found {
        let sig = mc::bfs::signature_of(&f.message);
        out.violation(sig, format!("{} after history {:?} (cfg {cfg})", f.message, f.history), json!({"cfg": cfg, "history": f.history}));
    }
}

/// Replay one recorded history; Some(message) if a violation reproduces.
pub fn replay<S: Sys + 'static>(make: Maker<S>, seed: u64, case: &Value) -> Result<Option<String>, String> {
    let hist: Vec<S::Act> = serde_json::from_value(case["history"].clone()).map_err(|e| format!("bad history in replay file: {e}"))?;
    match exec(&make, seed, &hist) {
        Ok(_) => Ok(None),
        Err(ExecErr::Violation(_, m, _)) => Ok(Some(m)),
        Err(ExecErr::Panic(p)) => Ok(Some(format!("panic {} :: {p}", p.rsplit(" at ").next().unwrap_or("")))),
    }
}
