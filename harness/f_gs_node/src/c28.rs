//! C28 — mesh membership respects eligibility rules (E2 over histories of one GsNode).
use crate::meshsys::Prop;
use mc::{Ctx, Meta, Outcome};

pub const META: Meta = Meta {
    level: "model_checking",
    rule: "BFS over histories of {connect, disconnect, Subscribe/Unsubscribe RPC (T1, T2, both), GRAFT RPC (T1, T2, both), PRUNE RPC (backoff none / 1 s / 2*prune_backoff), local subscribe/unsubscribe, application score -1/+10, advance 1 s / 5 s, heartbeat, 3 x (1 s + heartbeat)} against one real gossipsub Behaviour with 3 remote peers (ordinary v1.1/v1.0, floodsub, explicit) and 2 topics, mesh_n_high in {1,2}; every transition is one execution of the real behaviour on a fresh thread with owned entropy. Non-trivial = distinct reached states with a non-empty mesh.",
    explanation: "After every step: every mesh member is connected, gossipsub-kind, subscribed (as told by Subscribe/GRAFT) and not explicit; every addition (mesh diff) is of a peer that is not backed off per the reference (exact deadlines from PRUNEs received with a duration and PRUNEs sent with a backoff field read off the wire), had score >= 0 before the step and is not explicit; a GRAFT never takes a mesh from >= mesh_n_high to more. States deduplicated on reference model + every observable projection (mesh, fanout, peer details, backoff times, scores, handler flags); un-deduplicated companion search to a smaller depth.",
    assumptions: &[
        "3 peers / 2 topics / depth-bounded histories (small-scope)",
        "one connection per peer; protocol kind reported right after connection establishment",
        "reference backoff is the weakest defensible one: PRUNE without a duration and PRUNE sent to v1.0 peers without backoff field do not count",
        "backoff-slot indices of BackoffStorage are not part of the canonical key (covered by the un-deduplicated companion and by C32)",
    ],
};

pub fn run(ctx: &Ctx) -> Outcome {
    crate::meshrun::run(
        ctx,
        Prop::C28,
        &["add.Heartbeat", "add.SubscribeRpc", "add.GraftRpc", "add.LocalSubscribe", "graft.refused-mesh-full", "graft.refused-backoff", "graft.refused-negative-score", "graft.refused-explicit", "graft.from-floodsub", "prune-out.with-backoff", "prune-in", "add.Heartbeat.mesh-not-low", "heartbeat.outbound-quota-unmet-candidate-backed-off", "join-from-nonempty-fanout", "publish.fanout-nonempty"],
    )
}
