//! The **GsNode** seam: one real `gossipsub::Behaviour` driven standalone through the public
//! `NetworkBehaviour` trait. Connections are announced with `handle_established_*_connection`
//! (which returns the real `Handler`) + `FromSwarm::ConnectionEstablished`; inbound RPCs are
//! `kit::pb`-encoded wire bytes decoded by the real `GossipsubCodec` (hook) into the
//! `HandlerEvent` handed to `on_connection_handler_event`; outbound RPCs are popped from the
//! per-peer queue the way the handler pops them and encoded by the real codec (hook), then
//! parsed *independently* here with `kit::pb`. `ToSwarm::NotifyHandler` events are applied to the
//! real handler (`on_behaviour_event`), whose `connection_keep_alive()` exposes its `in_mesh`.

use kit::pb::{self, Field, W};
use libp2p_core::{transport::PortUse, ConnectedPoint, Endpoint};
use libp2p_gossipsub as gs;
use libp2p_gossipsub::verif_gs_node::{self as hook, Handler, HandlerIn, PeerKind};
use libp2p_identity::PeerId;
use libp2p_swarm::behaviour::{ConnectionClosed, ConnectionEstablished, FromSwarm};
use libp2p_swarm::{ConnectionHandler, ConnectionId, NetworkBehaviour, NotifyHandler, ToSwarm};
use std::collections::BTreeMap;
use std::task::{Context, Poll};
use std::time::Duration;

pub type Beh<D = gs::IdentityTransform> = gs::Behaviour<D>;

#[derive(Clone, Copy, Debug, PartialEq, Eq, serde::Serialize, serde::Deserialize)]
pub enum Kind {
    Flood,
    G10,
    G11,
    G12,
}
impl Kind {
    pub fn peer_kind(self) -> PeerKind {
        match self {
            Kind::Flood => PeerKind::Floodsub,
            Kind::G10 => PeerKind::Gossipsub,
            Kind::G11 => PeerKind::Gossipsubv1_1,
            Kind::G12 => PeerKind::Gossipsubv1_2,
        }
    }
    pub fn is_gossipsub(self) -> bool {
        self != Kind::Flood
    }
}

pub struct Conn {
    pub id: ConnectionId,
    pub handler: Handler,
    pub endpoint: ConnectedPoint,
}

#[derive(Clone, Copy, Debug, PartialEq, Eq)]
pub enum Note {
    Joined,
    Left,
}

pub struct GsNode<D = gs::IdentityTransform> {
    pub beh: Beh<D>,
    /// live connections per peer, oldest first (the order of `PeerDetails::connections`)
    pub conns: BTreeMap<PeerId, Vec<Conn>>,
    next_conn: usize,
    /// `ToSwarm::GenerateEvent`s drained so far (cleared by the caller)
    pub app_events: Vec<gs::Event>,
    /// JoinedMesh/LeftMesh notifications since the caller last cleared the list:
    /// (peer, what, delivered to the peer's live handler)
    pub notes: Vec<(PeerId, Note, bool)>,
    pub dials: u64,
    pub other_to_swarm: Vec<String>,
}

pub const TEN_YEARS: Duration = Duration::from_secs(10 * 365 * 24 * 3600);

impl<D: gs::DataTransform + Send + 'static> GsNode<D> {
    pub fn new(beh: Beh<D>) -> Self {
        let mut n = GsNode { beh, conns: BTreeMap::new(), next_conn: 1, app_events: vec![], notes: vec![], dials: 0, other_to_swarm: vec![] };
        n.pump();
        n
    }

    pub fn is_connected(&self, p: &PeerId) -> bool {
        self.conns.get(p).is_some_and(|v| !v.is_empty())
    }
    pub fn conn_count(&self, p: &PeerId) -> usize {
        self.conns.get(p).map_or(0, |v| v.len())
    }

    /// Establish a (further) connection to `peer` and report the negotiated protocol kind, as the
    /// handler does on its first poll after the first substream has been negotiated.
    pub fn connect(&mut self, peer: PeerId, outbound: bool, kind: Kind) {
        let other_established = self.conn_count(&peer);
        let id = ConnectionId::new_unchecked(self.next_conn);
        self.next_conn += 1;
        let remote = kit::ids::maddr(1000 + id_index(&peer) as u64);
        let local = kit::ids::maddr(1);
        let (handler, endpoint) = if outbound {
            let h = self.beh.handle_established_outbound_connection(id, peer, &remote, Endpoint::Dialer, PortUse::Reuse).expect("gossipsub never denies");
            (h, ConnectedPoint::Dialer { address: remote, role_override: Endpoint::Dialer, port_use: PortUse::Reuse })
        } else {
            let h = self.beh.handle_established_inbound_connection(id, peer, &local, &remote).expect("gossipsub never denies");
            (h, ConnectedPoint::Listener { local_addr: local, send_back_addr: remote })
        };
        self.beh.on_swarm_event(FromSwarm::ConnectionEstablished(ConnectionEstablished { peer_id: peer, connection_id: id, endpoint: &endpoint, failed_addresses: &[], other_established }));
        self.conns.entry(peer).or_default().push(Conn { id, handler, endpoint });
        self.beh.on_connection_handler_event(peer, id, hook::verif_peer_kind_event(kind.peer_kind()));
        self.pump();
    }

    /// close the `idx`-th oldest live connection of `peer`
    pub fn close(&mut self, peer: PeerId, idx: usize) {
        let Some(v) = self.conns.get_mut(&peer) else { return };
        if idx >= v.len() {
            return;
        }
        let c = v.remove(idx);
        let remaining_established = v.len();
        if v.is_empty() {
            self.conns.remove(&peer);
        }
        self.beh.on_swarm_event(FromSwarm::ConnectionClosed(ConnectionClosed { peer_id: peer, connection_id: c.id, endpoint: &c.endpoint, cause: None, remaining_established }));
        self.pump();
    }

    /// close every connection of `peer`, newest first
    pub fn disconnect(&mut self, peer: PeerId) {
        while self.conn_count(&peer) > 0 {
            let last = self.conn_count(&peer) - 1;
            self.close(peer, last);
        }
    }

    /// Feed wire bytes (length-prefixed frames) received from `peer` through the real codec into
    /// the behaviour. Err = the codec rejected the bytes (nothing delivered from the bad frame on).
    pub fn inject(&mut self, peer: PeerId, wire: &[u8]) -> Result<usize, String> {
        let Some(c) = self.conns.get(&peer).and_then(|v| v.first()) else { return Err("not connected".into()) };
        let id = c.id;
        let cfg = self.beh.verif_config().clone();
        let evs = hook::verif_decode(&cfg, wire)?;
        let n = evs.len();
        for ev in evs {
            self.beh.on_connection_handler_event(peer, id, ev);
        }
        self.pump();
        Ok(n)
    }

    pub fn heartbeat(&mut self) {
        self.beh.verif_heartbeat();
        self.pump();
    }

    /// Drain `Behaviour::poll` until `Pending`, routing `NotifyHandler` to the real handlers.
    pub fn pump(&mut self) {
        let w = futures::task::noop_waker();
        let mut cx = Context::from_waker(&w);
        let mut guard = 0;
        while let Poll::Ready(ev) = self.beh.poll(&mut cx) {
            guard += 1;
            assert!(guard < 100_000, "behaviour poll does not quiesce");
            match ev {
                ToSwarm::GenerateEvent(e) => self.app_events.push(e),
                ToSwarm::NotifyHandler { peer_id, handler, event } => {
                    let note = match &event {
                        HandlerIn::JoinedMesh => Note::Joined,
                        HandlerIn::LeftMesh => Note::Left,
                    };
                    // what the Swarm does: deliver to the addressed connection if it is still open
                    let target = self.conns.get_mut(&peer_id).and_then(|v| match handler {
                        NotifyHandler::Any => v.first_mut(),
                        NotifyHandler::One(id) => v.iter_mut().find(|c| c.id == id),
                    });
                    let delivered = match target {
                        Some(c) => {
                            c.handler.on_behaviour_event(event);
                            true
                        }
                        None => false,
                    };
                    self.notes.push((peer_id, note, delivered));
                }
                ToSwarm::Dial { .. } => self.dials += 1,
                other => self.other_to_swarm.push(format!("{other:?}").chars().take(60).collect()),
            }
        }
    }

    /// environment fault: the peer's connection stalls with a full control queue (hook)
    pub fn stall(&mut self, peer: &PeerId) -> usize {
        self.beh.verif_fill_control_queue(peer)
    }

    /// what the real handler of the peer's oldest live connection believes (`in_mesh`,
    /// observable as keep-alive)
    pub fn handler_in_mesh(&self, peer: &PeerId) -> Option<bool> {
        self.conns.get(peer).and_then(|v| v.first()).map(|c| c.handler.connection_keep_alive())
    }
    /// the belief of every live connection's handler, oldest connection first
    pub fn handlers_in_mesh(&self, peer: &PeerId) -> Vec<bool> {
        self.conns.get(peer).map(|v| v.iter().map(|c| c.handler.connection_keep_alive()).collect()).unwrap_or_default()
    }

    /// everything the behaviour queued for `peer`, in handler pop order, as wire frames
    pub fn drain_wire(&mut self, peer: &PeerId) -> Vec<Vec<u8>> {
        self.beh.verif_drain_wire(peer)
    }

    pub fn drain_parsed(&mut self, peer: &PeerId) -> Vec<WireRpc> {
        self.drain_wire(peer).iter().map(|f| parse_frame(f).expect("the node's own output parses")).collect()
    }

    pub fn mesh(&self) -> BTreeMap<String, Vec<PeerId>> {
        self.beh.verif_mesh()
    }
}

fn id_index(p: &PeerId) -> u8 {
    kit::ids::pidx(p).unwrap_or(255)
}

// ------------------------------------------------------------------------------------------
// independent wire encoding / parsing (kit::pb), field numbers from rpc.proto

#[derive(Clone, Debug, Default, PartialEq, Eq)]
pub struct WireMsg {
    pub from: Option<Vec<u8>>,
    pub data: Vec<u8>,
    pub seqno: Option<Vec<u8>>,
    pub topic: String,
}

#[derive(Clone, Debug, Default, PartialEq, Eq)]
pub struct WireRpc {
    pub subs: Vec<(bool, String)>,
    pub msgs: Vec<WireMsg>,
    pub grafts: Vec<String>,
    /// (topic, backoff seconds, number of PX peers)
    pub prunes: Vec<(String, Option<u64>, usize)>,
    pub ihave: Vec<(String, Vec<Vec<u8>>)>,
    pub iwant: Vec<Vec<u8>>,
    pub idontwant: Vec<Vec<u8>>,
    pub extensions: bool,
}

fn s(b: &[u8]) -> String {
    String::from_utf8_lossy(b).into_owned()
}

/// parse one length-prefixed frame
pub fn parse_frame(frame: &[u8]) -> Option<WireRpc> {
    let (len, n) = pb::read_varint(frame)?;
    if frame.len() != n + len as usize {
        return None;
    }
    parse_rpc(&frame[n..])
}

pub fn parse_rpc(body: &[u8]) -> Option<WireRpc> {
    let mut r = WireRpc::default();
    for f in pb::parse(body)? {
        match f {
            Field::Bytes(1, b) => {
                let mut sub = false;
                let mut topic = String::new();
                for g in pb::parse(&b)? {
                    match g {
                        Field::Uint(1, v) => sub = v != 0,
                        Field::Bytes(2, t) => topic = s(&t),
                        _ => {}
                    }
                }
                r.subs.push((sub, topic));
            }
            Field::Bytes(2, b) => {
                let mut m = WireMsg::default();
                for g in pb::parse(&b)? {
                    match g {
                        Field::Bytes(1, v) => m.from = Some(v),
                        Field::Bytes(2, v) => m.data = v,
                        Field::Bytes(3, v) => m.seqno = Some(v),
                        Field::Bytes(4, v) => m.topic = s(&v),
                        _ => {}
                    }
                }
                r.msgs.push(m);
            }
            Field::Bytes(3, b) => {
                for g in pb::parse(&b)? {
                    match g {
                        Field::Bytes(1, v) => {
                            let mut t = String::new();
                            let mut ids = vec![];
                            for h in pb::parse(&v)? {
                                match h {
                                    Field::Bytes(1, x) => t = s(&x),
                                    Field::Bytes(2, x) => ids.push(x),
                                    _ => {}
                                }
                            }
                            r.ihave.push((t, ids));
                        }
                        Field::Bytes(2, v) => {
                            for h in pb::parse(&v)? {
                                if let Field::Bytes(1, x) = h {
                                    r.iwant.push(x);
                                }
                            }
                        }
                        Field::Bytes(3, v) => {
                            for h in pb::parse(&v)? {
                                if let Field::Bytes(1, x) = h {
                                    r.grafts.push(s(&x));
                                }
                            }
                        }
                        Field::Bytes(4, v) => {
                            let mut t = String::new();
                            let mut backoff = None;
                            let mut px = 0;
                            for h in pb::parse(&v)? {
                                match h {
                                    Field::Bytes(1, x) => t = s(&x),
                                    Field::Bytes(2, _) => px += 1,
                                    Field::Uint(3, x) => backoff = Some(x),
                                    _ => {}
                                }
                            }
                            r.prunes.push((t, backoff, px));
                        }
                        Field::Bytes(5, v) => {
                            for h in pb::parse(&v)? {
                                if let Field::Bytes(1, x) = h {
                                    r.idontwant.push(x);
                                }
                            }
                        }
                        Field::Bytes(6, _) => r.extensions = true,
                        _ => {}
                    }
                }
            }
            _ => {}
        }
    }
    Some(r)
}

/// RPC with subscription entries `(subscribe?, topic)`
pub fn enc_subs(subs: &[(bool, &str)]) -> Vec<u8> {
    let mut w = W::new();
    for (sub, t) in subs {
        w = w.msg(1, &W::new().uint(1, *sub as u64).bytes(2, t.as_bytes()));
    }
    w.framed()
}

pub fn enc_grafts(topics: &[&str]) -> Vec<u8> {
    let mut c = W::new();
    for t in topics {
        c = c.msg(3, &W::new().bytes(1, t.as_bytes()));
    }
    W::new().msg(3, &c).framed()
}

/// PRUNE for several topics with one optional backoff (seconds)
pub fn enc_prunes(topics: &[&str], backoff: Option<u64>) -> Vec<u8> {
    let mut c = W::new();
    for t in topics {
        c = c.msg(4, &W::new().bytes(1, t.as_bytes()).opt_uint(3, backoff));
    }
    W::new().msg(3, &c).framed()
}

pub fn enc_publish(from: Option<&PeerId>, data: &[u8], seqno: Option<u64>, topic: &str) -> Vec<u8> {
    let mut m = W::new();
    if let Some(p) = from {
        m = m.bytes(1, &p.to_bytes());
    }
    m = m.bytes(2, data);
    if let Some(s) = seqno {
        m = m.bytes(3, &s.to_be_bytes());
    }
    m = m.bytes(4, topic.as_bytes());
    W::new().msg(2, &m).framed()
}
