//! Driver shared by C28 and C29: configurations, tiers, worker striping, vacuity guards.

use crate::explore::{self, Maker};
use crate::meshsys::{Cfg, MeshSys, Prop};
use mc::{json, Ctx, Outcome};
use std::sync::Arc;

pub fn maker(cfg: &Cfg, prop: Prop) -> Maker<MeshSys> {
    let cfg = cfg.clone();
    Arc::new(move || MeshSys::new(cfg.clone(), prop))
}

/// (cfg, bfs depth, dfs-companion depth)
pub fn plan(ctx: &Ctx) -> Vec<(Cfg, usize, usize)> {
    let mut v = Vec::new();
    let c = |roles: u8, mesh: u8, start: u8, seed: u64| Cfg { roles, mesh, start, seed, other: ((roles + mesh + start) % 3 + (seed / 11) as u8 + 2) % 3, faults: seed == 11 && ((roles == 0 && mesh == 2 && start == 3) || (roles == 0 && mesh == 1 && start == 1) || (roles == 2 && mesh == 1 && start == 3)) };
    if ctx.quick() {
        for (roles, mesh) in [(0u8, 1u8), (0, 2), (1, 2), (2, 3)] {
            v.push((c(roles, mesh, 1, 11), 3, 2));
        }
        v.push((c(0, 2, 0, 11), 4, 2));
        // prepared state "mesh_n_low inbound members, outbound quota unmet"
        v.push((c(0, 3, 2, 11), 3, 2));
        // prepared state "peers subscribed, node not" (publishes fill the fanout; JOIN starts from it)
        v.push((c(0, 2, 3, 11), 3, 2));
    } else {
        for seed in [11u64, 22, 33, 44] {
            for roles in [0u8, 1, 2] {
                // entropy seeds 33 and 44 only for the configuration with two ordinary peers
                // (roles 0), where peer sampling has a real choice
                if seed >= 33 && roles != 0 {
                    continue;
                }
                for mesh in [1u8, 2, 3] {
                    v.push((c(roles, mesh, 1, seed), 4, 3));
                }
            }
        }
        for seed in [11u64, 22] {
            for roles in [0u8, 2] {
                v.push((c(roles, 3, 2, seed), 4, 3));
            }
        }
        for seed in [11u64, 22] {
            for (roles, mesh) in [(0u8, 2u8), (0, 3), (2, 1)] {
                v.push((c(roles, mesh, 3, seed), 4, 3));
            }
        }
        v.push((c(0, 2, 1, 11), 5, 3));
        v.push((c(0, 1, 0, 11), 6, 3));
    }
    if let Ok(d) = std::env::var("GS_DEBUG_PLAN") {
        let x: Vec<u64> = d.split(',').map(|x| x.parse().unwrap()).collect();
        v = vec![(c(x[0] as u8, x[1] as u8, x[2] as u8, 11), x[3] as usize, x[4] as usize)];
    }
    // VERIF_SEED only rotates the order in which the configurations are visited
    let n = v.len();
    v.rotate_left((ctx.seed as usize) % n);
    v
}

pub fn run(ctx: &Ctx, prop: Prop, guards: &[&str]) -> Outcome {
    if let Some(case) = &ctx.replay {
        let mut out = Outcome::default();
        out.evaluations = 1;
        match serde_json::from_value::<Cfg>(case["cfg"].clone()) {
            Ok(cfg) => match explore::replay(maker(&cfg, prop), cfg.seed, case) {
                Ok(Some(m)) => out.violation(mc::bfs::signature_of(&m), m, case.clone()),
                Ok(None) => {}
                Err(e) => out.machinery(e),
            },
            Err(e) => out.machinery(format!("bad cfg in replay file: {e}")),
        }
        return out;
    }
    let plan = plan(ctx);
    let k = ctx.tier.pick(8, 32);
    let mut out = mc::workers(ctx, 16, |ctx| {
        let mut out = Outcome::default();
        for (cfg, depth, ddepth) in &plan {
            let cj = json!(cfg);
            let s = explore::search(maker(cfg, prop), cfg.seed, *depth, 2, true, ctx.worker, k, 0);
            explore::record(&mut out, &cj, &s, "bfs");
            // un-deduplicated companion: every action sequence to a smaller depth
            let d = explore::search(maker(cfg, prop), cfg.seed, *ddepth, 1, false, ctx.worker, 0, 0);
            out.count("dfs_companion_sequences", d.stats.transitions);
            let mut d2 = d;
            d2.stats.nontrivial_keys.clear();
            d2.stats.marks.clear();
            d2.stats.states = 0;
            explore::record(&mut out, &cj, &d2, "dfs-companion");
            out.count("configurations", if ctx.worker.map_or(true, |w| w.0 == 0) { 1 } else { 0 });
        }
        out
    });
    for g in guards {
        if out.get(g) == 0 {
            out.machinery(format!("vacuity guard: counter '{g}' is zero — the situation the oracle judges never occurred"));
        }
    }
    out.notes.push(format!("configurations (roles, mesh params, start, seed, third-topic name) x depth: {:?}", plan.iter().map(|(c, d, dd)| format!("r{}m{}s{}e{}o{}{}:d{}/{}", c.roles, c.mesh, c.start, c.seed, c.other, if c.faults { "F" } else { "" }, d, dd)).collect::<Vec<_>>()));
    out.notes.push("state counts are summed over 16 worker stripes (states first reached in two stripes are counted in both); distinct_nontrivial is a set union".into());
    out
}
