//! Family binary: gossipsub behaviour-level properties (C27, C28, C29, C35) on the GsNode seam.
mod c28;
mod c29;
mod explore;
mod meshrun;
mod meshsys;
mod node;

fn main() {
    mc::main_dispatch(&[("C28", c28::run, c28::META), ("C29", c29::run, c29::META)]);
}

