//! Family binary (checks are registered here).

fn main() {
    mc::main_dispatch(&[]);
}
