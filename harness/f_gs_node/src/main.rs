//! Family binary: gossipsub behaviour-level properties (C27, C28, C29, C35) on the GsNode seam.
mod c27;
mod c28;
mod c29;
mod c35;
mod explore;
mod fresh;
mod meshrun;
mod meshsys;
mod node;

fn main() {
    mc::main_dispatch(&[("C27", c27::run, c27::META), ("C28", c28::run, c28::META), ("C29", c29::run, c29::META), ("C35", c35::run, c35::META)]);
}

