//! "Fresh thread" semantics without creating a thread per execution.
//!
//! `mc::isolated` gives every execution a fresh OS thread so that the two per-thread sources of
//! randomness gossipsub reads are in a known state: (1) std's `RandomState` keys (thread-local
//! `KEYS`, drawn once per thread from `getrandom`, `k0` incremented per `RandomState::new()`),
//! (2) `rand`'s `ThreadRng` (thread-local ChaCha seeded from `getrandom`). On this machine task
//! creation is the bottleneck (clone/exit contend on kernel-global locks; with 16 workers an
//! execution cost tens of milliseconds of system time), so this module re-initialises exactly
//! those two thread-locals in place instead:
//!
//! * `ThreadRng`: `rand::rng().reseed()` right after `mc::entropy::reset(seed)` — public API.
//! * `RandomState` keys: std offers no setter. The `KEYS` cell lives in the executable's static
//!   TLS block; it is located once per thread by drawing two `RandomState`s (their two private
//!   u64 fields are read by transmute; the field that moved by one is `k0`) and scanning the
//!   block (`dl_iterate_phdr` -> `dlpi_tls_data`, PT_TLS `p_memsz`) for the adjacent pair
//!   `(k0 + 1, k1)`. Afterwards the cell is overwritten before every execution and the write is
//!   verified by drawing a `RandomState` and comparing.
//!
//! If the cell cannot be located or verification fails, `available()` is false and callers fall
//! back to one pristine thread per execution (`explore::isolated`). The search additionally
//! re-runs its first executions on real fresh OS threads (which apply the same initialisation,
//! `reset`, at their start) and requires the same canonical state: any *other* per-thread state
//! that leaked from earlier executions into an in-place execution would show up as a difference.

use std::cell::Cell;
use std::hash::RandomState;

thread_local! {
    /// address of this thread's std `KEYS` cell (as *mut u64 pointing at k0) and of k1
    static SLOT: Cell<Option<(usize, usize)>> = const { Cell::new(None) };
    static TRIED: Cell<bool> = const { Cell::new(false) };
}

fn draw() -> (u64, u64) {
    // RandomState is `struct { k0: u64, k1: u64 }` (two u64, no padding); field order in memory
    // is not guaranteed, which `locate` accounts for.
    let rs = RandomState::new();
    assert_eq!(std::mem::size_of::<RandomState>(), 16);
    unsafe { std::mem::transmute::<RandomState, (u64, u64)>(rs) }
}

unsafe extern "C" fn phdr_cb(info: *mut libc::dl_phdr_info, _size: libc::size_t, data: *mut libc::c_void) -> libc::c_int {
    let info = &*info;
    let out = &mut *(data as *mut Vec<(usize, usize)>);
    if info.dlpi_tls_data.is_null() {
        return 0;
    }
    for i in 0..info.dlpi_phnum as usize {
        let ph = &*info.dlpi_phdr.add(i);
        if ph.p_type == libc::PT_TLS {
            out.push((info.dlpi_tls_data as usize, ph.p_memsz as usize));
        }
    }
    0
}

fn locate() -> Option<(usize, usize)> {
    let a = draw();
    let b = draw();
    // which component is k0 (incremented by one per draw)?
    let (k0_next, k1, k0_first) = if b.0 == a.0.wrapping_add(1) && b.1 == a.1 {
        (b.0.wrapping_add(1), b.1, true)
    } else if b.1 == a.1.wrapping_add(1) && b.0 == a.0 {
        (b.1.wrapping_add(1), b.0, false)
    } else {
        return None;
    };
    let _ = k0_first;
    let mut blocks: Vec<(usize, usize)> = Vec::new();
    unsafe { libc::dl_iterate_phdr(Some(phdr_cb), &mut blocks as *mut _ as *mut libc::c_void) };
    let mut hits = Vec::new();
    for (base, len) in blocks {
        let mut off = 0usize;
        while off + 16 <= len {
            let p = (base + off) as *const u64;
            let (x, y) = unsafe { (p.read_volatile(), p.add(1).read_volatile()) };
            if x == k0_next && y == k1 {
                hits.push((base + off, base + off + 8));
            } else if x == k1 && y == k0_next {
                hits.push((base + off + 8, base + off));
            }
            off += 8;
        }
    }
    if hits.len() == 1 {
        Some(hits[0])
    } else {
        None
    }
}

fn set_keys(slot: (usize, usize), k0: u64, k1: u64) -> bool {
    unsafe {
        (slot.0 as *mut u64).write_volatile(k0);
        (slot.1 as *mut u64).write_volatile(k1);
    }
    // verify: the next RandomState must carry exactly these keys
    let d = draw();
    let ok = (d.0 == k0 && d.1 == k1) || (d.0 == k1 && d.1 == k0);
    // put k0 back (the draw advanced it)
    unsafe { (slot.0 as *mut u64).write_volatile(k0) };
    ok
}

/// Can this thread be re-initialised in place?
pub fn available() -> bool {
    if std::env::var_os("GS_FRESH_THREADS").is_some() {
        return false;
    }
    if !TRIED.with(|t| t.replace(true)) {
        let s = locate();
        let ok = s.is_some_and(|s| set_keys(s, 0x1111_2222_3333_4444, 0x5555_6666_7777_8888));
        SLOT.with(|c| c.set(if ok { s } else { None }));
    }
    SLOT.with(|c| c.get()).is_some()
}

fn splitmix(mut z: u64) -> u64 {
    z = z.wrapping_add(0x9e3779b97f4a7c15);
    z = (z ^ (z >> 30)).wrapping_mul(0xbf58476d1ce4e5b9);
    z = (z ^ (z >> 27)).wrapping_mul(0x94d049bb133111eb);
    z ^ (z >> 31)
}

/// Put the calling thread into the state "fresh thread, entropy stream `seed`, virtual clock at
/// its origin". Returns false if the in-place reset is not available or could not be verified.
pub fn reset(seed: u64) -> bool {
    if !available() {
        return false;
    }
    mc::shim::arm();
    // make sure the thread's ThreadRng exists *before* the entropy stream is rewound: its lazy
    // first initialisation draws a seed of its own, which would shift the stream on a new thread
    let mut rng = rand::rng();
    mc::entropy::reset(seed);
    mc::vclock::reset();
    let slot = SLOT.with(|c| c.get()).expect("available");
    if !set_keys(slot, splitmix(seed ^ 0xA5A5), splitmix(seed ^ 0x5A5A)) {
        SLOT.with(|c| c.set(None));
        return false;
    }
    rng.reseed().is_ok()
}
