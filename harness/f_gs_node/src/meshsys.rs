//! The exploration shared by C28 (mesh eligibility) and C29 (handler mesh flag): one GsNode,
//! three remote peers, two topics; actions = connect / disconnect / Subscribe / Unsubscribe /
//! GRAFT / PRUNE RPCs, local subscribe / unsubscribe, application score, clock advance,
//! heartbeat. Which oracle is evaluated is selected by `Prop`; the other property's
//! observations are ignored so that a finding of one cannot block paths of the other.

use crate::explore::Sys;
use crate::node::{self, GsNode, Kind, Note, TEN_YEARS};
use kit::ids::peer;
use libp2p_gossipsub as gs;
use libp2p_identity::PeerId;
use serde::{Deserialize, Serialize};
use std::collections::{BTreeMap, BTreeSet};
use std::time::{Duration, Instant};

pub const TOPICS: [&str; 2] = ["T1", "T2"];
pub const HEARTBEAT: Duration = Duration::from_secs(1);
pub const PRUNE_BACKOFF_S: u64 = 4;
pub const UNSUB_BACKOFF_S: u64 = 2;
/// cap the behaviour documents for remote PRUNE backoffs (MAX_REMOTE_PRUNE_BACKOFF_SECONDS)
pub const MAX_REMOTE_BACKOFF_S: u64 = 3600;

#[derive(Clone, Copy, Debug, PartialEq, Eq)]
pub enum Prop {
    C28,
    C29,
}

#[derive(Clone, Debug, Serialize, Deserialize, PartialEq)]
pub struct Cfg {
    /// 0: P1 G1.1 out, P2 G1.1 in, P3 G1.1 in explicit
    /// 1: P1 G1.1 out, P2 floodsub in, P3 G1.1 in explicit
    /// 2: P1 G1.0 out, P2 G1.1 in, P3 floodsub in
    pub roles: u8,
    /// mesh parameters (outbound_min, n_low, n, n_high): 1 = (0,1,1,1), 2 = (0,1,1,2), 3 = (1,1,2,2)
    /// (4 = (0,3,3,4) is used by C27 only)
    pub mesh: u8,
    /// 0: empty start; 1: locally subscribed to T1,T2 and all three peers connected;
    /// 3: all three peers connected, P1 and P2 subscribed to both topics, the node itself
    ///    subscribed to nothing (the fanout situation: publishes go to fanout peers);
    /// 2: as 1, then P2 (inbound) subscribed to both topics (and grafted), then P1 (outbound)
    ///    subscribed to both topics — with mesh parameters 3 this is the state in which the mesh
    ///    has mesh_n_low members but fewer than mesh_outbound_min outbound ones
    pub start: u8,
    /// entropy seed of every execution of this configuration
    pub seed: u64,
    /// name of the third topic, which only remote peers subscribe to (we never do): 0 = "A0"
    /// (sorts before T1, T2), 1 = "T15" (between T1 and T2), 2 = "Z9" (after both)
    #[serde(default)]
    pub other: u8,
    /// offer the environment-fault action `Stall` (costly: 20 000 queue entries per execution
    /// that uses it), enabled in a few configurations only
    #[serde(default)]
    pub faults: bool,
}

pub fn other_topic(o: u8) -> &'static str {
    match o {
        0 => "A0",
        1 => "T15",
        _ => "Z9",
    }
}

#[derive(Clone, Copy, Debug)]
pub struct Role {
    pub kind: Kind,
    pub outbound: bool,
    pub explicit: bool,
}

pub fn roles(r: u8) -> [Role; 3] {
    let g = |kind, outbound, explicit| Role { kind, outbound, explicit };
    match r {
        0 => [g(Kind::G11, true, false), g(Kind::G11, false, false), g(Kind::G11, false, true)],
        1 => [g(Kind::G11, true, false), g(Kind::Flood, false, false), g(Kind::G11, false, true)],
        _ => [g(Kind::G10, true, false), g(Kind::G11, false, false), g(Kind::Flood, false, false)],
    }
}

pub fn mesh_params(m: u8) -> (usize, usize, usize, usize) {
    match m {
        1 => (0, 1, 1, 1),
        2 => (0, 1, 1, 2),
        4 => (0, 3, 3, 4),
        _ => (1, 1, 2, 2),
    }
}

#[derive(Clone, Copy, Debug, Serialize, Deserialize, PartialEq, Eq)]
pub enum Act {
    Connect(u8),
    Disconnect(u8),
    /// establish a second connection to an already connected peer
    Connect2(u8),
    /// close the i-th oldest (0 or 1) of a peer's two connections
    Close(u8, u8),
    /// peer, topic mask (1 = T1, 2 = T2, 3 = both in one RPC)
    Sub(u8, u8),
    Unsub(u8, u8),
    Graft(u8, u8),
    /// peer, topic mask, backoff kind: 0 = no backoff field, 1 = 1 s, 2 = 2 * prune_backoff
    Prune(u8, u8, u8),
    LocalSub(u8),
    LocalUnsub(u8),
    /// application score: -1 or +10
    Score(u8, i8),
    /// 0 = one heartbeat interval (1 s), 1 = 5 s (> prune_backoff + slack)
    Advance(u8),
    Heartbeat,
    /// three times (advance one interval, heartbeat)
    Ticks,
    /// environment fault: the peer's connection stalls (its handler stops draining) and its
    /// bounded control queue is full; lasts until the peer disconnects
    Stall(u8),
    /// the application publishes to topic t (offered while the node is not subscribed to t, so
    /// that the fanout is used and a later JOIN starts from a non-empty fanout)
    Publish(u8),
}

impl Act {
    fn kind(&self) -> &'static str {
        match self {
            Act::Connect(_) => "Connect",
            Act::Disconnect(_) => "Disconnect",
            Act::Connect2(_) => "SecondConnection",
            Act::Close(_, 0) => "CloseOldestConnection",
            Act::Close(..) => "CloseNewestConnection",
            Act::Sub(..) => "SubscribeRpc",
            Act::Unsub(..) => "UnsubscribeRpc",
            Act::Graft(..) => "GraftRpc",
            Act::Prune(..) => "PruneRpc",
            Act::LocalSub(_) => "LocalSubscribe",
            Act::LocalUnsub(_) => "LocalUnsubscribe",
            Act::Score(..) => "Score",
            Act::Advance(_) => "Advance",
            Act::Heartbeat | Act::Ticks => "Heartbeat",
            Act::Publish(_) => "Publish",
            Act::Stall(_) => "StallConnection",
        }
    }
}

pub fn make_config(mesh: u8, flood_publish: bool) -> gs::Config {
    make_config_v(mesh, flood_publish, false)
}

/// as `make_config`; `validate` = the application validates messages before they are forwarded
pub fn make_config_v(mesh: u8, flood_publish: bool, validate: bool) -> gs::Config {
    config_builder(mesh, flood_publish, validate).build().expect("valid config")
}

/// the builder behind `make_config_v` (so that a check can add e.g. a message-id function)
pub fn config_builder(mesh: u8, flood_publish: bool, validate: bool) -> gs::ConfigBuilder {
    let (omin, low, n, high) = mesh_params(mesh);
    let mut b = gs::ConfigBuilder::default();
    if validate {
        b.validate_messages();
    }
    b.heartbeat_interval(HEARTBEAT)
        .heartbeat_initial_delay(TEN_YEARS)
        .mesh_outbound_min(omin)
        .mesh_n_low(low)
        .mesh_n(n)
        .mesh_n_high(high)
        .prune_backoff(Duration::from_secs(PRUNE_BACKOFF_S))
        .unsubscribe_backoff(Duration::from_secs(UNSUB_BACKOFF_S))
        .backoff_slack(1)
        .graft_flood_threshold(Duration::from_secs(1))
        .opportunistic_graft_ticks(1)
        .flood_publish(flood_publish)
        .validation_mode(gs::ValidationMode::Permissive)
        .publish_queue_duration(TEN_YEARS)
        .forward_queue_duration(TEN_YEARS);
    b
}

pub fn score_params() -> (gs::PeerScoreParams, gs::PeerScoreThresholds) {
    let p = gs::PeerScoreParams {
        app_specific_weight: 1.0,
        ip_colocation_factor_weight: 0.0,
        behaviour_penalty_weight: -1.0,
        behaviour_penalty_threshold: 0.0,
        behaviour_penalty_decay: 0.9,
        decay_interval: TEN_YEARS,
        retain_score: Duration::from_secs(3600),
        slow_peer_weight: 0.0,
        ..Default::default()
    };
    (p, gs::PeerScoreThresholds::default())
}

fn topic(i: u8) -> gs::IdentTopic {
    gs::IdentTopic::new(TOPICS[i as usize])
}
fn thash(i: u8) -> gs::TopicHash {
    topic(i).hash()
}
fn mask_topics(mask: u8) -> Vec<u8> {
    (0..2u8).filter(|t| mask & (1 << t) != 0).collect()
}

pub struct MeshSys {
    pub prop: Prop,
    pub cfg: Cfg,
    roles: [Role; 3],
    high: usize,
    pub node: GsNode,
    // ---- reference model
    connected: [bool; 3],
    /// the remote's subscriptions as the node was told (Subscribe/Unsubscribe RPC; a GRAFT
    /// implies a subscription)
    subs: [[bool; 2]; 3],
    local: [bool; 2],
    app: [i8; 3],
    /// the remote's subscription to the third topic
    other_sub: [bool; 3],
    /// peers whose send queue is stalled and full (never drained by the harness)
    stalled: [bool; 3],
    published: u32,
    /// reference backoff: (peer, topic) -> absolute virtual ns until which the pair is backed off
    deadline: BTreeMap<(u8, u8), u64>,
    marks: Vec<String>,
}

fn pid(i: u8) -> PeerId {
    peer(i + 1)
}

impl MeshSys {
    pub fn new(cfg: Cfg, prop: Prop) -> Self {
        let config = make_config(cfg.mesh, false);
        let mut beh = gs::Behaviour::new(gs::MessageAuthenticity::Author(peer(0)), config).expect("behaviour");
        let (sp, st) = score_params();
        beh.with_peer_score(sp, st).expect("score params");
        let rl = roles(cfg.roles);
        for (i, r) in rl.iter().enumerate() {
            if r.explicit {
                beh.add_explicit_peer(&pid(i as u8));
            }
        }
        let high = mesh_params(cfg.mesh).3;
        let mut s = MeshSys { prop, cfg: cfg.clone(), roles: rl, high, node: GsNode::new(beh), connected: [false; 3], subs: [[false; 2]; 3], local: [false; 2], app: [0; 3], other_sub: [false; 3], stalled: [false; 3], published: 0, deadline: BTreeMap::new(), marks: vec![] };
        if cfg.start == 3 {
            for a in [Act::Connect(0), Act::Connect(1), Act::Connect(2), Act::Sub(0, 3), Act::Sub(1, 3)] {
                if let Err(m) = s.step(&a) {
                    panic!("preamble violates the oracle: {m}");
                }
            }
        } else if cfg.start >= 1 {
            let mut pre = vec![Act::LocalSub(0), Act::LocalSub(1), Act::Connect(0), Act::Connect(1), Act::Connect(2)];
            if cfg.start == 2 {
                pre.push(Act::Sub(1, 3));
                pre.push(Act::Sub(0, 3));
            }
            for a in pre {
                if let Err(m) = s.step(&a) {
                    panic!("preamble violates the oracle: {m}");
                }
            }
        }
        s
    }

    fn mesh_sets(&self) -> [BTreeSet<u8>; 2] {
        let m = self.node.mesh();
        let mut out = [BTreeSet::new(), BTreeSet::new()];
        for (t, set) in out.iter_mut().enumerate() {
            if let Some(v) = m.get(TOPICS[t]) {
                for p in v {
                    // unknown peers map to 200+ so that they are still reported
                    set.insert(kit::ids::pidx(p).map(|i| i.wrapping_sub(1)).unwrap_or(200));
                }
            }
        }
        out
    }

    fn score(&self, p: u8) -> Option<f64> {
        self.node.beh.peer_score(&pid(p))
    }

    fn backed_off(&self, p: u8, t: u8, now: u64) -> bool {
        self.deadline.get(&(p, t)).is_some_and(|d| now < *d)
    }

    fn apply(&mut self, a: &Act) {
        let now = mc::vclock::now_ns();
        match *a {
            Act::Connect(p) => {
                let r = self.roles[p as usize];
                self.node.connect(pid(p), r.outbound, r.kind);
                self.connected[p as usize] = true;
            }
            Act::Connect2(p) => {
                let r = self.roles[p as usize];
                self.node.connect(pid(p), r.outbound, r.kind);
            }
            Act::Close(p, i) => self.node.close(pid(p), i as usize),
            Act::Disconnect(p) => {
                self.node.disconnect(pid(p));
                self.connected[p as usize] = false;
                self.subs[p as usize] = [false; 2];
                self.other_sub[p as usize] = false;
                self.stalled[p as usize] = false;
            }
            Act::Sub(p, mask) | Act::Unsub(p, mask) => {
                let sub = matches!(a, Act::Sub(..));
                let ts = mask_topics(mask);
                let mut entries: Vec<(bool, &str)> = ts.iter().map(|t| (sub, TOPICS[*t as usize])).collect();
                if mask & 4 != 0 {
                    entries.push((sub, other_topic(self.cfg.other)));
                    self.other_sub[p as usize] = sub;
                }
                self.node.inject(pid(p), &node::enc_subs(&entries)).expect("well-formed rpc");
                for t in ts {
                    self.subs[p as usize][t as usize] = sub;
                }
            }
            Act::Graft(p, mask) => {
                let ts = mask_topics(mask);
                let names: Vec<&str> = ts.iter().map(|t| TOPICS[*t as usize]).collect();
                self.node.inject(pid(p), &node::enc_grafts(&names)).expect("well-formed rpc");
                // a peer that grafts is subscribed (gossipsub spec: GRAFT is only sent for topics
                // the sender is subscribed to; the behaviour records exactly that). If the RPC was
                // dropped because the peer is graylisted the node learnt nothing, but then it
                // cannot have added the peer either.
                for t in ts {
                    self.subs[p as usize][t as usize] = true;
                }
            }
            Act::Prune(p, mask, bk) => {
                let ts = mask_topics(mask);
                let names: Vec<&str> = ts.iter().map(|t| TOPICS[*t as usize]).collect();
                let backoff = match bk {
                    0 => None,
                    1 => Some(1),
                    _ => Some(2 * PRUNE_BACKOFF_S),
                };
                // Is the RPC processed at all? A graylisted peer's control messages are dropped;
                // the reference only counts durations the node really *received* (processed).
                let graylisted = self.score(p).is_some_and(|s| s < gs::PeerScoreThresholds::default().graylist_threshold);
                self.node.inject(pid(p), &node::enc_prunes(&names, backoff)).expect("well-formed rpc");
                if let (Some(b), false) = (backoff, graylisted) {
                    // weakest defensible reference: only an explicit duration counts
                    let d = now + b.min(MAX_REMOTE_BACKOFF_S) * 1_000_000_000;
                    for t in ts {
                        let e = self.deadline.entry((p, t)).or_insert(0);
                        *e = (*e).max(d);
                    }
                }
                self.marks.push("prune-in".into());
            }
            Act::LocalSub(t) => {
                self.node.beh.subscribe(&topic(t)).expect("subscribe");
                self.node.pump();
                self.local[t as usize] = true;
            }
            Act::LocalUnsub(t) => {
                self.node.beh.unsubscribe(&topic(t));
                self.node.pump();
                self.local[t as usize] = false;
            }
            Act::Score(p, v) => {
                self.node.beh.set_application_score(&pid(p), v as f64);
                self.node.pump();
                self.app[p as usize] = v;
            }
            Act::Advance(k) => mc::vclock::advance(if k == 0 { HEARTBEAT } else { Duration::from_secs(5) }),
            Act::Heartbeat => self.node.heartbeat(),
            Act::Ticks => unreachable!("handled by step"),
            Act::Stall(p) => {
                // first take out what a live handler would already have sent
                let _ = self.node.drain_wire(&pid(p));
                let n = self.node.stall(&pid(p));
                assert!(n > 0, "control queue was already full");
                self.stalled[p as usize] = true;
            }
            Act::Publish(t) => {
                self.published += 1;
                if !self.node.beh.verif_fanout().get(TOPICS[t as usize]).map_or(true, |f| f.is_empty()) {
                    self.marks.push("publish.with-existing-fanout".into());
                }
                let _ = self.node.beh.publish(thash(t), format!("m{}", self.published).into_bytes());
                self.node.pump();
                if !self.node.beh.verif_fanout().get(TOPICS[t as usize]).map_or(true, |f| f.is_empty()) {
                    self.marks.push("publish.fanout-nonempty".into());
                }
            }
        }
    }

    /// one atomic behaviour step + observation + oracle
    fn micro(&mut self, a: &Act) -> Result<(), String> {
        let now = mc::vclock::now_ns();
        let before = self.mesh_sets();
        let score_before: Vec<Option<f64>> = (0..3).map(|p| self.score(p)).collect();
        let deadline_before = self.deadline.clone();
        let inow = Instant::now();
        let code_backoff: Vec<Vec<bool>> = (0..3u8).map(|p| (0..2u8).map(|t| self.node.beh.verif_backoff_time(&thash(t), &pid(p)).is_some_and(|b| b > inow)).collect()).collect();
        self.node.notes.clear();
        self.node.app_events.clear();
        if let Act::LocalSub(t) = *a {
            if !self.node.beh.verif_fanout().get(TOPICS[t as usize]).map_or(true, |f| f.is_empty()) {
                self.marks.push("join-from-nonempty-fanout".into());
            }
        }
        if matches!(a, Act::Prune(..) | Act::Unsub(..) | Act::LocalUnsub(_) | Act::Heartbeat) {
            // a removal step while some peer is subscribed to the third topic (which has no mesh)
            for p in 0..3u8 {
                if self.other_sub[p as usize] && before.iter().filter(|m| m.contains(&p)).count() == 2 {
                    self.marks.push("step-with-peer-in-two-meshes-and-unshared-topic".into());
                }
            }
        }
        self.apply(a);
        let now_after = mc::vclock::now_ns();
        // ---- what went out on the wire
        for p in 0..3u8 {
            if !self.connected[p as usize] || self.stalled[p as usize] {
                // a stalled connection's handler does not take anything out of the queue
                continue;
            }
            for rpc in self.node.drain_parsed(&pid(p)) {
                for (t, backoff, _px) in &rpc.prunes {
                    let Some(ti) = TOPICS.iter().position(|x| x == t) else { continue };
                    match backoff {
                        Some(b) => {
                            let d = now_after + b * 1_000_000_000;
                            let e = self.deadline.entry((p, ti as u8)).or_insert(0);
                            *e = (*e).max(d);
                            self.marks.push("prune-out.with-backoff".into());
                        }
                        None => self.marks.push("prune-out.no-backoff".into()),
                    }
                }
                if !rpc.grafts.is_empty() {
                    self.marks.push("graft-out".into());
                }
            }
        }
        let after = self.mesh_sets();
        let via = a.kind();
        // ---- bookkeeping shared by both oracles (marks)
        let mut added: Vec<(u8, u8)> = vec![];
        let mut removed: Vec<(u8, u8)> = vec![];
        for t in 0..2u8 {
            for p in after[t as usize].difference(&before[t as usize]) {
                added.push((*p, t));
            }
            for p in before[t as usize].difference(&after[t as usize]) {
                removed.push((*p, t));
            }
        }
        for (p, _) in &added {
            self.marks.push(format!("add.{via}"));
            if *p < 3 && self.stalled[*p as usize] {
                self.marks.push(format!("add-stalled-peer.{via}"));
            }
        }
        if matches!(a, Act::Heartbeat) {
            let (omin, low, _, _) = mesh_params(self.cfg.mesh);
            for t in 0..2u8 {
                if !self.local[t as usize] {
                    continue;
                }
                let b = &before[t as usize];
                let outbound_members = b.iter().filter(|p| **p < 3 && self.roles[**p as usize].outbound).count();
                if b.len() >= low {
                    if added.iter().any(|x| x.1 == t) {
                        // mesh was not low: the outbound-quota (or opportunistic) selection added
                        self.marks.push("add.Heartbeat.mesh-not-low".into());
                    }
                    if outbound_members < omin {
                        for p in 0..3u8 {
                            let r = self.roles[p as usize];
                            if r.outbound && !r.explicit && r.kind.is_gossipsub() && self.connected[p as usize] && self.subs[p as usize][t as usize] && !b.contains(&p) && deadline_before.get(&(p, t)).is_some_and(|d| now < *d) {
                                // the situation of interest: quota unmet and the outbound
                                // candidate is backed off (must not be grafted)
                                self.marks.push("heartbeat.outbound-quota-unmet-candidate-backed-off".into());
                            }
                        }
                    }
                }
            }
        }
        for (_, _) in &removed {
            self.marks.push(format!("remove.{via}"));
        }
        for p in 0..3u8 {
            let na = added.iter().filter(|x| x.0 == p).count();
            let nr = removed.iter().filter(|x| x.0 == p).count();
            if na >= 2 {
                self.marks.push(format!("multi-add.{via}"));
            }
            if nr >= 2 {
                self.marks.push(format!("multi-remove.{via}"));
            }
        }
        if let Act::Close(p, i) = *a {
            if before.iter().any(|s| s.contains(&p)) {
                self.marks.push(if i == 0 { "close-oldest-connection-of-mesh-peer".into() } else { "close-newest-connection-of-mesh-peer".into() });
            }
        }
        for (_, n, delivered) in &self.node.notes {
            if *delivered {
                self.marks.push(if *n == Note::Joined { "note.joined".into() } else { "note.left".into() });
            }
        }
        if let Act::Graft(p, mask) = *a {
            for t in mask_topics(mask) {
                let was_in = before[t as usize].contains(&p);
                let is_in = after[t as usize].contains(&p);
                let r = self.roles[p as usize];
                let m = if was_in {
                    "graft.already-member"
                } else if is_in {
                    "graft.accepted"
                } else if r.explicit {
                    "graft.refused-explicit"
                } else if !self.local[t as usize] {
                    "graft.refused-not-subscribed-locally"
                } else if deadline_before.get(&(p, t)).is_some_and(|d| now < *d) {
                    "graft.refused-backoff"
                } else if score_before[p as usize].is_some_and(|s| s < 0.0) {
                    "graft.refused-negative-score"
                } else if before[t as usize].len() >= self.high {
                    "graft.refused-mesh-full"
                } else if code_backoff[p as usize][t as usize] {
                    // the behaviour's own backoff is stricter than the reference (e.g. PRUNE
                    // received without a duration counts as prune_backoff)
                    "graft.refused-backoff-beyond-reference"
                } else {
                    "graft.refused-other"
                };
                self.marks.push(m.into());
                if !r.kind.is_gossipsub() {
                    self.marks.push("graft.from-floodsub".into());
                }
            }
        }
        match self.prop {
            Prop::C28 => {
                // (1) additions
                for (p, t) in &added {
                    if *p >= 3 {
                        return Err(format!("C28 unknown-peer-added via={via} :: topic {}", TOPICS[*t as usize]));
                    }
                    let r = self.roles[*p as usize];
                    if r.explicit {
                        return Err(format!("C28 explicit-peer-added via={via} :: P{} added to mesh[{}]", p + 1, TOPICS[*t as usize]));
                    }
                    if deadline_before.get(&(*p, *t)).is_some_and(|d| now < *d) {
                        let left = deadline_before[&(*p, *t)] - now;
                        return Err(format!("C28 backed-off-peer-added via={via} :: P{} added to mesh[{}] with {} ms of backoff left", p + 1, TOPICS[*t as usize], left / 1_000_000));
                    }
                    if let Some(s) = score_before[*p as usize] {
                        if s < 0.0 {
                            return Err(format!("C28 negative-score-peer-added via={via} :: P{} (score {s}) added to mesh[{}]", p + 1, TOPICS[*t as usize]));
                        }
                    }
                }
                // (2) GRAFT at mesh_n_high
                if let Act::Graft(p, mask) = *a {
                    for t in mask_topics(mask) {
                        let b = &before[t as usize];
                        if b.len() >= self.high && !b.contains(&p) && after[t as usize].contains(&p) {
                            return Err(format!("C28 graft-accepted-at-mesh_n_high :: mesh[{}] had {} >= mesh_n_high {} members and P{} was added", TOPICS[t as usize], b.len(), self.high, p + 1));
                        }
                    }
                }
                // (3) state invariant
                for t in 0..2u8 {
                    for p in &after[t as usize] {
                        if *p >= 3 {
                            return Err(format!("C28 unknown-mesh-member via={via} :: topic {}", TOPICS[t as usize]));
                        }
                        let r = self.roles[*p as usize];
                        let what = if !self.connected[*p as usize] {
                            "not-connected"
                        } else if !r.kind.is_gossipsub() {
                            "not-gossipsub"
                        } else if !self.subs[*p as usize][t as usize] {
                            "not-subscribed"
                        } else if r.explicit {
                            "explicit"
                        } else {
                            continue;
                        };
                        return Err(format!("C28 mesh-member-{what} via={via} :: P{} in mesh[{}]", p + 1, TOPICS[t as usize]));
                    }
                }
            }
            Prop::C29 => {
                for p in 0..3u8 {
                    if !self.connected[p as usize] {
                        continue;
                    }
                    let member = after.iter().any(|s| s.contains(&p));
                    // Reading for several connections (see module doc of c29.rs): the behaviour
                    // addresses the handler of the peer's oldest live connection; that one must
                    // believe "in mesh" when the peer is a member, and no live handler may
                    // believe so when it is not.
                    let beliefs = self.node.handlers_in_mesh(&pid(p));
                    let believes = beliefs.first().copied().unwrap_or(false);
                    let stale = !member && beliefs.iter().any(|b| *b);
                    if member != believes || stale {
                        let na = added.iter().filter(|x| x.0 == p).count();
                        let nr = removed.iter().filter(|x| x.0 == p).count();
                        let notes: Vec<String> = self.node.notes.iter().filter(|n| n.0 == pid(p)).map(|n| format!("{:?}{}", n.1, if n.2 { "" } else { "(undelivered)" })).collect();
                        return Err(format!(
                            "C29 handler-in_mesh={believes} but mesh-member={member} via={via} added={na} removed={nr} :: P{}: mesh {:?} -> {:?}, beliefs of live connections (oldest first) {:?}, notifications in this step {:?}",
                            p + 1,
                            before,
                            after,
                            beliefs,
                            notes
                        ));
                    }
                }
            }
        }
        Ok(())
    }
}

impl Sys for MeshSys {
    type Act = Act;

    fn actions(&self) -> Vec<Act> {
        let mut v = Vec::new();
        for p in 0..3u8 {
            let r = self.roles[p as usize];
            if !self.connected[p as usize] {
                v.push(Act::Connect(p));
                continue;
            }
            let ordinary = r.kind.is_gossipsub() && !r.explicit;
            match self.node.conn_count(&pid(p)) {
                1 => {
                    v.push(Act::Disconnect(p));
                    if ordinary {
                        v.push(Act::Connect2(p));
                    }
                }
                _ => {
                    v.push(Act::Close(p, 0));
                    v.push(Act::Close(p, 1));
                }
            }
            // Topic symmetry: single-topic remote actions are offered for T1 only; T2 takes part
            // through the two-topic RPCs (mask 3) and through local (un)subscription of either
            // topic, so every shape "in both / in one / in none" is still reachable.
            if ordinary {
                for m in [1u8, 3] {
                    v.push(Act::Sub(p, m));
                    v.push(Act::Unsub(p, m));
                    v.push(Act::Graft(p, m));
                }
                for b in 0..3 {
                    v.push(Act::Prune(p, 1, b));
                }
                v.push(Act::Prune(p, 3, 1));
                if self.cfg.faults && !self.stalled[p as usize] {
                    v.push(Act::Stall(p));
                }
                // third topic (only the remote subscribes)
                v.push(if self.other_sub[p as usize] { Act::Unsub(p, 4) } else { Act::Sub(p, 4) });
                if self.app[p as usize] != -1 {
                    v.push(Act::Score(p, -1));
                }
                if self.app[p as usize] != 10 {
                    v.push(Act::Score(p, 10));
                }
            } else {
                // explicit and floodsub peers: a reduced menu (they must never get into a mesh)
                v.push(Act::Sub(p, 3));
                v.push(Act::Graft(p, 1));
                v.push(Act::Prune(p, 1, 1));
                if !r.explicit && self.app[p as usize] != -1 {
                    v.push(Act::Score(p, -1));
                }
            }
        }
        for t in 0..2u8 {
            v.push(if self.local[t as usize] { Act::LocalUnsub(t) } else { Act::LocalSub(t) });
        }
        if !self.local[0] {
            // topic symmetry: publishes use T1
            v.push(Act::Publish(0));
        }
        v.push(Act::Advance(0));
        v.push(Act::Advance(1));
        v.push(Act::Heartbeat);
        v.push(Act::Ticks);
        v
    }

    fn step(&mut self, a: &Act) -> Result<(), String> {
        match a {
            Act::Ticks => {
                for _ in 0..3 {
                    self.micro(&Act::Advance(0))?;
                    self.micro(&Act::Heartbeat)?;
                }
                Ok(())
            }
            _ => self.micro(a),
        }
    }

    fn canon(&self) -> Vec<u8> {
        let now = mc::vclock::now_ns();
        let inow = Instant::now();
        let mut s = String::new();
        use std::fmt::Write;
        let rel: Vec<((u8, u8), u64)> = self.deadline.iter().filter(|(_, d)| **d > now).map(|(k, d)| (*k, d - now)).collect();
        write!(s, "{:?}|{:?}|{:?}|{:?}|{:?}|{:?}|", self.connected, self.subs, self.local, self.app, rel, self.other_sub).unwrap();
        write!(s, "{:?}|", self.stalled).unwrap();
        write!(s, "{:?}|{:?}|{:?}|", self.node.mesh(), self.node.beh.verif_fanout(), self.node.beh.verif_explicit_peers()).unwrap();
        for p in 0..3u8 {
            let id = pid(p);
            write!(s, "{:?}/{:?}/{:?}/", self.node.beh.verif_peer(&id), self.node.handlers_in_mesh(&id), self.score(p).map(f64::to_bits)).unwrap();
            for t in 0..2u8 {
                let bt = self.node.beh.verif_backoff_time(&thash(t), &id);
                // remaining (or elapsed, clamped: once more than slack + 1 interval in the past
                // the exact age no longer matters to the clean-up rule)
                let r = bt.map(|b| {
                    if b >= inow {
                        b.duration_since(inow).as_millis() as i64
                    } else {
                        -(inow.duration_since(b).as_millis().min(2_500) as i64)
                    }
                });
                write!(s, "{:?}{}", r, self.node.beh.verif_is_backoff_with_slack(&thash(t), &id)).unwrap();
            }
            s.push(';');
        }
        s.into_bytes()
    }

    fn nontrivial(&self) -> bool {
        self.node.mesh().values().any(|v| !v.is_empty())
    }

    fn take_marks(&mut self) -> Vec<String> {
        std::mem::take(&mut self.marks)
    }
}
