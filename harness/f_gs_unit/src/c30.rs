//! C30 — gossipsub accepts only messages valid for the validation mode (E3/fault enumeration:
//! signed messages of every key type and unsigned messages, every field edited, under every
//! validation mode, decoded by the real `GossipsubCodec`).
//!
//! Oracle (from the statement), on what the codec surfaces as *valid* (`rpc.messages`):
//!  * Strict: the wire message carries a source that parses as a peer id and a signature that
//!    verifies under that source's key over "libp2p-pubsub:" ++ protobuf(from, data, seqno,
//!    topic) of exactly the wire fields; the surfaced message repeats those fields. "Any mutation
//!    of a signed message's fields is reported as invalid": the `key` field is one of the fields,
//!    so a `key` that is present must be a well-formed public key of the source. (Dropping the
//!    `key` field where the key is inlined in the source, or adding the correct one, yields the
//!    other canonical encoding of the same signed message and is not a mutation.)
//!  * Permissive: a present (non-empty) signature verifies as above, a present (non-empty) seqno
//!    is 8 bytes and surfaced unchanged, a present (non-empty) source parses and is surfaced.
//!  * Anonymous: no source, sequence number or signature on the wire or in the surfaced message.
//!  * None: nothing is demanded.
//! The verifier below is independent of the codec (own protobuf writer, own key resolution) and
//! uses `PublicKey::verify` of libp2p-identity only for the signature primitive.

use bytes::BytesMut;
use kit::pb::{self, W};
use libp2p_gossipsub::verif_gs_unit::{GossipsubCodec, HandlerEvent};
use libp2p_gossipsub::ValidationMode;
use libp2p_identity::{ecdsa, secp256k1, Keypair, PeerId, PublicKey};
use mc::{json, Ctx, Meta, Outcome, Value};
use std::collections::HashMap;

pub const META: Meta = Meta {
    level: "fault_enumeration",
    rule: "base messages: signed by fixed ed25519 / secp256k1 / ecdsa / rsa keys, each with and without the key field, plus unsigned variants (bare, source only, seqno only, source+seqno); faults: every field of {from, data, seqno, topic, signature, key} x {absent, bit flipped (first / last byte), other key's value, other content, empty, one byte shorter, one byte longer, signature+key forged by another key}, single edits (quick) and all pairs of edits on two different fields (thorough); every case under Strict / Permissive / Anonymous / None, alone and as second message behind an untouched valid one. Non-trivial = distinct (mode, base, edits) cases with at least one edit.",
    explanation: "Every case is encoded with an independent protobuf writer, decoded by the real GossipsubCodec and the surfaced valid / invalid lists are compared with an independent verifier of the statement's per-mode conditions.",
    assumptions: &["signature primitives of libp2p-identity trusted", "one topic, fixed payload", "empty bytes fields count as absent in Permissive mode"],
};

const FIELDS: [&str; 6] = ["from", "data", "seqno", "topic", "signature", "key"];
const MUTS: [&str; 10] = ["absent", "flip-first", "flip-last", "other-key", "other-content", "empty", "shorter", "longer", "correct-key", "forged-with-own-key"];
const MODES: [&str; 4] = ["Strict", "Permissive", "Anonymous", "None"];
const BASES: [&str; 12] = ["ed25519", "ed25519+key", "secp256k1", "secp256k1+key", "ecdsa", "ecdsa+key", "rsa", "rsa+key", "unsigned", "unsigned+from", "unsigned+seqno", "unsigned+from+seqno"];

fn keypair(kind: &str, i: u8) -> Keypair {
    match kind {
        "ed25519" => kit::ids::keypair(10 + i),
        "secp256k1" => {
            let mut b = [0x11u8; 32];
            b[0] = i + 1;
            secp256k1::Keypair::from(secp256k1::SecretKey::try_from_bytes(&mut b).expect("scalar")).into()
        }
        "ecdsa" => {
            let mut b = [0x22u8; 32];
            b[0] = i + 1;
            ecdsa::Keypair::from(ecdsa::SecretKey::try_from_bytes(b).expect("scalar")).into()
        }
        _ => {
            let mut der = if i == 0 { include_bytes!("/repo/identity/src/test/rsa-2048.pk8").to_vec() } else { include_bytes!("/repo/identity/src/test/rsa-3072.pk8").to_vec() };
            Keypair::rsa_from_pkcs8(&mut der).expect("test key")
        }
    }
}

/// wire-level message: every field optional bytes
#[derive(Clone, Debug, Default, PartialEq)]
struct Wire {
    f: [Option<Vec<u8>>; 6],
}
impl Wire {
    fn get(&self, name: &str) -> &Option<Vec<u8>> {
        &self.f[FIELDS.iter().position(|n| *n == name).unwrap()]
    }
    /// protobuf of the message; `signing` = without signature and key
    fn encode(&self, signing: bool) -> Vec<u8> {
        let mut w = W::new();
        for (i, v) in self.f.iter().enumerate() {
            if signing && i >= 4 {
                continue;
            }
            if i == 3 {
                // `topic` is a required string: always on the wire
                w = w.bytes(4, v.as_deref().unwrap_or(b""));
            } else {
                w = w.opt_bytes(i as u32 + 1, v.as_deref());
            }
        }
        w.finish()
    }
}

fn signing_bytes(w: &Wire) -> Vec<u8> {
    let mut b = b"libp2p-pubsub:".to_vec();
    b.extend_from_slice(&w.encode(true));
    b
}

fn base(name: &str) -> Wire {
    let mut w = Wire::default();
    w.f[1] = Some(b"hello world".to_vec());
    w.f[3] = Some(b"topic-a".to_vec());
    let (kind, with_key) = match name.split_once('+') {
        Some((k, "key")) => (k, true),
        _ => (name, false),
    };
    if name.starts_with("unsigned") {
        if name.contains("from") {
            w.f[0] = Some(keypair("ed25519", 0).public().to_peer_id().to_bytes());
        }
        if name.contains("seqno") {
            w.f[2] = Some(7u64.to_be_bytes().to_vec());
        }
        return w;
    }
    let kp = keypair(kind, 0);
    w.f[0] = Some(kp.public().to_peer_id().to_bytes());
    w.f[2] = Some(0x0102030405060708u64.to_be_bytes().to_vec());
    w.f[4] = Some(kp.sign(&signing_bytes(&w)).expect("sign"));
    if with_key {
        w.f[5] = Some(kp.public().encode_protobuf());
    }
    w
}

fn kind_of(base_name: &str) -> &str {
    base_name.split('+').next().unwrap()
}

/// apply one edit; None = edit not applicable / no change
fn mutate(w: &Wire, base_name: &str, field: usize, m: &str) -> Option<Wire> {
    let mut o = w.clone();
    let cur = w.f[field].clone();
    let kind = if base_name.starts_with("unsigned") { "ed25519" } else { kind_of(base_name) };
    let other = keypair(kind, 1);
    let new: Option<Vec<u8>> = match m {
        "absent" => None,
        "flip-first" => cur.clone().filter(|c| !c.is_empty()).map(|mut c| {
            c[0] ^= 0x01;
            c
        }),
        "flip-last" => cur.clone().filter(|c| !c.is_empty()).map(|mut c| {
            let n = c.len() - 1;
            c[n] ^= 0x80;
            c
        }),
        "other-key" => match field {
            0 => Some(other.public().to_peer_id().to_bytes()),
            4 => Some(other.sign(&signing_bytes(w)).expect("sign")),
            5 => Some(other.public().encode_protobuf()),
            _ => return None,
        },
        "other-content" => match field {
            1 => Some(b"hello w0rld".to_vec()),
            2 => Some(0x0102030405060709u64.to_be_bytes().to_vec()),
            3 => Some(b"topic-b".to_vec()),
            4 => {
                // a genuine signature of the same key over different content
                if base_name.starts_with("unsigned") {
                    return None;
                }
                let mut w2 = w.clone();
                w2.f[1] = Some(b"other".to_vec());
                Some(keypair(kind, 0).sign(&signing_bytes(&w2)).expect("sign"))
            }
            _ => return None,
        },
        "empty" => Some(Vec::new()),
        "shorter" => cur.clone().filter(|c| c.len() > 1).map(|mut c| {
            c.pop();
            c
        }),
        "longer" => cur.clone().map(|mut c| {
            c.push(0);
            c
        }),
        "forged-with-own-key" => {
            // an attacker signs the victim's message (unchanged `from`) and ships its own key
            if field != 4 {
                return None;
            }
            o.f[5] = Some(other.public().encode_protobuf());
            Some(other.sign(&signing_bytes(w)).expect("sign"))
        }
        "correct-key" => {
            if field != 5 || base_name.starts_with("unsigned") {
                return None;
            }
            Some(keypair(kind, 0).public().encode_protobuf())
        }
        _ => return None,
    };
    if matches!(m, "flip-first" | "flip-last" | "shorter" | "longer") && new.is_none() {
        return None;
    }
    if new == cur {
        return None;
    }
    o.f[field] = new;
    Some(o)
}

// ---------------------------------------------------------------------------------------------
// independent verifier

/// why the wire message is not a validly signed message (None = it is)
fn signature_defect(w: &Wire, key_field_must_be_valid: bool) -> Option<&'static str> {
    let Some(from) = w.get("from") else { return Some("no-source") };
    let Ok(source) = PeerId::from_bytes(from) else { return Some("source-not-a-peer-id") };
    let Some(sig) = w.get("signature") else { return Some("no-signature") };
    let from_field = match w.get("key") {
        Some(k) => match PublicKey::try_decode_protobuf(k) {
            Ok(pk) => Some(pk),
            Err(_) if key_field_must_be_valid => return Some("key-field-not-a-public-key"),
            Err(_) => None,
        },
        None => None,
    };
    let pk: PublicKey = match from_field {
        Some(pk) => pk,
        None => {
            // identity multihash: 0x00, length, protobuf-encoded public key
            if from.len() > 2 && from[0] == 0x00 && from[1] as usize == from.len() - 2 {
                match PublicKey::try_decode_protobuf(&from[2..]) {
                    Ok(pk) => pk,
                    Err(_) => return Some("no-key-available"),
                }
            } else {
                return Some("no-key-available");
            }
        }
    };
    if pk.to_peer_id() != source {
        return Some("key-does-not-match-source");
    }
    if !pk.verify(&signing_bytes(w), sig) {
        return Some("signature-does-not-verify");
    }
    None
}

fn nonempty(v: &Option<Vec<u8>>) -> bool {
    v.as_ref().is_some_and(|b| !b.is_empty())
}

#[derive(Debug, Clone, PartialEq)]
struct Surfaced {
    valid: bool,
    source: Option<Vec<u8>>,
    data: Vec<u8>,
    seqno: Option<u64>,
    topic: String,
    signature: Option<Vec<u8>>,
    key: Option<Vec<u8>>,
    error: String,
}

fn mode_of(m: &str) -> ValidationMode {
    match m {
        "Strict" => ValidationMode::Strict,
        "Permissive" => ValidationMode::Permissive,
        "Anonymous" => ValidationMode::Anonymous,
        _ => ValidationMode::None,
    }
}

/// decode an RPC carrying the given messages; one `Surfaced` per message in wire order is not
/// recoverable in general (valid and invalid lists are separate), so the lists are returned
fn decode(mode: &str, msgs: &[&Wire]) -> Result<(Vec<Surfaced>, Vec<Surfaced>), String> {
    use asynchronous_codec::Decoder;
    let mut rpc = W::new();
    for m in msgs {
        rpc = rpc.bytes(2, &m.encode(false));
    }
    let mut c = GossipsubCodec::new(1 << 20, mode_of(mode), HashMap::new(), 500, 1 << 16);
    let mut buf = BytesMut::from(&pb::frame(&rpc.finish())[..]);
    let ev = c.decode(&mut buf).map_err(|e| e.to_string())?;
    let Some(HandlerEvent::Message { rpc, invalid_messages }) = ev else { return Err("no message event".into()) };
    let conv = |m: &libp2p_gossipsub::RawMessage, valid: bool, error: String| Surfaced {
        valid,
        source: m.source.map(|p| p.to_bytes()),
        data: m.data.clone(),
        seqno: m.sequence_number,
        topic: m.topic.as_str().to_string(),
        signature: m.signature.clone(),
        key: m.key.clone(),
        error,
    };
    Ok((rpc.messages.iter().map(|m| conv(m, true, String::new())).collect(), invalid_messages.iter().map(|(m, e)| conv(m, false, format!("{e:?}"))).collect()))
}

/// judge one surfaced-valid message against its wire form; Err("signature :: details")
fn judge(mode: &str, w: &Wire, s: &Surfaced) -> Result<(), String> {
    let d = |x: &Option<Vec<u8>>| x.as_ref().map(|b| format!("{}B", b.len()));
    let ctx = format!("wire from={:?} data={:?} seqno={:?} topic={:?} signature={:?} key={:?}", d(w.get("from")), d(w.get("data")), w.get("seqno"), d(w.get("topic")), d(w.get("signature")), d(w.get("key")));
    // content is never altered
    if s.data != w.get("data").clone().unwrap_or_default() || s.topic.as_bytes() != w.get("topic").clone().unwrap_or_default().as_slice() {
        return Err(format!("surfaced-content-differs:{mode} :: data/topic of the surfaced message differ from the wire; {ctx}"));
    }
    match mode {
        "Strict" => {
            if let Some(why) = signature_defect(w, true) {
                return Err(format!("strict-accepts:{why} :: surfaced as valid in Strict mode; {ctx}"));
            }
            if s.source != *w.get("from") || s.signature != *w.get("signature") {
                return Err(format!("strict-surfaced-fields-differ :: source/signature of the surfaced message differ from the verified wire fields; {ctx}"));
            }
            let wire_seq = w.get("seqno").as_ref().filter(|b| b.len() == 8).map(|b| u64::from_be_bytes(b[..].try_into().unwrap()));
            if s.seqno != wire_seq {
                return Err(format!("strict-surfaced-seqno-differs :: surfaced {:?}, wire {:?}; {ctx}", s.seqno, w.get("seqno")));
            }
        }
        "Permissive" => {
            if nonempty(w.get("signature")) {
                if let Some(why) = signature_defect(w, false) {
                    return Err(format!("permissive-accepts-present-signature:{why} :: {ctx}"));
                }
            }
            if nonempty(w.get("seqno")) {
                let b = w.get("seqno").as_ref().unwrap();
                if b.len() != 8 || s.seqno != Some(u64::from_be_bytes(b[..].try_into().unwrap())) {
                    return Err(format!("permissive-accepts-invalid-seqno :: surfaced {:?}; {ctx}", s.seqno));
                }
            }
            if nonempty(w.get("from")) {
                let f = w.get("from").as_ref().unwrap();
                if PeerId::from_bytes(f).is_err() || s.source.as_ref() != Some(f) {
                    return Err(format!("permissive-accepts-invalid-source :: surfaced {:?}; {ctx}", d(&s.source)));
                }
            }
        }
        "Anonymous" => {
            if nonempty(w.get("from")) || nonempty(w.get("seqno")) || nonempty(w.get("signature")) || s.source.is_some() || s.seqno.is_some() || s.signature.is_some() {
                return Err(format!("anonymous-accepts-authored-message :: {ctx}; surfaced source={:?} seqno={:?} signature={:?}", d(&s.source), s.seqno, d(&s.signature)));
            }
        }
        _ => {}
    }
    Ok(())
}

#[derive(Default)]
struct Tally {
    accepted: u64,
    rejected: u64,
    rpc_errors: u64,
}

/// one case: `edits` applied to `base_name`, under `mode`, alone or behind a valid message
fn run_case(mode: &str, base_name: &str, edits: &[(usize, &str)], behind_valid: bool, tally: &mut Tally) -> Result<bool, String> {
    let mut w = base(base_name);
    for (f, m) in edits {
        match mutate(&w, base_name, *f, m) {
            Some(n) => w = n,
            None => return Ok(false), // not applicable
        }
    }
    if !edits.is_empty() && w == base(base_name) {
        return Ok(false);
    }
    // the companion is valid in every mode except Anonymous (signed) / Strict (unsigned)
    let companion = if mode == "Anonymous" { base("unsigned") } else { base("ed25519") };
    let msgs: Vec<&Wire> = if behind_valid { vec![&companion, &w] } else { vec![&w] };
    let r = mc::catch(|| decode(mode, &msgs)).map_err(|p| format!("decoder-panic :: {p}"))?;
    // an RPC that fails to decode as a whole (e.g. topic no longer UTF-8) surfaces nothing
    let Ok((valid, invalid)) = r else {
        tally.rpc_errors += 1;
        return Ok(true);
    };
    if valid.len() + invalid.len() != msgs.len() {
        return Err(format!("message-lost-or-duplicated :: {} messages on the wire, {} valid + {} invalid surfaced", msgs.len(), valid.len(), invalid.len()));
    }
    let mut valid = valid;
    if behind_valid {
        // the untouched companion must be unaffected by its neighbour
        if valid.is_empty() || valid[0].data != companion.get("data").clone().unwrap() {
            return Err(format!("neighbour-affects-valid-message:{mode} :: valid companion not surfaced as valid next to base {base_name} edits {edits:?}"));
        }
        judge(mode, &companion, &valid[0])?;
        valid.remove(0);
    }
    match valid.first() {
        Some(s) => {
            tally.accepted += 1;
            judge(mode, &w, s).map_err(|e| format!("{e}; base {base_name}, edits {:?}", edits.iter().map(|(f, m)| (FIELDS[*f], *m)).collect::<Vec<_>>()))?;
        }
        None => tally.rejected += 1,
    }
    Ok(true)
}

fn case_json(mode: &str, base_name: &str, edits: &[(usize, &str)], behind: bool) -> Value {
    json!({"mode": mode, "base": base_name, "edits": edits.iter().map(|(f, m)| json!([FIELDS[*f], m])).collect::<Vec<_>>(), "behind_valid": behind})
}

pub fn run(ctx: &Ctx) -> Outcome {
    if let Some(case) = &ctx.replay {
        let mut out = Outcome::default();
        out.evaluations = 1;
        let mode = MODES.iter().find(|m| Some(**m) == case["mode"].as_str()).copied().unwrap_or("Strict");
        let base_name = BASES.iter().find(|b| Some(**b) == case["base"].as_str()).copied().unwrap_or("ed25519");
        let edits: Vec<(usize, &str)> = case["edits"]
            .as_array()
            .map(|a| a.iter().filter_map(|e| Some((FIELDS.iter().position(|f| Some(*f) == e[0].as_str())?, *MUTS.iter().find(|m| Some(**m) == e[1].as_str())?))).collect())
            .unwrap_or_default();
        if let Err(m) = run_case(mode, base_name, &edits, case["behind_valid"].as_bool().unwrap_or(false), &mut Tally::default()) {
            out.violation(mc::bfs::signature_of(&m), m, case.clone());
        }
        return out;
    }
    let pairs = !ctx.quick();
    let mut out = mc::workers(ctx, 16, |ctx| {
        let mut out = Outcome::default();
        let mut idx = 0u64;
        // edit lists: none, singles, (thorough) pairs on two different fields
        let mut edit_lists: Vec<Vec<(usize, &str)>> = vec![vec![]];
        for f in 0..6 {
            for m in MUTS {
                edit_lists.push(vec![(f, m)]);
            }
        }
        if pairs {
            for f1 in 0..6 {
                for f2 in f1 + 1..6 {
                    for m1 in MUTS {
                        for m2 in MUTS {
                            edit_lists.push(vec![(f1, m1), (f2, m2)]);
                        }
                    }
                }
            }
        }
        for mode in MODES {
            let mut tally = Tally::default();
            let mut base_ok = 0u64;
            for base_name in BASES {
                for edits in &edit_lists {
                    idx += 1;
                    if !ctx.mine(idx) {
                        continue;
                    }
                    for behind in [false, true] {
                        let before = tally.accepted;
                        match run_case(mode, base_name, edits, behind, &mut tally) {
                            Ok(false) => {}
                            Ok(true) => {
                                out.evaluations += 1;
                                if !edits.is_empty() {
                                    out.nontrivial(&format!("{mode}{base_name}{edits:?}{behind}"));
                                } else if tally.accepted > before {
                                    base_ok += 1;
                                    out.count(&format!("unedited_accepted_{mode}_{base_name}"), 1);
                                }
                                if out.evaluations % 1499 == 1 {
                                    out.sample(case_json(mode, base_name, edits, behind));
                                }
                            }
                            Err(m) => {
                                out.evaluations += 1;
                                if m.starts_with("harness") {
                                    out.machinery(m);
                                } else {
                                    out.violation(mc::bfs::signature_of(&m), m, case_json(mode, base_name, edits, behind));
                                }
                            }
                        }
                    }
                }
            }
            let _ = base_ok;
            out.count(&format!("accepted_{mode}"), tally.accepted);
            out.count(&format!("rejected_{mode}"), tally.rejected);
            out.count(&format!("rpc_decode_errors_{mode}"), tally.rpc_errors);
        }
        out
    });
    // vacuity: every signed base must be accepted unedited in Strict and Permissive, unsigned in
    // Anonymous; every mode must both accept and reject something
    for b in ["ed25519", "ed25519+key", "secp256k1", "secp256k1+key", "ecdsa+key", "rsa+key"] {
        for mode in ["Strict", "Permissive", "None"] {
            if out.get(&format!("unedited_accepted_{mode}_{b}")) == 0 {
                out.machinery(format!("vacuity: the unedited {b} message was not accepted in {mode} mode (harness signs wrongly, or the codec rejects valid messages)"));
            }
        }
    }
    for b in ["ecdsa", "rsa"] {
        // signed, key neither inlined in the source nor supplied: must not pass Strict
        if out.get(&format!("unedited_accepted_Strict_{b}")) != 0 {
            out.machinery(format!("harness: {b} message without key field unexpectedly accepted in Strict mode"));
        }
    }
    if out.get("unedited_accepted_Anonymous_unsigned") == 0 {
        out.machinery("vacuity: the unsigned message was not accepted in Anonymous mode");
    }
    for mode in ["Strict", "Permissive", "Anonymous"] {
        if out.get(&format!("accepted_{mode}")) == 0 || out.get(&format!("rejected_{mode}")) == 0 {
            out.machinery(format!("vacuity: mode {mode} did not both accept and reject messages"));
        }
    }
    out
}
