//! C34 — accepted gossipsub configs never break the behaviour (E3: complete enumeration of
//! builder programs; then every distinct accepted configuration is run in a standalone
//! `Behaviour` with 0-4 subscribed peers through 3 heartbeats).
//!
//! Oracle = the statement: `build() == Ok(c)` implies
//!   mesh_outbound_min <= mesh_n_low <= mesh_n <= mesh_n_high and 2*mesh_outbound_min <= mesh_n
//! for the default set and for the per-topic set of topic T, history_gossip <= history_length,
//! max_transmit_size >= 100 (default and per-topic); and no accepted config makes `heartbeat`
//! panic (the harness is built with overflow checks on).

use crate::node;
use kit::ids::keypair;
use libp2p_gossipsub::verif_gs_unit::TopicMeshConfig;
use libp2p_gossipsub::{Behaviour, Config, ConfigBuilder, IdentTopic, MessageAuthenticity, TopicHash};
use mc::{json, Ctx, Meta, Outcome, Value};
use std::collections::BTreeMap;

pub const META: Meta = Meta {
    level: "exploration",
    rule: "all programs of <= 3 (quick) / <= 4 (thorough) calls over 57 setter calls: mesh_n / mesh_n_low / mesh_n_high / mesh_outbound_min (default and _for_topic(T)) x {0,1,2,3,6}, set_topic_config(T, 3 presets), history_length / history_gossip x {0,1,2,3}, max_transmit_size / max_transmit_size_for_topic(T) x {0,99,100}; every program built with the real ConfigBuilder. Then, for every distinct accepted mesh parameter set (as default set and as per-topic set) and history pair: standalone Behaviour subscribed to T (per-topic parameters) and U (default parameters), 0-4 peers x {inbound, outbound, alternating} x {local subscription first, peers first}, 3 heartbeats. Finally 6 fully valid configurations whose per-topic parameters (topic with per-topic transmit size) are larger / smaller than / equal to the defaults x 0-18 (thorough 22) outbound peers x {no, 2, all} GRAFTs x {local subscription first, peers first}: 3 heartbeats, no panic and after every heartbeat the mesh of each topic has exactly the size its own parameters prescribe (refill to mesh_n below mesh_n_low, cut to mesh_n at mesh_n_high, else unchanged). Non-trivial = distinct accepted configurations (by getter values) and distinct heartbeat scenarios.",
    explanation: "Complete enumeration (E3) of builder programs against the stated inequalities, followed by execution of the real heartbeat for every distinct accepted configuration; panics are caught and reported with the configuration.",
    assumptions: &["one configured topic T besides the defaults", "values {0,1,2,3,6} for mesh parameters, <= 4 peers", "heartbeat invoked through a cfg(libp2p_verif) hook; the behaviour's own timer is disarmed by a 10-year initial delay"],
};

const MESH_VALUES: [usize; 5] = [0, 1, 2, 3, 6];
const HIST_VALUES: [usize; 4] = [0, 1, 2, 3];
const SIZE_VALUES: [usize; 3] = [0, 99, 100];
/// presets for set_topic_config: (n, low, high, outbound_min)
const PRESETS: [(usize, usize, usize, usize); 3] = [(6, 5, 12, 2), (1, 5, 2, 4), (2, 1, 3, 1)];

fn topic_t() -> TopicHash {
    IdentTopic::new("T").hash()
}

/// the alphabet of setter calls: (name, value)
fn alphabet() -> Vec<(&'static str, usize)> {
    let mut v = Vec::new();
    for name in ["mesh_n", "mesh_n_low", "mesh_n_high", "mesh_outbound_min", "mesh_n_for_topic", "mesh_n_low_for_topic", "mesh_n_high_for_topic", "mesh_outbound_min_for_topic"] {
        for x in MESH_VALUES {
            v.push((name, x));
        }
    }
    for i in 0..PRESETS.len() {
        v.push(("set_topic_config", i));
    }
    for name in ["history_length", "history_gossip"] {
        for x in HIST_VALUES {
            v.push((name, x));
        }
    }
    for name in ["max_transmit_size", "max_transmit_size_for_topic"] {
        for x in SIZE_VALUES {
            v.push((name, x));
        }
    }
    v
}

fn apply(b: &mut ConfigBuilder, call: &(&str, usize)) -> Result<(), String> {
    let t = topic_t();
    let x = call.1;
    match call.0 {
        "mesh_n" => b.mesh_n(x),
        "mesh_n_low" => b.mesh_n_low(x),
        "mesh_n_high" => b.mesh_n_high(x),
        "mesh_outbound_min" => b.mesh_outbound_min(x),
        "mesh_n_for_topic" => b.mesh_n_for_topic(x, t),
        "mesh_n_low_for_topic" => b.mesh_n_low_for_topic(x, t),
        "mesh_n_high_for_topic" => b.mesh_n_high_for_topic(x, t),
        "mesh_outbound_min_for_topic" => b.mesh_outbound_min_for_topic(x, t),
        "set_topic_config" => {
            let p = PRESETS.get(x).ok_or("bad preset")?;
            let (n, low, high, out) = *p;
            b.set_topic_config(t, TopicMeshConfig { mesh_n: n, mesh_n_low: low, mesh_n_high: high, mesh_outbound_min: out })
        }
        "history_length" => b.history_length(x),
        "history_gossip" => b.history_gossip(x),
        "max_transmit_size" => b.max_transmit_size(x),
        "max_transmit_size_for_topic" => b.max_transmit_size_for_topic(x, t),
        other => return Err(format!("unknown setter {other}")),
    };
    Ok(())
}

fn build(program: &[(&str, usize)]) -> Result<Result<Config, String>, String> {
    let mut b = ConfigBuilder::default();
    b.heartbeat_initial_delay(node::NEVER);
    for c in program {
        apply(&mut b, c)?;
    }
    Ok(b.build().map_err(|e| format!("{e:?}")))
}

/// every getter the statement speaks about: (default mesh, T mesh, history, sizes)
#[derive(Clone, Debug, PartialEq, Eq, PartialOrd, Ord)]
struct Key {
    def: [usize; 4],
    top: [usize; 4],
    hist: [usize; 2],
    size: [usize; 2],
}

fn key(c: &Config) -> Key {
    let t = topic_t();
    Key {
        def: [c.mesh_outbound_min(), c.mesh_n_low(), c.mesh_n(), c.mesh_n_high()],
        top: [c.mesh_outbound_min_for_topic(&t), c.mesh_n_low_for_topic(&t), c.mesh_n_for_topic(&t), c.mesh_n_high_for_topic(&t)],
        hist: [c.history_length(), c.history_gossip()],
        size: [c.max_transmit_size(), c.max_transmit_size_for_topic(&t)],
    }
}

/// first broken inequality of a mesh parameter set [outbound_min, n_low, n, n_high]
fn mesh_broken(m: &[usize; 4]) -> Option<&'static str> {
    let [o, l, n, h] = *m;
    if o > l {
        Some("outbound_min>n_low")
    } else if l > n {
        Some("n_low>n")
    } else if n > h {
        Some("n>n_high")
    } else if 2 * o > n {
        Some("2*outbound_min>n")
    } else {
        None
    }
}

/// the statement's verdict on an accepted config; Err(signature :: details) per broken clause
fn judge(program: &[(&str, usize)], k: &Key) -> Vec<String> {
    let mut v = Vec::new();
    let topic_has_size = program.iter().any(|c| c.0 == "max_transmit_size_for_topic");
    if let Some(w) = mesh_broken(&k.def) {
        v.push(format!("accepted-invalid-mesh:default:{w} :: build() accepted default mesh parameters [outbound_min, n_low, n, n_high] = {:?}", k.def));
    }
    if let Some(w) = mesh_broken(&k.top) {
        if k.top != k.def {
            let path = if topic_has_size { "topic-with-transmit-size" } else { "topic-without-transmit-size" };
            v.push(format!("accepted-invalid-mesh:{path}:{w} :: build() accepted mesh parameters for topic T [outbound_min, n_low, n, n_high] = {:?}", k.top));
        }
    }
    if k.hist[1] > k.hist[0] {
        v.push(format!("accepted-history-gossip-exceeds-length :: history_length {} < history_gossip {}", k.hist[0], k.hist[1]));
    }
    if k.size[0] < 100 {
        v.push(format!("accepted-transmit-size-below-100:default :: max_transmit_size = {}", k.size[0]));
    }
    if k.size[1] < 100 && topic_has_size {
        v.push(format!("accepted-transmit-size-below-100:topic :: max_transmit_size_for_topic(T) = {}", k.size[1]));
    }
    v
}

// ---------------------------------------------------------------------------------------------
// heartbeat runs

#[derive(Clone, Debug, PartialEq, Eq, PartialOrd, Ord)]
struct Scenario {
    peers: u8,
    /// 0 = all inbound, 1 = all outbound, 2 = alternating
    pattern: u8,
    /// true = local subscriptions first, then peers connect and subscribe
    local_first: bool,
}

fn scenarios() -> Vec<Scenario> {
    let mut v = Vec::new();
    for peers in 0..=4u8 {
        for pattern in 0..3u8 {
            for local_first in [true, false] {
                if peers == 0 && (pattern > 0 || !local_first) {
                    continue;
                }
                v.push(Scenario { peers, pattern, local_first });
            }
        }
    }
    v
}

/// run the scenario on the real behaviour (current thread); Ok(mesh sizes after each heartbeat)
fn heartbeat_inner(program: &[(&'static str, usize)], sc: &Scenario) -> Result<Vec<(usize, usize)>, String> {
    let cfg = build(program)?.map_err(|e| format!("harness :: config no longer builds: {e}"))?;
    let mut b: Behaviour = Behaviour::new(MessageAuthenticity::Signed(keypair(0)), cfg).map_err(|e| format!("harness :: Behaviour::new: {e}"))?;
    let t = IdentTopic::new("T");
    let u = IdentTopic::new("U");
    let mut handlers = Vec::new();
    let subscribe_local = |b: &mut Behaviour| -> Result<(), String> {
        b.subscribe(&t).map_err(|e| format!("harness :: subscribe: {e:?}"))?;
        b.subscribe(&u).map_err(|e| format!("harness :: subscribe: {e:?}"))?;
        Ok(())
    };
    if sc.local_first {
        subscribe_local(&mut b)?;
    }
    for i in 1..=sc.peers {
        let outbound = match sc.pattern {
            0 => false,
            1 => true,
            _ => i % 2 == 0,
        };
        handlers.push(node::connect(&mut b, i, outbound));
        node::deliver(&mut b, i, &node::subs_rpc(&[(true, "T"), (true, "U")])).map_err(|e| format!("harness :: {e}"))?;
    }
    if !sc.local_first {
        subscribe_local(&mut b)?;
    }
    let mut sizes = Vec::new();
    for _ in 0..3 {
        b.verif_gs_unit_heartbeat();
        sizes.push((b.mesh_peers(&t.hash()).count(), b.mesh_peers(&u.hash()).count()));
    }
    drop(handlers);
    Ok(sizes)
}

/// one scenario as one isolated execution (fresh thread, entropy and clock reset): this is what
/// `--replay` runs, and what confirms every panic found by the batched exploration
fn heartbeat_run(program: Vec<(&'static str, usize)>, sc: Scenario, seed: u64) -> Result<Vec<(usize, usize)>, String> {
    match mc::isolated(seed, move || heartbeat_inner(&program, &sc)) {
        Ok(x) => x,
        Err(p) => Err(format!("panic :: {p}")),
    }
}

/// all scenarios of one configuration in one isolated execution; per scenario Ok(sizes) / Err
fn heartbeat_batch(program: Vec<(&'static str, usize)>, scs: Vec<Scenario>, seed: u64) -> Vec<Result<Vec<(usize, usize)>, String>> {
    let n = scs.len();
    mc::isolated(seed, move || {
        scs.iter()
            .map(|sc| match mc::catch(|| heartbeat_inner(&program, sc)) {
                Ok(r) => r,
                Err(p) => Err(format!("panic :: {p}")),
            })
            .collect::<Vec<_>>()
    })
    .unwrap_or_else(|p| vec![Err(format!("harness :: batch thread died: {p}")); n])
}

fn heartbeat_signature(k: &Key, panic: &str) -> String {
    // which parameter set can make the heartbeat arithmetic underflow
    let class = |m: &[usize; 4]| -> Option<&'static str> {
        if m[1] > m[2] {
            Some("n_low>n")
        } else if m[3] < m[2] {
            Some("n_high<n")
        } else {
            None
        }
    };
    let top = if k.top != k.def { class(&k.top) } else { None };
    let c = top.map(|c| format!("topic:{c}")).or_else(|| class(&k.def).map(|c| format!("default:{c}"))).unwrap_or_else(|| "valid-parameters".into());
    let what = if panic.contains("subtract with overflow") { "subtract-overflow" } else { "other" };
    format!("heartbeat-panic:{what}:{c}")
}

fn program_json(p: &[(&str, usize)]) -> Value {
    json!(p.iter().map(|c| json!([c.0, c.1])).collect::<Vec<_>>())
}

fn program_from_json(v: &Value) -> Option<Vec<(&'static str, usize)>> {
    let alpha = alphabet();
    v.as_array()?
        .iter()
        .map(|c| {
            let name = c.get(0)?.as_str()?;
            let x = c.get(1)?.as_u64()? as usize;
            alpha.iter().find(|a| a.0 == name && a.1 == x).copied()
        })
        .collect()
}


// ---------------------------------------------------------------------------------------------
// phase 3: fully valid configurations whose per-topic parameters differ from the defaults

/// (default [out, low, n, high], topic T [out, low, n, high]); all valid, T has a per-topic
/// transmit size so that `build` validates it on every tree
const VALID_CFGS: [([usize; 4], [usize; 4]); 6] = [
    ([2, 5, 6, 12], [2, 10, 12, 16]), // topic larger than default (mesh_n_low > default mesh_n + 1)
    ([2, 5, 6, 12], [1, 2, 3, 4]),    // topic smaller than default
    ([1, 3, 4, 5], [2, 7, 8, 9]),     // small default, larger topic
    ([2, 10, 12, 16], [1, 2, 4, 6]),  // large default, small topic
    ([2, 5, 6, 12], [2, 5, 6, 12]),   // equal
    ([0, 1, 1, 2], [3, 6, 9, 9]),     // n == n_high
];

fn valid_cfg(i: usize) -> Result<Config, String> {
    let (d, t) = VALID_CFGS.get(i).ok_or("bad cfg index")?;
    let mut b = ConfigBuilder::default();
    b.heartbeat_initial_delay(node::NEVER);
    b.mesh_outbound_min(d[0]).mesh_n_low(d[1]).mesh_n(d[2]).mesh_n_high(d[3]);
    b.set_topic_config(topic_t(), TopicMeshConfig { mesh_outbound_min: t[0], mesh_n_low: t[1], mesh_n: t[2], mesh_n_high: t[3] });
    b.max_transmit_size_for_topic(4096, topic_t());
    b.build().map_err(|e| format!("harness :: valid configuration rejected: {e:?}"))
}

#[derive(Clone, Debug)]
struct VScenario {
    cfg: usize,
    peers: u8,
    /// how many subscribed peers outside the mesh additionally send GRAFT (as long as accepted)
    grafts: u8,
    local_first: bool,
}

/// what the heartbeat's mesh maintenance documents for one topic: refill to mesh_n when below
/// mesh_n_low (limited by the candidates), cut back to mesh_n when at/above mesh_n_high,
/// otherwise leave alone. All peers are outbound, unscored and never backed off except the ones
/// this node pruned itself (`pruned`), so the expected size is exact.
fn expected_after(p: &[usize; 4], before: usize, candidates: usize) -> (usize, &'static str) {
    let [_, low, n, high] = *p;
    let mut len = before;
    let mut what = "steady";
    if len < low {
        len = n.min(before + candidates).max(before);
        what = "refill";
    }
    if len >= high {
        len = n.min(len);
        what = if what == "refill" { "refill" } else { "prune" };
    }
    (len, what)
}

#[derive(Default)]
struct VInfo {
    between_default_n_and_topic_low: u64,
    refills: u64,
    prunes: u64,
    steady: u64,
}

fn valid_inner(sc: &VScenario, info: &mut VInfo) -> Result<(), String> {
    let (d, t) = VALID_CFGS[sc.cfg];
    let cfg = valid_cfg(sc.cfg)?;
    let mut b: Behaviour = Behaviour::new(MessageAuthenticity::Signed(keypair(0)), cfg).map_err(|e| format!("harness :: Behaviour::new: {e}"))?;
    let tt = IdentTopic::new("T");
    let tu = IdentTopic::new("U");
    let mut handlers = Vec::new();
    if sc.local_first {
        b.subscribe(&tt).map_err(|e| format!("harness :: {e:?}"))?;
        b.subscribe(&tu).map_err(|e| format!("harness :: {e:?}"))?;
    }
    for i in 1..=sc.peers {
        handlers.push(node::connect(&mut b, i, true));
        node::deliver(&mut b, i, &node::subs_rpc(&[(true, "T"), (true, "U")])).map_err(|e| format!("harness :: {e}"))?;
    }
    if !sc.local_first {
        b.subscribe(&tt).map_err(|e| format!("harness :: {e:?}"))?;
        b.subscribe(&tu).map_err(|e| format!("harness :: {e:?}"))?;
    }
    // GRAFTs from peers outside the meshes, only while they will be accepted (below mesh_n_high)
    let mut sent = 0;
    for i in 1..=sc.peers {
        if sent >= sc.grafts {
            break;
        }
        let mut topics: Vec<&str> = Vec::new();
        for (name, th, p) in [("T", tt.hash(), &t), ("U", tu.hash(), &d)] {
            let in_mesh = b.mesh_peers(&th).any(|x| *x == kit::ids::peer(i));
            if !in_mesh && b.mesh_peers(&th).count() < p[3] {
                topics.push(name);
            }
        }
        if topics.is_empty() {
            continue;
        }
        let mut ctrl = kit::pb::W::new();
        for name in &topics {
            ctrl = ctrl.msg(3, &kit::pb::W::new().bytes(1, name.as_bytes()));
        }
        node::deliver(&mut b, i, &kit::pb::W::new().msg(3, &ctrl).finish()).map_err(|e| format!("harness :: {e}"))?;
        sent += 1;
    }
    let mut pruned: [std::collections::BTreeSet<libp2p_identity::PeerId>; 2] = Default::default();
    for hb in 1..=3 {
        let before: Vec<std::collections::BTreeSet<libp2p_identity::PeerId>> = [tt.hash(), tu.hash()].iter().map(|th| b.mesh_peers(th).copied().collect()).collect();
        if before[0].len() > d[2] && before[0].len() < t[1] {
            info.between_default_n_and_topic_low += 1;
        }
        if let Err(p) = mc::catch(|| b.verif_gs_unit_heartbeat()) {
            let what = if p.contains("subtract with overflow") { "subtract-overflow" } else { "other" };
            return Err(format!("valid-config-heartbeat-panic:{what} :: heartbeat {hb} panicked ({p}) at {} with a fully valid config: default {d:?}, topic T {t:?} [outbound_min, n_low, n, n_high]; mesh sizes before: T {} U {}", mc::shim::last_panic_loc().unwrap_or_default(), before[0].len(), before[1].len()));
        }
        for (k, (name, th, p)) in [("T", tt.hash(), &t), ("U", tu.hash(), &d)].into_iter().enumerate() {
            let after: std::collections::BTreeSet<libp2p_identity::PeerId> = b.mesh_peers(&th).copied().collect();
            let candidates = (1..=sc.peers).map(kit::ids::peer).filter(|x| !before[k].contains(x) && !pruned[k].contains(x)).count();
            let (want, what) = expected_after(p, before[k].len(), candidates);
            match what {
                "refill" => info.refills += 1,
                "prune" => info.prunes += 1,
                _ => info.steady += 1,
            }
            if after.len() != want {
                let which = if name == "T" { "per-topic-parameters" } else { "default-parameters" };
                return Err(format!("valid-config-mesh-size:{which}:{what} :: heartbeat {hb}: mesh of topic {name} went from {} to {} peers, expected {want} ({what}; parameters [outbound_min, n_low, n, n_high] = {p:?}, {candidates} candidates); default {d:?}, topic T {t:?}", before[k].len(), after.len()));
            }
            for x in before[k].difference(&after) {
                pruned[k].insert(*x);
            }
        }
    }
    drop(handlers);
    Ok(())
}

fn valid_run(sc: VScenario, seed: u64) -> (Result<(), String>, [u64; 4]) {
    match mc::isolated(seed, move || {
        let mut info = VInfo::default();
        let r = valid_inner(&sc, &mut info);
        (r, [info.between_default_n_and_topic_low, info.refills, info.prunes, info.steady])
    }) {
        Ok(x) => x,
        Err(p) => (Err(format!("valid-config-heartbeat-panic:outside-heartbeat :: {p}")), [0; 4]),
    }
}

fn vcase(sc: &VScenario) -> Value {
    json!({"kind": "valid-topic-config", "cfg": sc.cfg, "peers": sc.peers, "grafts": sc.grafts, "local_first": sc.local_first})
}

fn phase3(ctx: &Ctx) -> Outcome {
    let mut out = Outcome::default();
    let max_peers: u8 = ctx.tier.pick(18, 22);
    let mut tot = [0u64; 4];
    for cfg in 0..VALID_CFGS.len() {
        for peers in 0..=max_peers {
            for grafts in [0u8, 2, 255] {
                for local_first in [true, false] {
                    if peers == 0 && (grafts > 0 || !local_first) {
                        continue;
                    }
                    let sc = VScenario { cfg, peers, grafts, local_first };
                    out.evaluations += 1;
                    out.nontrivial(&format!("{sc:?}"));
                    let (r, info) = valid_run(sc.clone(), ctx.seed);
                    for i in 0..4 {
                        tot[i] += info[i];
                    }
                    if let Err(m) = r {
                        if m.starts_with("harness") {
                            out.machinery(m);
                        } else {
                            out.violation(mc::bfs::signature_of(&m), m, vcase(&sc));
                        }
                    }
                }
            }
        }
    }
    out.count("valid_config_scenarios", out.evaluations);
    for (k, n) in [("valid_config_heartbeats_with_mesh_between_default_n_and_topic_n_low", tot[0]), ("valid_config_refills", tot[1]), ("valid_config_prunes", tot[2]), ("valid_config_steady", tot[3])] {
        out.count(k, n);
        if n == 0 {
            out.machinery(format!("vacuity: '{k}' is zero"));
        }
    }
    out.sample(json!({"kind": "valid-topic-config", "cfg": 0, "peers": 8, "grafts": 0, "local_first": true, "expect": "T mesh 8 -> 12 limited by candidates (8), U mesh 5 -> 6"}));
    out
}

fn phase2(ctx: &Ctx, hb: &[(Key, Vec<(&'static str, usize)>)]) -> Outcome {
    let scs = scenarios();
    let seed = ctx.seed;
    mc::workers(ctx, 16, |ctx| {
        let mut out = Outcome::default();
        for (i, (k, program)) in hb.iter().enumerate() {
            if !ctx.mine(i as u64) {
                continue;
            }
            let results = heartbeat_batch(program.clone(), scs.clone(), seed);
            for (sc, r) in scs.iter().zip(results) {
                out.evaluations += 1;
                out.nontrivial(&format!("hb{:?}{:?}{:?}{sc:?}", k.def, k.top, k.hist));
                let case = json!({"kind": "heartbeat", "program": program_json(program), "peers": sc.peers, "pattern": sc.pattern, "local_first": sc.local_first});
                match r {
                    Ok(sizes) => {
                        out.count("heartbeat_runs_ok", 1);
                        if sizes.iter().any(|s| s.0 > 0 || s.1 > 0) {
                            out.count("heartbeat_runs_with_mesh_peers", 1);
                        }
                        if out.evaluations % 499 == 1 {
                            out.sample(json!({"case": case, "mesh_sizes_after_each_heartbeat(T,U)": sizes}));
                        }
                    }
                    Err(e) => match e.strip_prefix("panic :: ") {
                        Some(p) => {
                            out.count("heartbeat_runs_panicked", 1);
                            let sig = heartbeat_signature(k, p);
                            if out.violations.iter().any(|v| v.signature == sig) {
                                continue;
                            }
                            // confirm as a stand-alone execution (exactly what --replay does)
                            match heartbeat_run(program.clone(), sc.clone(), seed) {
                                Err(e2) if e2.starts_with("panic :: ") => {
                                    let loc = mc::shim::last_panic_loc().unwrap_or_default();
                                    out.violation(sig, format!("heartbeat panicked ({p}) with accepted config default {:?} topic {:?} [outbound_min, n_low, n, n_high], scenario {sc:?} {loc}", k.def, k.top), case);
                                }
                                other => out.machinery(format!("NONDETERMINISM: heartbeat panic in batch not reproduced stand-alone ({other:?}) for {case}")),
                            }
                        }
                        None => out.machinery(e),
                    },
                }
            }
        }
        out
    })
}

pub fn run(ctx: &Ctx) -> Outcome {
    if let Some(case) = &ctx.replay {
        let mut out = Outcome::default();
        out.evaluations = 1;
        let program = if case["kind"].as_str() == Some("valid-topic-config") {
            Vec::new()
        } else {
            match program_from_json(&case["program"]) {
                Some(p) => p,
                None => {
                    out.machinery("bad replay case");
                    return out;
                }
            }
        };
        match case["kind"].as_str() {
            Some("build") => {
                if let Ok(Ok(c)) = build(&program) {
                    let k = key(&c);
                    for m in judge(&program, &k) {
                        if mc::bfs::signature_of(&m) == case["signature"].as_str().unwrap_or("") || case["signature"].is_null() {
                            out.violation(mc::bfs::signature_of(&m), m, case.clone());
                        }
                    }
                }
            }
            Some("heartbeat") => {
                let sc = Scenario { peers: case["peers"].as_u64().unwrap_or(0) as u8, pattern: case["pattern"].as_u64().unwrap_or(0) as u8, local_first: case["local_first"].as_bool().unwrap_or(true) };
                if let Ok(Ok(c)) = build(&program) {
                    let k = key(&c);
                    if let Err(e) = heartbeat_run(program.clone(), sc, ctx.seed) {
                        if let Some(p) = e.strip_prefix("panic :: ") {
                            out.violation(heartbeat_signature(&k, p), format!("heartbeat panicked: {p}"), case.clone());
                        }
                    }
                }
            }
            Some("valid-topic-config") => {
                let sc = VScenario { cfg: case["cfg"].as_u64().unwrap_or(0) as usize, peers: case["peers"].as_u64().unwrap_or(0) as u8, grafts: case["grafts"].as_u64().unwrap_or(0) as u8, local_first: case["local_first"].as_bool().unwrap_or(true) };
                if let (Err(m), _) = valid_run(sc, ctx.seed) {
                    out.violation(mc::bfs::signature_of(&m), m, case.clone());
                }
            }
            _ => out.machinery("bad replay case"),
        }
        return out;
    }

    // worker processes of phase 2 get the unit list from the parent (file named in the
    // environment) instead of repeating phase 1
    if ctx.worker.is_some() {
        if let Ok(path) = std::env::var("VH_C34_UNITS") {
            let text = std::fs::read_to_string(&path).unwrap_or_default();
            let progs: Vec<Value> = serde_json::from_str(&text).unwrap_or_default();
            let hb: Vec<(Key, Vec<(&'static str, usize)>)> = progs
                .iter()
                .filter_map(|p| {
                    let program = program_from_json(p)?;
                    let c = build(&program).ok()?.ok()?;
                    Some((key(&c), program))
                })
                .collect();
            let out = phase2(ctx, &hb);
            // not reached in a worker (`workers` exits), kept for completeness
            return out;
        }
    }
    // ---- phase 1: every program (deterministic order)
    let alpha = alphabet();
    let maxlen = ctx.tier.pick(3, 4);
    let mut p1 = Outcome::default();
    // distinct accepted configs -> first (shortest, lexicographically first) program
    let mut accepted: BTreeMap<Key, Vec<(&'static str, usize)>> = BTreeMap::new();
    let mut rejected: BTreeMap<String, u64> = BTreeMap::new();
    let mut n_accepted = 0u64;
    mc::enumerate::sequences_upto(alpha.len(), maxlen, |ix| {
        let program: Vec<(&'static str, usize)> = ix.iter().map(|&i| alpha[i]).collect();
        p1.evaluations += 1;
        match build(&program) {
            Err(e) => p1.machinery(e),
            Ok(Err(e)) => *rejected.entry(e).or_insert(0) += 1,
            Ok(Ok(c)) => {
                n_accepted += 1;
                let k = key(&c);
                for m in judge(&program, &k) {
                    let sig = mc::bfs::signature_of(&m);
                    p1.violation(sig.clone(), format!("{m}; program {program:?}"), json!({"kind": "build", "program": program_json(&program), "signature": sig}));
                }
                accepted.entry(k).or_insert(program);
            }
        }
    });
    for k in accepted.keys() {
        p1.nontrivial(&format!("{k:?}"));
    }
    p1.count("programs", p1.evaluations);
    p1.count("programs_accepted", n_accepted);
    p1.count("distinct_accepted_configs", accepted.len() as u64);
    for (e, n) in &rejected {
        p1.count(&format!("programs_rejected_{e}"), *n);
    }
    for must in ["MeshParametersInvalid", "MeshOutboundInvalid", "MaxTransmissionSizeTooSmall", "HistoryLengthTooSmall"] {
        if !rejected.contains_key(must) {
            p1.machinery(format!("vacuity: no program was rejected with {must}"));
        }
    }
    if let Some((k, p)) = accepted.iter().next() {
        p1.sample(json!({"program": program_json(p), "accepted_config": format!("{k:?}")}));
    }

    // ---- phase 2: heartbeat runs for every distinct accepted mesh parameter set (as default
    // set: topic U; as per-topic set: topic T) and every distinct accepted history pair
    let mut units: BTreeMap<(u8, Vec<usize>), (Key, Vec<(&'static str, usize)>)> = BTreeMap::new();
    for (k, p) in &accepted {
        let mut put = |id: (u8, Vec<usize>)| {
            let e = units.entry(id).or_insert_with(|| (k.clone(), p.clone()));
            if p.len() < e.1.len() {
                *e = (k.clone(), p.clone()); // prefer the shortest program
            }
        };
        put((0, k.def.to_vec()));
        if k.top != k.def {
            put((1, k.top.to_vec()));
        }
        put((2, k.hist.to_vec()));
    }
    let hb: Vec<(Key, Vec<(&'static str, usize)>)> = units.into_values().collect();
    let path = std::env::temp_dir().join(format!("vh-c34-units-{}.json", std::process::id()));
    let _ = std::fs::write(&path, serde_json::to_string(&hb.iter().map(|(_, p)| program_json(p)).collect::<Vec<_>>()).unwrap());
    std::env::set_var("VH_C34_UNITS", &path);
    let p2 = phase2(ctx, &hb);
    let _ = std::fs::remove_file(&path);
    // (in a worker process `workers` does not return; only the parent gets here)
    let mut out = p1;
    out.count("heartbeat_config_combinations", hb.len() as u64);
    out.merge(p2);
    out.merge(phase3(ctx));
    if out.get("heartbeat_runs_with_mesh_peers") == 0 {
        out.machinery("vacuity: no heartbeat run ever had a peer in a mesh");
    }
    out
}
