//! C34 — accepted gossipsub configs never break the behaviour (E3: complete enumeration of
//! builder programs; then every distinct accepted configuration is run in a standalone
//! `Behaviour` with 0-4 subscribed peers through 3 heartbeats).
//!
//! Oracle = the statement: `build() == Ok(c)` implies
//!   mesh_outbound_min <= mesh_n_low <= mesh_n <= mesh_n_high and 2*mesh_outbound_min <= mesh_n
//! for the default set and for the per-topic set of topic T, history_gossip <= history_length,
//! max_transmit_size >= 100 (default and per-topic); and no accepted config makes `heartbeat`
//! panic (the harness is built with overflow checks on).

use crate::node;
use kit::ids::keypair;
use libp2p_gossipsub::verif_gs_unit::TopicMeshConfig;
use libp2p_gossipsub::{Behaviour, Config, ConfigBuilder, IdentTopic, MessageAuthenticity, TopicHash};
use mc::{json, Ctx, Meta, Outcome, Value};
use std::collections::BTreeMap;

pub const META: Meta = Meta {
    level: "exploration",
    rule: "all programs of <= 3 (quick) / <= 4 (thorough) calls over 57 setter calls: mesh_n / mesh_n_low / mesh_n_high / mesh_outbound_min (default and _for_topic(T)) x {0,1,2,3,6}, set_topic_config(T, 3 presets), history_length / history_gossip x {0,1,2,3}, max_transmit_size / max_transmit_size_for_topic(T) x {0,99,100}; every program built with the real ConfigBuilder. Then, for every distinct accepted mesh parameter set (as default set and as per-topic set) and history pair: standalone Behaviour subscribed to T (per-topic parameters) and U (default parameters), 0-4 peers x {inbound, outbound, alternating} x {local subscription first, peers first}, 3 heartbeats. Non-trivial = distinct accepted configurations (by getter values) and distinct heartbeat scenarios.",
    explanation: "Complete enumeration (E3) of builder programs against the stated inequalities, followed by execution of the real heartbeat for every distinct accepted configuration; panics are caught and reported with the configuration.",
    assumptions: &["one configured topic T besides the defaults", "values {0,1,2,3,6} for mesh parameters, <= 4 peers", "heartbeat invoked through a cfg(libp2p_verif) hook; the behaviour's own timer is disarmed by a 10-year initial delay"],
};

const MESH_VALUES: [usize; 5] = [0, 1, 2, 3, 6];
const HIST_VALUES: [usize; 4] = [0, 1, 2, 3];
const SIZE_VALUES: [usize; 3] = [0, 99, 100];
/// presets for set_topic_config: (n, low, high, outbound_min)
const PRESETS: [(usize, usize, usize, usize); 3] = [(6, 5, 12, 2), (1, 5, 2, 4), (2, 1, 3, 1)];

fn topic_t() -> TopicHash {
    IdentTopic::new("T").hash()
}

/// the alphabet of setter calls: (name, value)
fn alphabet() -> Vec<(&'static str, usize)> {
    let mut v = Vec::new();
    for name in ["mesh_n", "mesh_n_low", "mesh_n_high", "mesh_outbound_min", "mesh_n_for_topic", "mesh_n_low_for_topic", "mesh_n_high_for_topic", "mesh_outbound_min_for_topic"] {
        for x in MESH_VALUES {
            v.push((name, x));
        }
    }
    for i in 0..PRESETS.len() {
        v.push(("set_topic_config", i));
    }
    for name in ["history_length", "history_gossip"] {
        for x in HIST_VALUES {
            v.push((name, x));
        }
    }
    for name in ["max_transmit_size", "max_transmit_size_for_topic"] {
        for x in SIZE_VALUES {
            v.push((name, x));
        }
    }
    v
}

fn apply(b: &mut ConfigBuilder, call: &(&str, usize)) -> Result<(), String> {
    let t = topic_t();
    let x = call.1;
    match call.0 {
        "mesh_n" => b.mesh_n(x),
        "mesh_n_low" => b.mesh_n_low(x),
        "mesh_n_high" => b.mesh_n_high(x),
        "mesh_outbound_min" => b.mesh_outbound_min(x),
        "mesh_n_for_topic" => b.mesh_n_for_topic(x, t),
        "mesh_n_low_for_topic" => b.mesh_n_low_for_topic(x, t),
        "mesh_n_high_for_topic" => b.mesh_n_high_for_topic(x, t),
        "mesh_outbound_min_for_topic" => b.mesh_outbound_min_for_topic(x, t),
        "set_topic_config" => {
            let p = PRESETS.get(x).ok_or("bad preset")?;
            let (n, low, high, out) = *p;
            b.set_topic_config(t, TopicMeshConfig { mesh_n: n, mesh_n_low: low, mesh_n_high: high, mesh_outbound_min: out })
        }
        "history_length" => b.history_length(x),
        "history_gossip" => b.history_gossip(x),
        "max_transmit_size" => b.max_transmit_size(x),
        "max_transmit_size_for_topic" => b.max_transmit_size_for_topic(x, t),
        other => return Err(format!("unknown setter {other}")),
    };
    Ok(())
}

fn build(program: &[(&str, usize)]) -> Result<Result<Config, String>, String> {
    let mut b = ConfigBuilder::default();
    b.heartbeat_initial_delay(node::NEVER);
    for c in program {
        apply(&mut b, c)?;
    }
    Ok(b.build().map_err(|e| format!("{e:?}")))
}

/// every getter the statement speaks about: (default mesh, T mesh, history, sizes)
#[derive(Clone, Debug, PartialEq, Eq, PartialOrd, Ord)]
struct Key {
    def: [usize; 4],
    top: [usize; 4],
    hist: [usize; 2],
    size: [usize; 2],
}

fn key(c: &Config) -> Key {
    let t = topic_t();
    Key {
        def: [c.mesh_outbound_min(), c.mesh_n_low(), c.mesh_n(), c.mesh_n_high()],
        top: [c.mesh_outbound_min_for_topic(&t), c.mesh_n_low_for_topic(&t), c.mesh_n_for_topic(&t), c.mesh_n_high_for_topic(&t)],
        hist: [c.history_length(), c.history_gossip()],
        size: [c.max_transmit_size(), c.max_transmit_size_for_topic(&t)],
    }
}

/// first broken inequality of a mesh parameter set [outbound_min, n_low, n, n_high]
fn mesh_broken(m: &[usize; 4]) -> Option<&'static str> {
    let [o, l, n, h] = *m;
    if o > l {
        Some("outbound_min>n_low")
    } else if l > n {
        Some("n_low>n")
    } else if n > h {
        Some("n>n_high")
    } else if 2 * o > n {
        Some("2*outbound_min>n")
    } else {
        None
    }
}

/// the statement's verdict on an accepted config; Err(signature :: details) per broken clause
fn judge(program: &[(&str, usize)], k: &Key) -> Vec<String> {
    let mut v = Vec::new();
    let topic_has_size = program.iter().any(|c| c.0 == "max_transmit_size_for_topic");
    if let Some(w) = mesh_broken(&k.def) {
        v.push(format!("accepted-invalid-mesh:default:{w} :: build() accepted default mesh parameters [outbound_min, n_low, n, n_high] = {:?}", k.def));
    }
    if let Some(w) = mesh_broken(&k.top) {
        if k.top != k.def {
            let path = if topic_has_size { "topic-with-transmit-size" } else { "topic-without-transmit-size" };
            v.push(format!("accepted-invalid-mesh:{path}:{w} :: build() accepted mesh parameters for topic T [outbound_min, n_low, n, n_high] = {:?}", k.top));
        }
    }
    if k.hist[1] > k.hist[0] {
        v.push(format!("accepted-history-gossip-exceeds-length :: history_length {} < history_gossip {}", k.hist[0], k.hist[1]));
    }
    if k.size[0] < 100 {
        v.push(format!("accepted-transmit-size-below-100:default :: max_transmit_size = {}", k.size[0]));
    }
    if k.size[1] < 100 && topic_has_size {
        v.push(format!("accepted-transmit-size-below-100:topic :: max_transmit_size_for_topic(T) = {}", k.size[1]));
    }
    v
}

// ---------------------------------------------------------------------------------------------
// heartbeat runs

#[derive(Clone, Debug, PartialEq, Eq, PartialOrd, Ord)]
struct Scenario {
    peers: u8,
    /// 0 = all inbound, 1 = all outbound, 2 = alternating
    pattern: u8,
    /// true = local subscriptions first, then peers connect and subscribe
    local_first: bool,
}

fn scenarios() -> Vec<Scenario> {
    let mut v = Vec::new();
    for peers in 0..=4u8 {
        for pattern in 0..3u8 {
            for local_first in [true, false] {
                if peers == 0 && (pattern > 0 || !local_first) {
                    continue;
                }
                v.push(Scenario { peers, pattern, local_first });
            }
        }
    }
    v
}

/// run the scenario on the real behaviour (current thread); Ok(mesh sizes after each heartbeat)
fn heartbeat_inner(program: &[(&'static str, usize)], sc: &Scenario) -> Result<Vec<(usize, usize)>, String> {
    let cfg = build(program)?.map_err(|e| format!("harness :: config no longer builds: {e}"))?;
    let mut b: Behaviour = Behaviour::new(MessageAuthenticity::Signed(keypair(0)), cfg).map_err(|e| format!("harness :: Behaviour::new: {e}"))?;
    let t = IdentTopic::new("T");
    let u = IdentTopic::new("U");
    let mut handlers = Vec::new();
    let subscribe_local = |b: &mut Behaviour| -> Result<(), String> {
        b.subscribe(&t).map_err(|e| format!("harness :: subscribe: {e:?}"))?;
        b.subscribe(&u).map_err(|e| format!("harness :: subscribe: {e:?}"))?;
        Ok(())
    };
    if sc.local_first {
        subscribe_local(&mut b)?;
    }
    for i in 1..=sc.peers {
        let outbound = match sc.pattern {
            0 => false,
            1 => true,
            _ => i % 2 == 0,
        };
        handlers.push(node::connect(&mut b, i, outbound));
        node::deliver(&mut b, i, &node::subs_rpc(&[(true, "T"), (true, "U")])).map_err(|e| format!("harness :: {e}"))?;
    }
    if !sc.local_first {
        subscribe_local(&mut b)?;
    }
    let mut sizes = Vec::new();
    for _ in 0..3 {
        b.verif_gs_unit_heartbeat();
        sizes.push((b.mesh_peers(&t.hash()).count(), b.mesh_peers(&u.hash()).count()));
    }
    drop(handlers);
    Ok(sizes)
}

/// one scenario as one isolated execution (fresh thread, entropy and clock reset): this is what
/// `--replay` runs, and what confirms every panic found by the batched exploration
fn heartbeat_run(program: Vec<(&'static str, usize)>, sc: Scenario, seed: u64) -> Result<Vec<(usize, usize)>, String> {
    match mc::isolated(seed, move || heartbeat_inner(&program, &sc)) {
        Ok(x) => x,
        Err(p) => Err(format!("panic :: {p}")),
    }
}

/// all scenarios of one configuration in one isolated execution; per scenario Ok(sizes) / Err
fn heartbeat_batch(program: Vec<(&'static str, usize)>, scs: Vec<Scenario>, seed: u64) -> Vec<Result<Vec<(usize, usize)>, String>> {
    let n = scs.len();
    mc::isolated(seed, move || {
        scs.iter()
            .map(|sc| match mc::catch(|| heartbeat_inner(&program, sc)) {
                Ok(r) => r,
                Err(p) => Err(format!("panic :: {p}")),
            })
            .collect::<Vec<_>>()
    })
    .unwrap_or_else(|p| vec![Err(format!("harness :: batch thread died: {p}")); n])
}

fn heartbeat_signature(k: &Key, panic: &str) -> String {
    // which parameter set can make the heartbeat arithmetic underflow
    let class = |m: &[usize; 4]| -> Option<&'static str> {
        if m[1] > m[2] {
            Some("n_low>n")
        } else if m[3] < m[2] {
            Some("n_high<n")
        } else {
            None
        }
    };
    let top = if k.top != k.def { class(&k.top) } else { None };
    let c = top.map(|c| format!("topic:{c}")).or_else(|| class(&k.def).map(|c| format!("default:{c}"))).unwrap_or_else(|| "valid-parameters".into());
    let what = if panic.contains("subtract with overflow") { "subtract-overflow" } else { "other" };
    format!("heartbeat-panic:{what}:{c}")
}

fn program_json(p: &[(&str, usize)]) -> Value {
    json!(p.iter().map(|c| json!([c.0, c.1])).collect::<Vec<_>>())
}

fn program_from_json(v: &Value) -> Option<Vec<(&'static str, usize)>> {
    let alpha = alphabet();
    v.as_array()?
        .iter()
        .map(|c| {
            let name = c.get(0)?.as_str()?;
            let x = c.get(1)?.as_u64()? as usize;
            alpha.iter().find(|a| a.0 == name && a.1 == x).copied()
        })
        .collect()
}


fn phase2(ctx: &Ctx, hb: &[(Key, Vec<(&'static str, usize)>)]) -> Outcome {
    let scs = scenarios();
    let seed = ctx.seed;
    mc::workers(ctx, 16, |ctx| {
        let mut out = Outcome::default();
        for (i, (k, program)) in hb.iter().enumerate() {
            if !ctx.mine(i as u64) {
                continue;
            }
            let results = heartbeat_batch(program.clone(), scs.clone(), seed);
            for (sc, r) in scs.iter().zip(results) {
                out.evaluations += 1;
                out.nontrivial(&format!("hb{:?}{:?}{:?}{sc:?}", k.def, k.top, k.hist));
                let case = json!({"kind": "heartbeat", "program": program_json(program), "peers": sc.peers, "pattern": sc.pattern, "local_first": sc.local_first});
                match r {
                    Ok(sizes) => {
                        out.count("heartbeat_runs_ok", 1);
                        if sizes.iter().any(|s| s.0 > 0 || s.1 > 0) {
                            out.count("heartbeat_runs_with_mesh_peers", 1);
                        }
                        if out.evaluations % 499 == 1 {
                            out.sample(json!({"case": case, "mesh_sizes_after_each_heartbeat(T,U)": sizes}));
                        }
                    }
                    Err(e) => match e.strip_prefix("panic :: ") {
                        Some(p) => {
                            out.count("heartbeat_runs_panicked", 1);
                            let sig = heartbeat_signature(k, p);
                            if out.violations.iter().any(|v| v.signature == sig) {
                                continue;
                            }
                            // confirm as a stand-alone execution (exactly what --replay does)
                            match heartbeat_run(program.clone(), sc.clone(), seed) {
                                Err(e2) if e2.starts_with("panic :: ") => {
                                    let loc = mc::shim::last_panic_loc().unwrap_or_default();
                                    out.violation(sig, format!("heartbeat panicked ({p}) with accepted config default {:?} topic {:?} [outbound_min, n_low, n, n_high], scenario {sc:?} {loc}", k.def, k.top), case);
                                }
                                other => out.machinery(format!("NONDETERMINISM: heartbeat panic in batch not reproduced stand-alone ({other:?}) for {case}")),
                            }
                        }
                        None => out.machinery(e),
                    },
                }
            }
        }
        out
    })
}

pub fn run(ctx: &Ctx) -> Outcome {
    if let Some(case) = &ctx.replay {
        let mut out = Outcome::default();
        out.evaluations = 1;
        let Some(program) = program_from_json(&case["program"]) else {
            out.machinery("bad replay case");
            return out;
        };
        match case["kind"].as_str() {
            Some("build") => {
                if let Ok(Ok(c)) = build(&program) {
                    let k = key(&c);
                    for m in judge(&program, &k) {
                        if mc::bfs::signature_of(&m) == case["signature"].as_str().unwrap_or("") || case["signature"].is_null() {
                            out.violation(mc::bfs::signature_of(&m), m, case.clone());
                        }
                    }
                }
            }
            Some("heartbeat") => {
                let sc = Scenario { peers: case["peers"].as_u64().unwrap_or(0) as u8, pattern: case["pattern"].as_u64().unwrap_or(0) as u8, local_first: case["local_first"].as_bool().unwrap_or(true) };
                if let Ok(Ok(c)) = build(&program) {
                    let k = key(&c);
                    if let Err(e) = heartbeat_run(program.clone(), sc, ctx.seed) {
                        if let Some(p) = e.strip_prefix("panic :: ") {
                            out.violation(heartbeat_signature(&k, p), format!("heartbeat panicked: {p}"), case.clone());
                        }
                    }
                }
            }
            _ => out.machinery("bad replay case"),
        }
        return out;
    }

    // worker processes of phase 2 get the unit list from the parent (file named in the
    // environment) instead of repeating phase 1
    if ctx.worker.is_some() {
        if let Ok(path) = std::env::var("VH_C34_UNITS") {
            let text = std::fs::read_to_string(&path).unwrap_or_default();
            let progs: Vec<Value> = serde_json::from_str(&text).unwrap_or_default();
            let hb: Vec<(Key, Vec<(&'static str, usize)>)> = progs
                .iter()
                .filter_map(|p| {
                    let program = program_from_json(p)?;
                    let c = build(&program).ok()?.ok()?;
                    Some((key(&c), program))
                })
                .collect();
            let out = phase2(ctx, &hb);
            // not reached in a worker (`workers` exits), kept for completeness
            return out;
        }
    }
    // ---- phase 1: every program (deterministic order)
    let alpha = alphabet();
    let maxlen = ctx.tier.pick(3, 4);
    let mut p1 = Outcome::default();
    // distinct accepted configs -> first (shortest, lexicographically first) program
    let mut accepted: BTreeMap<Key, Vec<(&'static str, usize)>> = BTreeMap::new();
    let mut rejected: BTreeMap<String, u64> = BTreeMap::new();
    let mut n_accepted = 0u64;
    mc::enumerate::sequences_upto(alpha.len(), maxlen, |ix| {
        let program: Vec<(&'static str, usize)> = ix.iter().map(|&i| alpha[i]).collect();
        p1.evaluations += 1;
        match build(&program) {
            Err(e) => p1.machinery(e),
            Ok(Err(e)) => *rejected.entry(e).or_insert(0) += 1,
            Ok(Ok(c)) => {
                n_accepted += 1;
                let k = key(&c);
                for m in judge(&program, &k) {
                    let sig = mc::bfs::signature_of(&m);
                    p1.violation(sig.clone(), format!("{m}; program {program:?}"), json!({"kind": "build", "program": program_json(&program), "signature": sig}));
                }
                accepted.entry(k).or_insert(program);
            }
        }
    });
    for k in accepted.keys() {
        p1.nontrivial(&format!("{k:?}"));
    }
    p1.count("programs", p1.evaluations);
    p1.count("programs_accepted", n_accepted);
    p1.count("distinct_accepted_configs", accepted.len() as u64);
    for (e, n) in &rejected {
        p1.count(&format!("programs_rejected_{e}"), *n);
    }
    for must in ["MeshParametersInvalid", "MeshOutboundInvalid", "MaxTransmissionSizeTooSmall", "HistoryLengthTooSmall"] {
        if !rejected.contains_key(must) {
            p1.machinery(format!("vacuity: no program was rejected with {must}"));
        }
    }
    if let Some((k, p)) = accepted.iter().next() {
        p1.sample(json!({"program": program_json(p), "accepted_config": format!("{k:?}")}));
    }

    // ---- phase 2: heartbeat runs for every distinct accepted mesh parameter set (as default
    // set: topic U; as per-topic set: topic T) and every distinct accepted history pair
    let mut units: BTreeMap<(u8, Vec<usize>), (Key, Vec<(&'static str, usize)>)> = BTreeMap::new();
    for (k, p) in &accepted {
        let mut put = |id: (u8, Vec<usize>)| {
            let e = units.entry(id).or_insert_with(|| (k.clone(), p.clone()));
            if p.len() < e.1.len() {
                *e = (k.clone(), p.clone()); // prefer the shortest program
            }
        };
        put((0, k.def.to_vec()));
        if k.top != k.def {
            put((1, k.top.to_vec()));
        }
        put((2, k.hist.to_vec()));
    }
    let hb: Vec<(Key, Vec<(&'static str, usize)>)> = units.into_values().collect();
    let path = std::env::temp_dir().join(format!("vh-c34-units-{}.json", std::process::id()));
    let _ = std::fs::write(&path, serde_json::to_string(&hb.iter().map(|(_, p)| program_json(p)).collect::<Vec<_>>()).unwrap());
    std::env::set_var("VH_C34_UNITS", &path);
    let p2 = phase2(ctx, &hb);
    let _ = std::fs::remove_file(&path);
    // (in a worker process `workers` does not return; only the parent gets here)
    let mut out = p1;
    out.count("heartbeat_config_combinations", hb.len() as u64);
    out.merge(p2);
    if out.get("heartbeat_runs_with_mesh_peers") == 0 {
        out.machinery("vacuity: no heartbeat run ever had a peer in a mesh");
    }
    out
}
