//! C32 — gossipsub backoff is never shortened (E2: BFS over update / heartbeat / advance
//! histories of the real `BackoffStorage` on the virtual clock, against a reference deadline).
//!
//! Reading of the statement used by the oracle (nothing more is demanded):
//!  * reference deadline of a (topic, peer) pair = max over all updates of (time of update + d);
//!  * while `now < deadline` the storage must answer `is_backoff_with_slack == true` and
//!    `get_backoff_time() >= deadline` ("never shortened", whatever updates / heartbeats happen);
//!  * "eventually forgets": once `now >= deadline + slack*interval`, a full cycle of heartbeats
//!    (table length = ceil(prune_backoff/interval) + slack + 1) without a new update must have
//!    removed the entry; a pair that was never updated (or was forgotten) is not backed off.
//!  Between expiry and the end of that cycle both answers are accepted (slack is documented).

use crate::c32b::{self, BSys};
use kit::ids::peer;
use libp2p_gossipsub::verif_gs_unit::Backoff;
use libp2p_gossipsub::TopicHash;
use mc::bfs::{self, System};
use mc::{json, vclock, Ctx, Meta, Outcome, Value};
use serde::{Deserialize, Serialize};
use std::sync::atomic::{AtomicU64, Ordering::Relaxed};
use std::time::{Duration, Instant};

pub const META: Meta = Meta {
    level: "model_checking",
    rule: "BFS over all histories of update(pair, d in {1,3,7} heartbeat intervals) / heartbeat / advance(1/2 interval) / advance(1 interval) on the real BackoffStorage (prune_backoff = 3 intervals, slack in {0,1}, 2 topic-peer pairs to depth 10 (quick); 2 pairs to depth 13 and 3 pairs to depth 9 (thorough)), virtual clock; states deduplicated on (reference deadlines relative to now, storage answers, slot phase). Behaviour level: BFS (depth 8 quick / 10 thorough) over local subscribe / unsubscribe / publish, remote SUBSCRIBE / GRAFT / PRUNE (no, 1 s, 2 x prune_backoff backoff field) of 2 peers, heartbeat, advance(1 interval) on a standalone real Behaviour (flood_publish off, prune_backoff 4 s, unsubscribe_backoff 2 s): no peer enters the mesh (heartbeat, JOIN incl. fanout promotion, remote SUBSCRIBE, remote GRAFT) before its reference backoff deadline. Non-trivial = states in which the storage holds at least one backoff entry / a reference backoff is pending.",
    explanation: "After every step each pair is compared with the reference deadline (max over updates of t+d): backed off and get_backoff_time >= deadline while now < deadline; entry gone after deadline + slack and one full heartbeat cycle; never-updated pairs not backed off. An un-deduplicated DFS to a smaller depth re-checks all paths without merging.",
    assumptions: &["2-3 (topic, peer) pairs, durations of 1/3/7 intervals (7 > table length: slot index wraps)", "time advances in half-interval steps"],
};

const INTERVAL_MS: u64 = 1000;
const PRUNE_BACKOFF_INTERVALS: u64 = 3;
const DURS: [u64; 3] = [1, 3, 7];

static OBS_FORGOTTEN: AtomicU64 = AtomicU64::new(0);
static OBS_EXTENDED: AtomicU64 = AtomicU64::new(0);
static OBS_NOT_SHORTENED: AtomicU64 = AtomicU64::new(0);
static OBS_KEPT_BY_HEARTBEAT: AtomicU64 = AtomicU64::new(0);
static OBS_EXPIRED_STILL_PRESENT: AtomicU64 = AtomicU64::new(0);

#[derive(Clone, Debug, Serialize, Deserialize, PartialEq)]
pub enum Act {
    /// update_backoff(pair, d heartbeat intervals)
    Update(u8, u64),
    Heartbeat,
    /// advance the clock by n half-intervals
    Advance(u8),
}

#[derive(Clone, Debug, Default)]
struct Ref {
    /// reference deadline in ms since start (None = never updated / forgotten)
    deadline: Option<u64>,
    /// heartbeats executed at now >= deadline + slack since the last effective update
    hb_after: u64,
    /// dedup only: slot of the entry relative to the storage's current heartbeat index
    slot_rel: u64,
}

pub struct Sys {
    st: Backoff,
    t0: Instant,
    slack: u64,
    npairs: u8,
    table: u64,
    refs: Vec<Ref>,
}

fn pair(i: u8) -> (TopicHash, libp2p_identity::PeerId) {
    match i {
        0 => (TopicHash::from_raw("T1"), peer(1)),
        1 => (TopicHash::from_raw("T1"), peer(2)),
        _ => (TopicHash::from_raw("T2"), peer(1)),
    }
}

impl Sys {
    pub fn new(slack: u64, npairs: u8) -> Self {
        vclock::reset();
        let st = Backoff::new(Duration::from_millis(PRUNE_BACKOFF_INTERVALS * INTERVAL_MS), Duration::from_millis(INTERVAL_MS), slack as u32);
        Sys { st, t0: Instant::now(), slack, npairs, table: PRUNE_BACKOFF_INTERVALS + slack + 1, refs: vec![Ref::default(); npairs as usize] }
    }
    fn now_ms(&self) -> u64 {
        Instant::now().duration_since(self.t0).as_millis() as u64
    }
    fn impl_time(&self, i: u8) -> Option<u64> {
        let (t, p) = pair(i);
        self.st.get_backoff_time(&t, &p).map(|x| x.duration_since(self.t0).as_millis() as u64)
    }
    fn impl_backoff(&self, i: u8) -> bool {
        let (t, p) = pair(i);
        self.st.is_backoff_with_slack(&t, &p)
    }
    /// compare every pair with the reference; fold "forgotten" into the reference
    fn compare(&mut self, after: &Act) -> Result<(), String> {
        let now = self.now_ms();
        for i in 0..self.npairs {
            let present = self.impl_backoff(i);
            let time = self.impl_time(i);
            if present != time.is_some() {
                return Err(format!("getters-disagree :: pair {i}: is_backoff_with_slack={present} get_backoff_time={time:?}"));
            }
            let r = &mut self.refs[i as usize];
            match r.deadline {
                None => {
                    if present {
                        return Err(format!("spurious-backoff :: pair {i} backed off (until {time:?}) without a pending reference backoff at {now} after {after:?}"));
                    }
                }
                Some(d) => {
                    if now < d {
                        if !present {
                            return Err(format!("backoff-forgotten-early :: pair {i}: reference deadline {d} ms, now {now} ms, storage says not backed off after {after:?}"));
                        }
                        let x = time.unwrap();
                        if x < d {
                            return Err(format!("backoff-shortened :: pair {i}: reference deadline {d} ms, storage deadline {x} ms at {now} ms after {after:?}"));
                        }
                    } else if present {
                        OBS_EXPIRED_STILL_PRESENT.fetch_add(1, Relaxed);
                        if now >= d + self.slack * INTERVAL_MS && r.hb_after >= self.table {
                            return Err(format!("backoff-never-forgotten :: pair {i}: deadline {d} ms + slack passed, {} heartbeats since (table {}), still backed off at {now} ms", r.hb_after, self.table));
                        }
                    } else {
                        // forgotten at/after the deadline: fine
                        OBS_FORGOTTEN.fetch_add(1, Relaxed);
                        *r = Ref::default();
                    }
                }
            }
        }
        Ok(())
    }
}

impl System for Sys {
    type Action = Act;
    fn actions(&self) -> Vec<Act> {
        let mut v = Vec::new();
        for i in 0..self.npairs {
            for d in DURS {
                v.push(Act::Update(i, d));
            }
        }
        v.push(Act::Heartbeat);
        v.push(Act::Advance(1));
        v.push(Act::Advance(2));
        v
    }
    fn step(&mut self, a: &Act) -> Result<(), String> {
        match a {
            Act::Update(i, d) => {
                let (t, p) = pair(*i);
                let now = self.now_ms();
                let before = self.impl_time(*i);
                self.st.update_backoff(&t, &p, Duration::from_millis(d * INTERVAL_MS));
                let after = self.impl_time(*i);
                let nd = now + d * INTERVAL_MS;
                let slack = self.slack;
                let table = self.table;
                let r = &mut self.refs[*i as usize];
                let newd = r.deadline.map_or(nd, |old| old.max(nd));
                if r.deadline != Some(newd) {
                    r.deadline = Some(newd);
                    r.hb_after = 0;
                    OBS_EXTENDED.fetch_add(1, Relaxed);
                } else {
                    OBS_NOT_SHORTENED.fetch_add(1, Relaxed);
                }
                if before != after {
                    // dedup only: where the entry now sits relative to the current heartbeat index
                    r.slot_rel = (d + slack) % table;
                }
            }
            Act::Heartbeat => {
                let now = self.now_ms();
                let before: Vec<bool> = (0..self.npairs).map(|i| self.impl_backoff(i)).collect();
                self.st.heartbeat();
                for i in 0..self.npairs {
                    let slack_ms = self.slack * INTERVAL_MS;
                    let table = self.table;
                    let present = self.impl_backoff(i);
                    let r = &mut self.refs[i as usize];
                    if let Some(d) = r.deadline {
                        if now >= d + slack_ms {
                            r.hb_after += 1;
                        }
                    }
                    r.slot_rel = (r.slot_rel + table - 1) % table;
                    if before[i as usize] && present {
                        OBS_KEPT_BY_HEARTBEAT.fetch_add(1, Relaxed);
                    }
                }
            }
            Act::Advance(n) => vclock::advance(Duration::from_millis(*n as u64 * INTERVAL_MS / 2)),
        }
        self.compare(a)
    }
    fn canon(&self) -> Vec<u8> {
        let now = self.now_ms() as i64;
        let mut s = String::new();
        for i in 0..self.npairs {
            let r = &self.refs[i as usize];
            let t = self.impl_time(i).map(|x| x as i64 - now);
            s.push_str(&format!("{:?}/{:?}/{}/{}|", r.deadline.map(|d| d as i64 - now), t, if t.is_some() { r.slot_rel } else { 0 }, if t.is_some() { r.hb_after } else { 0 }));
        }
        s.into_bytes()
    }
    fn nontrivial(&self) -> bool {
        (0..self.npairs).any(|i| self.impl_backoff(i))
    }
}

pub fn run(ctx: &Ctx) -> Outcome {
    let mut out = Outcome::default();
    if let Some(case) = &ctx.replay {
        out.evaluations = 1;
        if case["cfg"]["part"].as_str() == Some("behaviour") {
            if let Err(m) = bfs::replay_history(BSys::new(), case) {
                out.violation(bfs::signature_of(&m), m, case.clone());
            }
            return out;
        }
        let slack = case["cfg"]["slack"].as_u64().unwrap_or(1);
        let np = case["cfg"]["pairs"].as_u64().unwrap_or(2) as u8;
        if let Err(m) = bfs::replay_history(Sys::new(slack, np), case) {
            out.violation(bfs::signature_of(&m), m, case.clone());
        }
        return out;
    }
    // (pairs, bfs depth, dfs companion depth)
    let plans: Vec<(u8, usize, usize)> = ctx.tier.pick(vec![(2, 10, 4)], vec![(2, 13, 5), (3, 9, 4)]);
    let cap = 3_000_000;
    for &(npairs, depth, ddepth) in &plans {
        for slack in [0u64, 1] {
            let cfg: Value = json!({"slack": slack, "pairs": npairs, "interval_ms": INTERVAL_MS, "prune_backoff_intervals": PRUNE_BACKOFF_INTERVALS});
            let (st, v) = bfs::bfs_replay(|| Sys::new(slack, npairs), depth, cap);
            bfs::record(&mut out, &cfg, &st, &v);
            let (n, capped, v2) = bfs::dfs_all(|| Sys::new(slack, npairs), ddepth, 5_000_000);
            out.count("dfs_companion_sequences", n);
            out.evaluations += n;
            out.traces += n;
            if capped {
                out.caps.push(format!("dfs companion capped at {n} sequences"));
            }
            bfs::record(&mut out, &cfg, &Default::default(), &v2);
        }
    }
    // ---- behaviour level: every graft path of the real Behaviour against the reference backoff
    {
        let depth = ctx.tier.pick(8, 10);
        let ddepth = ctx.tier.pick(3, 4);
        let cfg: Value = json!({"part": "behaviour", "interval_ms": c32b::INTERVAL_MS, "prune_backoff_s": c32b::PRUNE_BACKOFF_S, "unsubscribe_backoff_s": c32b::UNSUB_BACKOFF_S, "slack": 1, "flood_publish": false, "peers": 2});
        let (st, v) = bfs::bfs_replay(BSys::new, depth, 1_500_000);
        bfs::record(&mut out, &cfg, &st, &v);
        out.count("behaviour_bfs_depth", depth as u64);
        out.count("behaviour_states", st.states);
        let (n, capped, v2) = bfs::dfs_all(BSys::new, ddepth, 5_000_000);
        out.count("dfs_companion_sequences", n);
        out.evaluations += n;
        out.traces += n;
        if capped {
            out.caps.push(format!("behaviour dfs companion capped at {n} sequences"));
        }
        bfs::record(&mut out, &cfg, &Default::default(), &v2);
        for (k, c) in [
            ("beh_obs_backed_off_peer_not_grafted", &c32b::B_REFUSED),
            ("beh_obs_join_with_backed_off_fanout_peer", &c32b::B_JOIN_WITH_BACKED_OFF_FANOUT),
            ("beh_obs_peer_grafted_after_backoff_elapsed", &c32b::B_INSERTED_AFTER_EXPIRY),
            ("beh_obs_remote_graft_during_backoff", &c32b::B_REMOTE_GRAFT_REFUSED),
        ] {
            let n = c.load(Relaxed);
            out.count(k, n);
            if n == 0 {
                out.machinery(format!("vacuity: situation '{k}' never occurred"));
            }
        }
    }
    let npairs = plans[0].0;
    out.sample(json!({"cfg": {"slack": 1, "pairs": npairs}, "history": ["Update(0,7)", "Heartbeat x5 (slot wraps, entry kept)", "Advance(2) x8", "Heartbeat x5 (entry forgotten)"]}));
    for (k, c) in [
        ("obs_forgotten_after_expiry", &OBS_FORGOTTEN),
        ("obs_deadline_extended", &OBS_EXTENDED),
        ("obs_shorter_update_ignored", &OBS_NOT_SHORTENED),
        ("obs_entry_kept_by_heartbeat", &OBS_KEPT_BY_HEARTBEAT),
        ("obs_expired_still_present", &OBS_EXPIRED_STILL_PRESENT),
    ] {
        let n = c.load(Relaxed);
        out.count(k, n);
        if n == 0 {
            out.machinery(format!("vacuity: situation '{k}' never occurred"));
        }
    }
    out.notes.push(format!("(pairs, bfs depth, dfs companion depth) = {plans:?}, each for slack in {{0,1}}; obs_* counters include re-executions of history prefixes"));
    out
}
