//! C32, behaviour-level part: "the node treats it as backed off (refusing to graft it and
//! penalising its GRAFTs) at least until that duration has elapsed". A standalone real
//! `Behaviour` (flood_publish off, two gossipsub peers subscribed to T) is driven through every
//! path that can put a peer into the mesh — heartbeat, local subscribe / JOIN (with and without
//! fanout peers: unsubscribe -> publish -> subscribe), remote SUBSCRIBE, remote GRAFT — after
//! backoffs were created by the node's own unsubscribe (PRUNE with `unsubscribe_backoff`) or by
//! a remote PRUNE (with / without / with a long backoff field).
//!
//! Reference = the weakest defensible one: exact deadlines without slack, `max` over updates,
//! fed only by (a) the node's own unsubscribe for the peers that were in the mesh and (b) a
//! remote PRUNE from a peer that was in the mesh. Oracle after every step: no peer enters the
//! mesh (diff of `mesh_peers` before / after; every GRAFT the node sends, and every accepted
//! remote GRAFT, is such an insertion) while its reference deadline has not elapsed.

use crate::node;
use kit::ids::{keypair, peer};
use kit::pb::W;
use libp2p_gossipsub::verif_gs_unit::Handler;
use libp2p_gossipsub::{Behaviour, ConfigBuilder, IdentTopic, MessageAuthenticity};
use mc::bfs::System;
use mc::vclock;
use serde::{Deserialize, Serialize};
use std::collections::BTreeSet;
use std::sync::atomic::{AtomicU64, Ordering::Relaxed};
use std::time::{Duration, Instant};

pub const INTERVAL_MS: u64 = 1000;
pub const PRUNE_BACKOFF_S: u64 = 4;
pub const UNSUB_BACKOFF_S: u64 = 2;

pub static B_REFUSED: AtomicU64 = AtomicU64::new(0);
pub static B_JOIN_WITH_BACKED_OFF_FANOUT: AtomicU64 = AtomicU64::new(0);
pub static B_INSERTED_AFTER_EXPIRY: AtomicU64 = AtomicU64::new(0);
pub static B_REMOTE_GRAFT_REFUSED: AtomicU64 = AtomicU64::new(0);

#[derive(Clone, Debug, Serialize, Deserialize, PartialEq)]
pub enum BAct {
    Subscribe,
    Unsubscribe,
    Publish,
    RemoteSubscribe(u8),
    RemoteGraft(u8),
    /// PRUNE from peer with backoff: 0 = no backoff field (default prune_backoff), else seconds
    RemotePrune(u8, u64),
    Heartbeat,
    /// advance the clock by one heartbeat interval
    Advance,
}

pub struct BSys {
    b: Behaviour,
    t0: Instant,
    subscribed: bool,
    /// publishes since the last unsubscribe (fanout may exist)
    fanout: bool,
    /// reference deadline per peer (ms since start)
    deadline: [u64; 2],
    heartbeats: u64,
    _h: Vec<Handler>,
}

fn topic() -> IdentTopic {
    IdentTopic::new("T")
}

impl BSys {
    pub fn new() -> Self {
        vclock::reset();
        let cfg = ConfigBuilder::default()
            .heartbeat_initial_delay(node::NEVER)
            .heartbeat_interval(Duration::from_millis(INTERVAL_MS))
            .prune_backoff(Duration::from_secs(PRUNE_BACKOFF_S))
            .unsubscribe_backoff(Duration::from_secs(UNSUB_BACKOFF_S))
            .backoff_slack(1)
            .flood_publish(false)
            .build()
            .expect("valid config");
        let mut b: Behaviour = Behaviour::new(MessageAuthenticity::Signed(keypair(0)), cfg).expect("behaviour");
        b.subscribe(&topic()).expect("subscribe");
        let mut h = Vec::new();
        for i in 1..=2u8 {
            h.push(node::connect(&mut b, i, true));
            node::deliver(&mut b, i, &node::subs_rpc(&[(true, "T")])).expect("subscription rpc");
        }
        BSys { b, t0: Instant::now(), subscribed: true, fanout: false, deadline: [0; 2], heartbeats: 0, _h: h }
    }
    fn now(&self) -> u64 {
        Instant::now().duration_since(self.t0).as_millis() as u64
    }
    fn mesh(&self) -> BTreeSet<u8> {
        (1..=2u8).filter(|i| self.b.mesh_peers(&topic().hash()).any(|p| *p == peer(*i))).collect()
    }
}

impl System for BSys {
    type Action = BAct;
    fn actions(&self) -> Vec<BAct> {
        let mut v = vec![BAct::Subscribe, BAct::Unsubscribe, BAct::Publish];
        for p in 1..=2u8 {
            v.push(BAct::RemoteSubscribe(p));
            v.push(BAct::RemoteGraft(p));
            for b in [0u64, 1, 2 * PRUNE_BACKOFF_S] {
                v.push(BAct::RemotePrune(p, b));
            }
        }
        v.push(BAct::Heartbeat);
        v.push(BAct::Advance);
        v
    }
    fn step(&mut self, a: &BAct) -> Result<(), String> {
        let now = self.now();
        let before = self.mesh();
        let backed_off: Vec<u8> = (1..=2u8).filter(|p| self.deadline[*p as usize - 1] > now).collect();
        let path = match a {
            BAct::Subscribe => {
                if !self.subscribed && self.fanout && !backed_off.is_empty() {
                    B_JOIN_WITH_BACKED_OFF_FANOUT.fetch_add(1, Relaxed);
                }
                let _ = self.b.subscribe(&topic());
                self.subscribed = true;
                self.fanout = false;
                "local-subscribe-join"
            }
            BAct::Unsubscribe => {
                if self.b.unsubscribe(&topic()) {
                    for p in &before {
                        let d = &mut self.deadline[*p as usize - 1];
                        *d = (*d).max(now + UNSUB_BACKOFF_S * 1000);
                    }
                }
                self.subscribed = false;
                self.fanout = false;
                "local-unsubscribe"
            }
            BAct::Publish => {
                let _ = self.b.publish(topic().hash(), vec![self.heartbeats as u8, now as u8, 0xAA]);
                if !self.subscribed {
                    self.fanout = true;
                }
                "publish"
            }
            BAct::RemoteSubscribe(p) => {
                node::deliver(&mut self.b, *p, &node::subs_rpc(&[(true, "T")])).map_err(|e| format!("harness :: {e}"))?;
                "remote-subscribe"
            }
            BAct::RemoteGraft(p) => {
                let body = W::new().msg(3, &W::new().msg(3, &W::new().bytes(1, b"T"))).finish();
                node::deliver(&mut self.b, *p, &body).map_err(|e| format!("harness :: {e}"))?;
                if backed_off.contains(p) && !before.contains(p) && self.subscribed {
                    B_REMOTE_GRAFT_REFUSED.fetch_add(1, Relaxed);
                }
                "remote-graft"
            }
            BAct::RemotePrune(p, secs) => {
                let mut prune = W::new().bytes(1, b"T");
                if *secs > 0 {
                    prune = prune.uint(3, *secs);
                }
                let body = W::new().msg(3, &W::new().msg(4, &prune)).finish();
                node::deliver(&mut self.b, *p, &body).map_err(|e| format!("harness :: {e}"))?;
                if before.contains(p) {
                    let dur = if *secs > 0 { *secs } else { PRUNE_BACKOFF_S };
                    let d = &mut self.deadline[*p as usize - 1];
                    *d = (*d).max(now + dur * 1000);
                }
                "remote-prune"
            }
            BAct::Heartbeat => {
                self.b.verif_gs_unit_heartbeat();
                self.heartbeats += 1;
                "heartbeat"
            }
            BAct::Advance => {
                vclock::advance(Duration::from_millis(INTERVAL_MS));
                "advance"
            }
        };
        let after = self.mesh();
        for p in after.difference(&before) {
            let d = self.deadline[*p as usize - 1];
            if d > now {
                return Err(format!("grafted-backed-off-peer:{path} :: peer P{p} entered the mesh of T at {now} ms although it is backed off until {d} ms (mesh {before:?} -> {after:?}) on {a:?}"));
            }
            if d > 0 {
                B_INSERTED_AFTER_EXPIRY.fetch_add(1, Relaxed);
            }
        }
        if self.subscribed && matches!(a, BAct::Subscribe | BAct::Heartbeat | BAct::RemoteSubscribe(_)) {
            B_REFUSED.fetch_add(backed_off.iter().filter(|p| !after.contains(p)).count() as u64, Relaxed);
        }
        Ok(())
    }
    fn canon(&self) -> Vec<u8> {
        let now = self.now();
        let rel: Vec<u64> = self.deadline.iter().map(|d| d.saturating_sub(now)).collect();
        // a backoff that expired long ago is eventually forgotten by the storage (slot table of
        // prune_backoff + slack + 1 heartbeats); keep the age of expired deadlines up to that
        let age: Vec<u64> = self.deadline.iter().map(|d| if *d == 0 { 99 } else { now.saturating_sub(*d).min(8000) }).collect();
        format!("{}{}{:?}{rel:?}{age:?}{}", self.subscribed, self.fanout, self.mesh(), self.heartbeats % (PRUNE_BACKOFF_S + 2)).into_bytes()
    }
    fn nontrivial(&self) -> bool {
        let now = self.now();
        self.deadline.iter().any(|d| *d > now)
    }
}
