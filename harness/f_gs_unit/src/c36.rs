//! C36 — subscription filters bound what peers can make us track (E2: BFS over subscription-RPC
//! histories of a standalone real `Behaviour::new_with_subscription_filter`, every RPC with 1-4
//! entries; each transition also evaluated at the filter level as a pure function).
//!
//! Oracle = the statement: after every RPC the peer's tracked topic set (`all_peers()`) contains
//! only topics the filter allows; with a `MaxCountSubscriptionFilter` in the filter it never
//! exceeds `max_subscribed_topics` and an RPC with more than `max_subscriptions_per_request`
//! entries is not accepted; a request the filter rejects changes nothing (tracked set, mesh,
//! no Subscribed/Unsubscribed event).

use crate::node;
use futures::task::noop_waker_ref;
use kit::ids::{keypair, peer};
use libp2p_gossipsub::verif_gs_unit::{filter_incoming, subscription, Handler, Subscription, SubscriptionAction};
use libp2p_gossipsub::{
    AllowAllSubscriptionFilter, Behaviour, CombinedSubscriptionFilters, ConfigBuilder, Event, IdentTopic, IdentityTransform, MaxCountSubscriptionFilter, MessageAuthenticity, TopicHash, TopicSubscriptionFilter,
    WhitelistSubscriptionFilter,
};
use libp2p_swarm::{NetworkBehaviour, ToSwarm};
use mc::bfs::{self, System};
use mc::{json, Ctx, Meta, Outcome};
use std::collections::{BTreeSet, HashSet};
use std::sync::atomic::{AtomicU64, Ordering::Relaxed};
use std::task::{Context, Poll};

pub const META: Meta = Meta {
    level: "model_checking",
    rule: "6 filters (Whitelist{T1,T2,T3}; MaxCount{AllowAll,2,3}; MaxCount{Whitelist,2,3}; Combined{Whitelist, MaxCount{AllowAll,2,3}}; Combined{MaxCount{AllowAll,2,3}, Whitelist}; MaxCount{Combined{Whitelist{T1,T2,T3}, Whitelist{T1,T2,X}},2,3}) x BFS over histories of subscription RPCs, alphabet = every RPC of 1-4 entries over {T1,T2,T3,X} x {subscribe, unsubscribe} (4680 RPCs, incl. duplicates and contradictory pairs), depth 2 quick / 3 thorough, states deduplicated on (tracked topic set, mesh membership). Non-trivial = states with a non-empty tracked set; every transition is judged.",
    explanation: "Every RPC is wire bytes decoded by the real codec and handed to the real Behaviour; after each step all_peers()/mesh_peers()/polled events are compared with the statement, and the same request is evaluated on a second filter instance (pure function) to learn whether the filter rejected it.",
    assumptions: &["one remote peer, 4 topics, local node subscribed to T1", "max_subscribed_topics = 2, max_subscriptions_per_request = 3"],
};

const TOPICS: [&str; 4] = ["T1", "T2", "T3", "X"];
const MAX_TOPICS: usize = 2;
const PER_REQUEST: usize = 3;

static N_REJECTED: AtomicU64 = AtomicU64::new(0);
static N_OVERSIZED: AtomicU64 = AtomicU64::new(0);
static N_FILTERED_OUT: AtomicU64 = AtomicU64::new(0);
static N_CHANGED: AtomicU64 = AtomicU64::new(0);
static N_AT_MAX: AtomicU64 = AtomicU64::new(0);

fn th(i: u8) -> TopicHash {
    IdentTopic::new(TOPICS[i as usize]).hash()
}
fn wl(ts: &[u8]) -> WhitelistSubscriptionFilter {
    WhitelistSubscriptionFilter(ts.iter().map(|t| th(*t)).collect::<HashSet<_>>())
}
fn mx<F: TopicSubscriptionFilter>(f: F) -> MaxCountSubscriptionFilter<F> {
    MaxCountSubscriptionFilter { filter: f, max_subscribed_topics: MAX_TOPICS, max_subscriptions_per_request: PER_REQUEST }
}

/// (subscribe?, topic index)
type Rpc = Vec<(bool, u8)>;

pub struct Sys<F: TopicSubscriptionFilter + Send + 'static> {
    name: &'static str,
    b: Behaviour<IdentityTransform, F>,
    /// second instance of the same filter, used as a pure function
    pure: F,
    allowed: Vec<u8>,
    maxcount: bool,
    rpcs: std::rc::Rc<Vec<Rpc>>,
    _h: Handler,
}

fn all_rpcs(max_entries: usize) -> Vec<Rpc> {
    let mut v = Vec::new();
    mc::enumerate::sequences_upto(8, max_entries, |ix| {
        if !ix.is_empty() {
            v.push(ix.iter().map(|&i| (i < 4, (i % 4) as u8)).collect());
        }
    });
    v
}

impl<F: TopicSubscriptionFilter + Send + 'static> Sys<F> {
    fn new(name: &'static str, f: F, pure: F, allowed: &[u8], maxcount: bool, rpcs: std::rc::Rc<Vec<Rpc>>) -> Self {
        let cfg = ConfigBuilder::default().heartbeat_initial_delay(node::NEVER).build().expect("default config");
        let mut b: Behaviour<IdentityTransform, F> = Behaviour::new_with_subscription_filter(MessageAuthenticity::Signed(keypair(0)), cfg, f).expect("behaviour");
        b.subscribe(&IdentTopic::new("T1")).expect("T1 is allowed by every filter used here");
        let h = node::connect(&mut b, 1, true);
        let mut s = Sys { name, b, pure, allowed: allowed.to_vec(), maxcount, rpcs, _h: h };
        s.drain();
        s
    }
    fn tracked(&self) -> BTreeSet<u8> {
        let mut s = BTreeSet::new();
        for (p, ts) in self.b.all_peers() {
            if *p == peer(1) {
                for t in ts {
                    s.insert(TOPICS.iter().position(|n| IdentTopic::new(*n).hash() == *t).map(|i| i as u8).unwrap_or(99));
                }
            }
        }
        s
    }
    fn in_mesh(&self) -> Vec<bool> {
        (0..4u8).map(|t| self.b.mesh_peers(&th(t)).any(|p| *p == peer(1))).collect()
    }
    /// drain the behaviour's output; returns the number of Subscribed/Unsubscribed events
    fn drain(&mut self) -> usize {
        let mut cx = Context::from_waker(noop_waker_ref());
        let mut n = 0;
        for _ in 0..10_000 {
            match self.b.poll(&mut cx) {
                Poll::Ready(ToSwarm::GenerateEvent(Event::Subscribed { .. })) | Poll::Ready(ToSwarm::GenerateEvent(Event::Unsubscribed { .. })) => n += 1,
                Poll::Ready(_) => {}
                Poll::Pending => break,
            }
        }
        n
    }
}

impl<F: TopicSubscriptionFilter + Send + 'static> System for Sys<F> {
    type Action = Rpc;
    fn actions(&self) -> Vec<Rpc> {
        self.rpcs.as_ref().clone()
    }
    fn step(&mut self, r: &Rpc) -> Result<(), String> {
        let k = self.name;
        let before = self.tracked();
        let mesh_before = self.in_mesh();
        // ---- the filter as a pure function on (request, currently tracked topics)
        let subs: Vec<Subscription> = r.iter().map(|(s, t)| subscription(*s, th(*t))).collect();
        let cur: BTreeSet<TopicHash> = before.iter().map(|t| th(*t)).collect();
        let verdict = filter_incoming(&mut self.pure, &subs, &cur);
        // filter-level findings are reported only if the behaviour-level oracle has nothing to say
        let mut ferr: Option<String> = None;
        if let Ok(res) = &verdict {
            let mut after = cur.clone();
            for s in res {
                match s.action {
                    SubscriptionAction::Subscribe => {
                        if !self.allowed.iter().any(|a| th(*a) == s.topic_hash) {
                            ferr.get_or_insert(format!("filter-passed-disallowed-topic:{k} :: request {r:?} with tracked {before:?}: filter let a subscription to {} through", s.topic_hash));
                            continue;
                        }
                        after.insert(s.topic_hash.clone());
                    }
                    SubscriptionAction::Unsubscribe => {
                        after.remove(&s.topic_hash);
                    }
                }
            }
            let mut distinct = r.clone();
            distinct.sort();
            distinct.dedup();
            if res.len() < distinct.len() {
                N_FILTERED_OUT.fetch_add(1, Relaxed);
            }
            if self.maxcount {
                if r.len() > PER_REQUEST {
                    ferr.get_or_insert(format!("filter-accepted-oversized-request:{k} :: request with {} entries (max_subscriptions_per_request = {PER_REQUEST}) accepted by the filter: {r:?}", r.len()));
                }
                if after.len() > MAX_TOPICS {
                    ferr.get_or_insert(format!("filter-exceeds-max-subscribed:{k} :: request {r:?} with tracked {before:?} accepted although it leads to {} topics (max_subscribed_topics = {MAX_TOPICS})", after.len()));
                }
            }
        } else {
            N_REJECTED.fetch_add(1, Relaxed);
        }
        if r.len() > PER_REQUEST {
            N_OVERSIZED.fetch_add(1, Relaxed);
        }
        // ---- the behaviour
        let entries: Vec<(bool, &str)> = r.iter().map(|(s, t)| (*s, TOPICS[*t as usize])).collect();
        node::deliver(&mut self.b, 1, &node::subs_rpc(&entries)).map_err(|e| format!("harness :: {e}"))?;
        let after = self.tracked();
        let mesh_after = self.in_mesh();
        let events = self.drain();
        if let Some(t) = after.iter().find(|t| !self.allowed.contains(t)) {
            return Err(format!("tracked-disallowed-topic:{k} :: after {r:?} the peer is tracked for topic {} which the filter does not allow", TOPICS.get(*t as usize).unwrap_or(&"?")));
        }
        let unchanged = after == before && mesh_after == mesh_before && events == 0;
        if self.maxcount {
            if after.len() > MAX_TOPICS {
                return Err(format!("max-subscribed-topics-exceeded:{k} :: after {r:?} (tracked before: {before:?}) the peer is tracked for {} topics {after:?}, max_subscribed_topics = {MAX_TOPICS}", after.len()));
            }
            if r.len() > PER_REQUEST && !unchanged {
                return Err(format!("oversized-request-accepted:{k} :: request with {} entries {r:?} (max_subscriptions_per_request = {PER_REQUEST}) was applied: tracked {before:?} -> {after:?}, {events} events", r.len()));
            }
        }
        if verdict.is_err() && !unchanged {
            return Err(format!("rejected-request-changed-state:{k} :: filter rejects {r:?} ({verdict:?}) but tracked {before:?} -> {after:?}, mesh {mesh_before:?} -> {mesh_after:?}, {events} events"));
        }
        if let Some(e) = ferr {
            return Err(e);
        }
        if after != before {
            N_CHANGED.fetch_add(1, Relaxed);
        }
        if after.len() == MAX_TOPICS {
            N_AT_MAX.fetch_add(1, Relaxed);
        }
        Ok(())
    }
    fn canon(&self) -> Vec<u8> {
        format!("{:?}{:?}", self.tracked(), self.in_mesh()).into_bytes()
    }
    fn nontrivial(&self) -> bool {
        !self.tracked().is_empty()
    }
}

const KINDS: [&str; 6] = ["whitelist", "maxcount", "maxcount-of-whitelist", "combined-whitelist-maxcount", "combined-maxcount-whitelist", "maxcount-of-combined"];

/// run `f` on the system for filter kind `kind`
fn with_kind<R>(kind: &str, rpcs: std::rc::Rc<Vec<Rpc>>, f: &mut dyn FnMut(&dyn Fn() -> Box<dyn ErasedSys>) -> R) -> Option<R> {
    macro_rules! go {
        ($name:expr, $mk:expr, $allowed:expr, $maxcount:expr) => {{
            let rpcs = rpcs.clone();
            let make = move || -> Box<dyn ErasedSys> { Box::new(Sys::new($name, $mk, $mk, $allowed, $maxcount, rpcs.clone())) };
            Some(f(&make))
        }};
    }
    match kind {
        "whitelist" => go!("whitelist", wl(&[0, 1, 2]), &[0, 1, 2], false),
        "maxcount" => go!("maxcount", mx(AllowAllSubscriptionFilter {}), &[0, 1, 2, 3], true),
        "maxcount-of-whitelist" => go!("maxcount-of-whitelist", mx(wl(&[0, 1, 2])), &[0, 1, 2], true),
        "combined-whitelist-maxcount" => go!("combined-whitelist-maxcount", CombinedSubscriptionFilters { filter1: wl(&[0, 1, 2]), filter2: mx(AllowAllSubscriptionFilter {}) }, &[0, 1, 2], true),
        "combined-maxcount-whitelist" => go!("combined-maxcount-whitelist", CombinedSubscriptionFilters { filter1: mx(AllowAllSubscriptionFilter {}), filter2: wl(&[0, 1, 2]) }, &[0, 1, 2], true),
        "maxcount-of-combined" => go!("maxcount-of-combined", mx(CombinedSubscriptionFilters { filter1: wl(&[0, 1, 2]), filter2: wl(&[0, 1, 3]) }), &[0, 1], true),
        _ => None,
    }
}

/// object-safe view of `Sys<F>` so that the six filter types share one driver
pub trait ErasedSys {
    fn e_actions(&self) -> Vec<Rpc>;
    fn e_step(&mut self, a: &Rpc) -> Result<(), String>;
    fn e_canon(&self) -> Vec<u8>;
    fn e_nontrivial(&self) -> bool;
}
impl<F: TopicSubscriptionFilter + Send + 'static> ErasedSys for Sys<F> {
    fn e_actions(&self) -> Vec<Rpc> {
        self.actions()
    }
    fn e_step(&mut self, a: &Rpc) -> Result<(), String> {
        self.step(a)
    }
    fn e_canon(&self) -> Vec<u8> {
        self.canon()
    }
    fn e_nontrivial(&self) -> bool {
        self.nontrivial()
    }
}
pub struct Dyn(Box<dyn ErasedSys>);
impl System for Dyn {
    type Action = Rpc;
    fn actions(&self) -> Vec<Rpc> {
        self.0.e_actions()
    }
    fn step(&mut self, a: &Rpc) -> Result<(), String> {
        self.0.e_step(a)
    }
    fn canon(&self) -> Vec<u8> {
        self.0.e_canon()
    }
    fn nontrivial(&self) -> bool {
        self.0.e_nontrivial()
    }
}

pub fn run(ctx: &Ctx) -> Outcome {
    if let Some(case) = &ctx.replay {
        let mut out = Outcome::default();
        out.evaluations = 1;
        let kind = case["cfg"]["filter"].as_str().unwrap_or("").to_string();
        let r = with_kind(&kind, std::rc::Rc::new(Vec::new()), &mut |make| bfs::replay_history(Dyn(make()), case));
        match r {
            Some(Err(m)) => out.violation(bfs::signature_of(&m), m, case.clone()),
            Some(Ok(())) => {}
            None => out.machinery("bad replay case"),
        }
        return out;
    }
    let depth = ctx.tier.pick(2, 3);
    let mut out = mc::workers(ctx, 6, |ctx| {
        let mut out = Outcome::default();
        let rpcs = std::rc::Rc::new(all_rpcs(4));
        let small = std::rc::Rc::new(all_rpcs(2));
        for (i, kind) in KINDS.iter().enumerate() {
            if !ctx.mine(i as u64) {
                continue;
            }
            let cfg = json!({"filter": kind, "max_subscribed_topics": MAX_TOPICS, "max_subscriptions_per_request": PER_REQUEST});
            with_kind(kind, rpcs.clone(), &mut |make| {
                let (st, v) = bfs::bfs_replay(|| Dyn(make()), depth, 0);
                bfs::record(&mut out, &cfg, &st, &v);
                out.count("rpc_alphabet", rpcs.len() as u64);
            });
            // un-deduplicated companion: every sequence of length 2 over the RPCs of 1-2 entries
            with_kind(kind, small.clone(), &mut |make| {
                let (n, capped, v2) = bfs::dfs_all(|| Dyn(make()), 2, 0);
                out.count("dfs_companion_sequences", n);
                out.evaluations += n;
                out.traces += n;
                if capped {
                    out.caps.push("dfs companion capped".into());
                }
                bfs::record(&mut out, &cfg, &Default::default(), &v2);
            });
        }
        for (k, c) in [("obs_requests_rejected_by_filter", &N_REJECTED), ("obs_oversized_requests", &N_OVERSIZED), ("obs_requests_partly_filtered", &N_FILTERED_OUT), ("obs_tracked_set_changed", &N_CHANGED), ("obs_tracked_set_at_max", &N_AT_MAX)] {
            out.count(k, c.load(Relaxed));
        }
        out
    });
    for k in ["obs_requests_rejected_by_filter", "obs_oversized_requests", "obs_requests_partly_filtered", "obs_tracked_set_changed", "obs_tracked_set_at_max"] {
        if out.get(k) == 0 {
            out.machinery(format!("vacuity: situation '{k}' never occurred"));
        }
    }
    out.sample(json!({"cfg": {"filter": "maxcount-of-whitelist"}, "history": [[[true, 0], [true, 1]], [[true, 2], [false, 0], [true, 3]]], "expect": "tracked {T1,T2} then {T2,T3}: X filtered out, count stays 2"}));
    out.notes.push(format!("bfs depth {depth} over 4680 RPCs per state; obs_* counters include re-executions of history prefixes"));
    out
}
