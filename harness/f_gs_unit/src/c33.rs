//! C33 — gossipsub caches keep exactly their documented windows (E2: BFS over operation
//! histories of the real `DuplicateCache` (virtual clock) and `MessageCache` against reference
//! models).
//!
//! Readings used by the oracle:
//!  * DuplicateCache: from the first insertion until ttl has passed `insert` answers "already
//!    seen" (false) and `contains` true; re-insertion does not extend the window; strictly after
//!    ttl an `insert` answers true (a new window starts). Exactly at `first + ttl` either answer
//!    is accepted and the reference follows the cache. `contains` after expiry *without* an
//!    intervening `insert` is lazily stale by design (expiry runs on insert) and is not judged.
//!  * MessageCache: gossip ids for a topic are exactly the validated messages of that topic put
//!    less than `gossip` shifts ago; IWANT returns exactly the validated messages put less than
//!    `history` shifts ago, with the per-peer request count of that message (1, 2, 3, ...).
//!    The upper bounds ("only ...") are demanded always. The lower bounds (exact window) are
//!    demanded for message ids that were not removed-and-put-again: after `remove` the id stays
//!    in the history slots, and a later `put` of the same id can be evicted early when the stale
//!    slot is shifted out. The statement only bounds the window from above, so that early
//!    eviction is accepted (the reference follows the cache there) and counted.

use kit::ids::peer;
use libp2p_gossipsub::verif_gs_unit::{DupCache, MCache};
use libp2p_gossipsub::{MessageId, RawMessage, TopicHash};
use mc::bfs::{self, System};
use mc::{json, vclock, Ctx, Meta, Outcome, Value};
use serde::{Deserialize, Serialize};
use std::collections::BTreeMap;
use std::sync::atomic::{AtomicU64, Ordering::Relaxed};
use std::time::{Duration, Instant};

pub const META: Meta = Meta {
    level: "model_checking",
    rule: "DuplicateCache: BFS over insert(id in {A,B}) / advance(ttl/4, ttl/2) histories on the virtual clock. MessageCache: BFS over put / validate / remove / shift / IWANT(id, peer in {P1,P2}) histories for 2 (quick) or 3 (thorough) message ids on 2 topics, gossip in {1,2} x history in {2,3}; gossip ids of both topics read after every step. States deduplicated on reference model + cache answers. Non-trivial = states with a live duplicate-cache window / a cached validated message.",
    explanation: "Every step and every reached state is compared with a reference model (first-insertion windows; per-message age in shifts, validated flag, per-peer IWANT counts); un-deduplicated DFS companions re-check all paths to a smaller depth.",
    assumptions: &["2-3 message ids, 2 topics (fixed topic per id), 2 peers, small windows", "time advances in quarter-ttl steps", "contains() after expiry without insert is lazily stale and not judged"],
};

// =============================================================================================
// duplicate cache

const TTL_MS: u64 = 2000;

static D_SEEN: AtomicU64 = AtomicU64::new(0);
static D_EXPIRED: AtomicU64 = AtomicU64::new(0);
static D_BOUNDARY: AtomicU64 = AtomicU64::new(0);
static D_STALE_CONTAINS: AtomicU64 = AtomicU64::new(0);

#[derive(Clone, Debug, Serialize, Deserialize, PartialEq)]
pub enum DAct {
    Insert(u8),
    /// advance by n quarter-ttls
    Advance(u8),
}

pub struct DSys {
    c: DupCache,
    t0: Instant,
    /// start of the current window per id (ms)
    first: BTreeMap<u8, u64>,
}

fn mid(i: u8) -> MessageId {
    MessageId::new(&[b'm', i])
}

impl DSys {
    pub fn new() -> Self {
        vclock::reset();
        DSys { c: DupCache::new(Duration::from_millis(TTL_MS)), t0: Instant::now(), first: BTreeMap::new() }
    }
    fn now(&self) -> u64 {
        Instant::now().duration_since(self.t0).as_millis() as u64
    }
}

impl System for DSys {
    type Action = DAct;
    fn actions(&self) -> Vec<DAct> {
        vec![DAct::Insert(0), DAct::Insert(1), DAct::Advance(1), DAct::Advance(2)]
    }
    fn step(&mut self, a: &DAct) -> Result<(), String> {
        match a {
            DAct::Insert(i) => {
                let now = self.now();
                let fresh = self.c.insert(mid(*i));
                match self.first.get(i).copied() {
                    None => {
                        if !fresh {
                            return Err(format!("dup-unseen-reported-seen :: insert({i}) at {now} ms answered 'already present' for an id never inserted"));
                        }
                        self.first.insert(*i, now);
                    }
                    Some(f) if now < f + TTL_MS => {
                        D_SEEN.fetch_add(1, Relaxed);
                        if fresh {
                            return Err(format!("dup-forgotten-within-ttl :: insert({i}) at {now} ms answered 'new' although first inserted at {f} ms (ttl {TTL_MS} ms)"));
                        }
                    }
                    Some(f) if now == f + TTL_MS => {
                        D_BOUNDARY.fetch_add(1, Relaxed);
                        if fresh {
                            self.first.insert(*i, now);
                        }
                    }
                    Some(f) => {
                        D_EXPIRED.fetch_add(1, Relaxed);
                        if !fresh {
                            return Err(format!("dup-seen-after-ttl :: insert({i}) at {now} ms answered 'already present' although the window started at {f} ms (ttl {TTL_MS} ms; re-insertion must not refresh)"));
                        }
                        self.first.insert(*i, now);
                    }
                }
            }
            DAct::Advance(n) => vclock::advance(Duration::from_millis(*n as u64 * TTL_MS / 4)),
        }
        self.invariant()
    }
    fn invariant(&self) -> Result<(), String> {
        let now = self.now();
        for i in 0..2u8 {
            let c = self.c.contains(&mid(i));
            match self.first.get(&i) {
                None => {
                    if c {
                        return Err(format!("dup-contains-unseen :: contains({i}) true for an id never inserted"));
                    }
                }
                Some(f) if now < f + TTL_MS => {
                    if !c {
                        return Err(format!("dup-contains-false-within-ttl :: contains({i}) false at {now} ms, inserted at {f} ms"));
                    }
                }
                Some(_) => {
                    if c {
                        D_STALE_CONTAINS.fetch_add(1, Relaxed);
                    }
                }
            }
        }
        Ok(())
    }
    fn canon(&self) -> Vec<u8> {
        let now = self.now() as i64;
        let mut s = String::new();
        for i in 0..2u8 {
            s.push_str(&format!("{:?}/{}|", self.first.get(&i).map(|f| *f as i64 - now), self.c.contains(&mid(i))));
        }
        s.into_bytes()
    }
    fn nontrivial(&self) -> bool {
        let now = self.now();
        self.first.values().any(|f| now < f + TTL_MS)
    }
}

// =============================================================================================
// message cache

static M_GOSSIP_OFFERED: AtomicU64 = AtomicU64::new(0);
static M_GOSSIP_WINDOW_CLOSED: AtomicU64 = AtomicU64::new(0);
static M_IWANT_SERVED: AtomicU64 = AtomicU64::new(0);
static M_IWANT_REPEAT: AtomicU64 = AtomicU64::new(0);
static M_IWANT_UNVALIDATED: AtomicU64 = AtomicU64::new(0);
static M_EVICTED: AtomicU64 = AtomicU64::new(0);
static M_EARLY_EVICTION: AtomicU64 = AtomicU64::new(0);

#[derive(Clone, Debug, Serialize, Deserialize, PartialEq)]
pub enum MAct {
    Put(u8),
    Validate(u8),
    Remove(u8),
    Shift,
    Iwant(u8, u8),
}

#[derive(Clone, Debug, PartialEq)]
struct Live {
    age: usize,
    validated: bool,
    data: u8,
    iwant: BTreeMap<u8, u32>,
}

#[derive(Clone)]
pub struct MSys {
    c: MCache,
    gossip: usize,
    history: usize,
    nids: u8,
    live: BTreeMap<u8, Live>,
    /// history slots still holding the id of a removed / early-evicted message: (id, age)
    stale: Vec<(u8, usize)>,
    seq: u8,
}

fn topic_of(id: u8) -> TopicHash {
    TopicHash::from_raw(if id % 2 == 0 { "T1" } else { "T2" })
}

fn raw(id: u8, data: u8) -> RawMessage {
    RawMessage { source: Some(peer(9)), data: vec![data], sequence_number: Some(id as u64), topic: topic_of(id), signature: None, key: None, validated: false }
}

impl MSys {
    pub fn new(gossip: usize, history: usize, nids: u8) -> Self {
        MSys { c: MCache::new(gossip, history), gossip, history, nids, live: BTreeMap::new(), stale: Vec::new(), seq: 0 }
    }
    fn tainted(&self, id: u8) -> bool {
        self.stale.iter().any(|s| s.0 == id)
    }
    /// is the id present in the cache (side-effect free: asked of a clone)
    fn probe(&self, id: u8) -> bool {
        !self.c.clone().put(&mid(id), raw(id, 0))
    }
    /// follow the cache where the statement leaves the answer open (early eviction of a
    /// removed-and-put-again id)
    fn sync_tainted(&mut self) {
        for id in 0..self.nids {
            if self.live.contains_key(&id) && self.tainted(id) && !self.probe(id) {
                let l = self.live.remove(&id).unwrap();
                self.stale.push((id, l.age));
                M_EARLY_EVICTION.fetch_add(1, Relaxed);
            }
        }
    }
    fn check_gossip(&self) -> Result<(), String> {
        for t in ["T1", "T2"] {
            let th = TopicHash::from_raw(t);
            let mut got: Vec<u8> = self.c.get_gossip_message_ids(&th).iter().map(|m| m.0[1]).collect();
            got.sort();
            got.dedup();
            for g in &got {
                match self.live.get(g) {
                    None => return Err(format!("gossip-not-cached :: topic {t}: id {g} offered for gossip but not in the cache window")),
                    Some(l) => {
                        if topic_of(*g) != th {
                            return Err(format!("gossip-wrong-topic :: topic {t}: id {g} belongs to another topic"));
                        }
                        if !l.validated {
                            return Err(format!("gossip-unvalidated :: topic {t}: id {g} offered for gossip but never validated"));
                        }
                        if l.age >= self.gossip {
                            return Err(format!("gossip-beyond-window :: topic {t}: id {g} put {} shifts ago, history_gossip = {}", l.age, self.gossip));
                        }
                        M_GOSSIP_OFFERED.fetch_add(1, Relaxed);
                    }
                }
            }
            for (id, l) in &self.live {
                if topic_of(*id) == th && l.validated && l.age >= self.gossip {
                    M_GOSSIP_WINDOW_CLOSED.fetch_add(1, Relaxed);
                }
                if topic_of(*id) == th && l.validated && l.age < self.gossip && !got.contains(id) && !self.tainted(*id) {
                    return Err(format!("gossip-missing-within-window :: topic {t}: validated id {id} put {} shifts ago (history_gossip = {}) not offered", l.age, self.gossip));
                }
            }
        }
        Ok(())
    }
}

impl System for MSys {
    type Action = MAct;
    fn actions(&self) -> Vec<MAct> {
        let mut v = Vec::new();
        for id in 0..self.nids {
            v.push(MAct::Put(id));
            v.push(MAct::Validate(id));
            v.push(MAct::Remove(id));
        }
        v.push(MAct::Shift);
        for id in 0..self.nids {
            for p in 1..=2u8 {
                v.push(MAct::Iwant(id, p));
            }
        }
        v
    }
    fn step(&mut self, a: &MAct) -> Result<(), String> {
        match a {
            MAct::Put(id) => {
                self.seq = self.seq.wrapping_add(1);
                let new = self.c.put(&mid(*id), raw(*id, self.seq));
                if new {
                    if self.live.contains_key(id) {
                        return Err(format!("put-replaced-cached :: put({id}) answered 'new' although the id is cached"));
                    }
                    self.live.insert(*id, Live { age: 0, validated: false, data: self.seq, iwant: BTreeMap::new() });
                } else if !self.live.contains_key(id) {
                    return Err(format!("put-refused-uncached :: put({id}) answered 'duplicate' although the id is not cached"));
                }
            }
            MAct::Validate(id) => {
                let r = self.c.validate(&mid(*id));
                if let Some(l) = self.live.get_mut(id) {
                    if r.is_some() {
                        l.validated = true;
                    }
                }
            }
            MAct::Remove(id) => {
                self.c.remove(&mid(*id));
                if let Some(l) = self.live.remove(id) {
                    self.stale.push((*id, l.age));
                }
            }
            MAct::Shift => {
                self.c.shift();
                let h = self.history;
                for l in self.live.values_mut() {
                    l.age += 1;
                }
                let before = self.live.len();
                self.live.retain(|_, l| l.age < h);
                M_EVICTED.fetch_add((before - self.live.len()) as u64, Relaxed);
                for s in self.stale.iter_mut() {
                    s.1 += 1;
                }
                // a stale slot that is shifted out takes a re-put message of the same id with it
                let popped: Vec<u8> = self.stale.iter().filter(|s| s.1 >= h).map(|s| s.0).collect();
                self.stale.retain(|s| s.1 < h);
                for id in popped {
                    if self.live.contains_key(&id) && !self.probe(id) {
                        let l = self.live.remove(&id).unwrap();
                        self.stale.push((id, l.age));
                        M_EARLY_EVICTION.fetch_add(1, Relaxed);
                    }
                }
            }
            MAct::Iwant(id, p) => {
                let r = self.c.get_with_iwant_counts(&mid(*id), &peer(*p));
                let tainted = self.tainted(*id);
                match (r, self.live.get_mut(id)) {
                    (Some((m, _)), None) => return Err(format!("iwant-beyond-window :: IWANT({id}) by P{p} served data {:?} although the message is outside the history window / removed", m.data)),
                    (Some((m, c)), Some(l)) => {
                        if !l.validated {
                            return Err(format!("iwant-unvalidated :: IWANT({id}) by P{p} served a message that was never validated"));
                        }
                        if l.age >= self.history {
                            return Err(format!("iwant-beyond-window :: IWANT({id}) served {} shifts after put, history_length = {}", l.age, self.history));
                        }
                        if m.data != vec![l.data] || !m.validated {
                            return Err(format!("iwant-wrong-message :: IWANT({id}) returned data {:?} validated={} expected data [{}]", m.data, m.validated, l.data));
                        }
                        let e = l.iwant.entry(*p).or_insert(0);
                        *e += 1;
                        if c != *e {
                            return Err(format!("iwant-count :: IWANT({id}) by P{p}: cache counts {c}, exact number of requests by this peer is {}", *e));
                        }
                        M_IWANT_SERVED.fetch_add(1, Relaxed);
                        if c > 1 {
                            M_IWANT_REPEAT.fetch_add(1, Relaxed);
                        }
                    }
                    (None, Some(l)) => {
                        if !l.validated {
                            M_IWANT_UNVALIDATED.fetch_add(1, Relaxed);
                        } else if !tainted {
                            return Err(format!("iwant-missing-within-window :: IWANT({id}) by P{p} not served although validated and put {} shifts ago (history_length = {})", l.age, self.history));
                        }
                    }
                    (None, None) => {}
                }
            }
        }
        self.sync_tainted();
        self.check_gossip()
    }
    fn canon(&self) -> Vec<u8> {
        let mut stale = self.stale.clone();
        stale.sort();
        let mut s = format!("{:?}|{:?}|", self.live.iter().map(|(k, l)| (k, l.age, l.validated, &l.iwant)).collect::<Vec<_>>(), stale);
        for id in 0..self.nids {
            s.push(if self.probe(id) { '1' } else { '0' });
        }
        for t in ["T1", "T2"] {
            let mut g: Vec<u8> = self.c.get_gossip_message_ids(&TopicHash::from_raw(t)).iter().map(|m| m.0[1]).collect();
            g.sort();
            s.push_str(&format!("{g:?}"));
        }
        s.into_bytes()
    }
    fn nontrivial(&self) -> bool {
        self.live.values().any(|l| l.validated)
    }
}

// =============================================================================================

fn mcfgs() -> Vec<(usize, usize)> {
    vec![(1, 2), (2, 2), (1, 3), (2, 3)]
}

pub fn run(ctx: &Ctx) -> Outcome {
    if let Some(case) = &ctx.replay {
        let mut out = Outcome::default();
        out.evaluations = 1;
        let r = match case["cfg"]["part"].as_str() {
            Some("dup") => bfs::replay_history(DSys::new(), case),
            Some("mcache") => {
                let g = case["cfg"]["gossip"].as_u64().unwrap_or(1) as usize;
                let h = case["cfg"]["history"].as_u64().unwrap_or(2) as usize;
                let n = case["cfg"]["ids"].as_u64().unwrap_or(2) as u8;
                bfs::replay_history(MSys::new(g, h, n), case)
            }
            _ => Err("bad replay case".into()),
        };
        if let Err(m) = r {
            out.violation(bfs::signature_of(&m), m, case.clone());
        }
        return out;
    }
    // unit 0 = duplicate cache, units 1..=4 = message-cache configurations
    let mut out = mc::workers(ctx, 5, |ctx| {
        let mut out = Outcome::default();
        if ctx.mine(0) {
            let depth = ctx.tier.pick(12, 16);
            let ddepth = ctx.tier.pick(7, 9);
            let cfg: Value = json!({"part": "dup", "ttl_ms": TTL_MS});
            let (st, v) = bfs::bfs_replay(DSys::new, depth, 2_000_000);
            bfs::record(&mut out, &cfg, &st, &v);
            let (n, capped, v2) = bfs::dfs_all(DSys::new, ddepth, 3_000_000);
            out.count("dfs_companion_sequences", n);
            out.evaluations += n;
            out.traces += n;
            if capped {
                out.caps.push(format!("dup dfs companion capped at {n} sequences"));
            }
            bfs::record(&mut out, &cfg, &Default::default(), &v2);
            out.count("dup_bfs_depth", depth as u64);
            for (k, c) in [("dup_obs_seen_within_ttl", &D_SEEN), ("dup_obs_expired_reinsert", &D_EXPIRED), ("dup_obs_boundary_insert", &D_BOUNDARY), ("dup_obs_stale_contains_not_judged", &D_STALE_CONTAINS)] {
                out.count(k, c.load(Relaxed));
            }
        }
        for (k, (g, h)) in mcfgs().into_iter().enumerate() {
            if !ctx.mine(k as u64 + 1) {
                continue;
            }
            let nids: u8 = ctx.tier.pick(2, 3);
            let depth = ctx.tier.pick(12, 12);
            let ddepth = ctx.tier.pick(4, 5);
            let cfg: Value = json!({"part": "mcache", "gossip": g, "history": h, "ids": nids});
            let (st, v) = bfs::bfs_clone(MSys::new(g, h, nids), depth, 4_000_000);
            bfs::record(&mut out, &cfg, &st, &v);
            let (n, capped, v2) = bfs::dfs_all(|| MSys::new(g, h, nids), ddepth, 3_000_000);
            out.count("dfs_companion_sequences", n);
            out.evaluations += n;
            out.traces += n;
            if capped {
                out.caps.push(format!("mcache dfs companion capped at {n} sequences"));
            }
            bfs::record(&mut out, &cfg, &Default::default(), &v2);
            out.max("max_mcache_bfs_depth", depth as u64);
        }
        for (k, c) in [
            ("mc_obs_gossip_offered", &M_GOSSIP_OFFERED),
            ("mc_obs_validated_outside_gossip_window", &M_GOSSIP_WINDOW_CLOSED),
            ("mc_obs_iwant_served", &M_IWANT_SERVED),
            ("mc_obs_iwant_repeat_count", &M_IWANT_REPEAT),
            ("mc_obs_iwant_refused_unvalidated", &M_IWANT_UNVALIDATED),
            ("mc_obs_evicted_by_shift", &M_EVICTED),
            ("mc_obs_early_eviction_after_remove_and_reput_accepted", &M_EARLY_EVICTION),
        ] {
            out.count(k, c.load(Relaxed));
        }
        out
    });
    for k in [
        "dup_obs_seen_within_ttl",
        "dup_obs_expired_reinsert",
        "dup_obs_boundary_insert",
        "mc_obs_gossip_offered",
        "mc_obs_validated_outside_gossip_window",
        "mc_obs_iwant_served",
        "mc_obs_iwant_repeat_count",
        "mc_obs_iwant_refused_unvalidated",
        "mc_obs_evicted_by_shift",
    ] {
        if out.get(k) == 0 {
            out.machinery(format!("vacuity: situation '{k}' never occurred"));
        }
    }
    out.sample(json!({"cfg": {"part": "mcache", "gossip": 1, "history": 2}, "history": ["Put(0)", "Validate(0)", "Iwant(0,1)", "Shift", "Iwant(0,1)", "Shift", "Iwant(0,1)"], "expect": "gossip {0} then {}, IWANT counts 1, 2, then not served"}));
    out.notes.push("obs_* counters include re-executions of history prefixes (replay BFS / DFS companion)".into());
    out.notes.push("remove + put of the same id: early eviction by the stale history slot is accepted (statement bounds the window from above only); counted in mc_obs_early_eviction_after_remove_and_reput_accepted".into());
    out
}
