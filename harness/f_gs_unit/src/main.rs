//! Family binary `gs_unit`: gossipsub unit-level properties (codec, backoff, caches, config,
//! subscription filters).

mod c30;
mod c31;
mod c32;
mod c32b;
mod c33;
mod c34;
mod c36;
mod node;

fn main() {
    mc::main_dispatch(&[("C30", c30::run, c30::META), ("C31", c31::run, c31::META), ("C32", c32::run, c32::META), ("C33", c33::run, c33::META), ("C34", c34::run, c34::META), ("C36", c36::run, c36::META)]);
}
