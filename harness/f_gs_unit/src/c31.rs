//! C31 — gossipsub RPC size limits are applied per frame (E3: complete enumeration of frame
//! sequences x stream splits through the real `GossipsubCodec` inside `FramedRead`).
//!
//! Oracle (exactly the statement): every RPC whose protobuf encoding is <= max_transmit_size and
//! within the publish-count / control-size limits is decoded (with the right content), whatever
//! the chunking / coalescing of the byte stream; an RPC whose encoding is > max_transmit_size
//! gives an error. Nothing is demanded about RPCs that exceed only the publish/control limits
//! (their outcome is counted). "Control size" is ambiguous at +-2 bytes per field (payload only
//! vs. tag+length+payload); "within" is only demanded for RPCs within under both readings.

use asynchronous_codec::FramedRead;
use bytes::BytesMut;
use futures::StreamExt;
use kit::pb::{self, W};
use kit::pipe::ChunkReader;
use kit::tasks::run_ready;
use libp2p_gossipsub::verif_gs_unit::{encode_rpc_out, rpc_out_publish, ControlAction, GossipsubCodec, HandlerEvent};
use libp2p_gossipsub::{MessageId, RawMessage, TopicHash, ValidationMode};
use mc::{json, Ctx, Meta, Outcome, Value};
use serde::{Deserialize, Serialize};
use std::collections::HashMap;

pub const META: Meta = Meta {
    level: "exploration",
    rule: "size part: max_transmit_size in {100, 2048} (thorough: + 130, 9000) x every sequence of 1-3 publish RPCs with encoded length in {max-3..max+3} x every split of the stream into <= 3 chunks at cut positions around every prefix / frame boundary / frame middle (1 chunk = fully coalesced); limits part: max_publish_messages = 3, max_control_message_size = 40: sequences of 1-2 RPCs from {2, 3, 4 publishes; control+subscription size 36, 39, 40, 41, 45} x the same splits; mixed part: every RPC made of 2-4 fields in every order over {publish with 60 B data, control (GRAFT), subscription, unknown field with 50 B} containing at least one control/subscription field, alone and coalesced before/behind a publish frame, x the same splits (each limit is computed over its own fields only). Non-trivial = distinct (config, frames, cuts) cases with >= 2 frames or >= 2 chunks.",
    explanation: "Complete enumeration (E3); every case is decoded by the real GossipsubCodec in FramedRead over a scripted reader and compared with the statement's verdict per frame (decoded with right content / error at the first over-size frame).",
    assumptions: &["payload interiors represented by length only", "wire bytes built by an independent protobuf writer and cross-checked against the real encoder", "prost / unsigned-varint trusted"],
};

const MAX_PUB: usize = 3;
const MAX_CTRL: usize = 40;

#[derive(Clone, Debug, Serialize, Deserialize, PartialEq)]
#[serde(tag = "kind")]
pub enum Frame {
    /// one publish message, RPC encoded length exactly `len`
    Pub { len: usize },
    /// n tiny publish messages
    NPub { n: usize },
    /// one subscription + one GRAFT; full-field control size exactly `size`
    Ctrl { size: usize },
    /// one RPC mixing fields in the given order: 'P' = publish (60 B of data, more than the
    /// control limit), 'C' = control with one GRAFT (7 B), 'S' = one subscription (9 B),
    /// 'U' = unknown field 15 with 50 B
    Mixed { order: String },
}

struct Built {
    body: Vec<u8>,
    /// expected content
    data_lens: Vec<usize>,
    subs: usize,
    grafts: usize,
    /// control size counted as tag+len+payload per field (the larger of the two readings)
    ctrl_hi: usize,
}

fn build(f: &Frame) -> Option<Built> {
    match f {
        Frame::Pub { len } => {
            // pad with the data field; where a varint boundary leaves a gap, lengthen the topic
            for tl in 1..=3usize {
                let vl = |n: usize| pb::varint_vec(n as u64).len();
                let total = |d: usize| {
                    let m = 1 + vl(d) + d + 1 + 1 + tl;
                    1 + vl(m) + m
                };
                let mut d = len.saturating_sub(14);
                while total(d) < *len {
                    d += 1;
                }
                if total(d) == *len {
                    let b = W::new().msg(2, &W::new().bytes(2, &vec![0xAB; d]).bytes(4, &vec![b't'; tl])).finish();
                    debug_assert_eq!(b.len(), *len);
                    return Some(Built { body: b, data_lens: vec![d], subs: 0, grafts: 0, ctrl_hi: 0 });
                }
            }
            None
        }
        Frame::NPub { n } => {
            let mut w = W::new();
            for i in 0..*n {
                w = w.msg(2, &W::new().bytes(2, &[i as u8]).bytes(4, b"t"));
            }
            Some(Built { body: w.finish(), data_lens: vec![1; *n], subs: 0, grafts: 0, ctrl_hi: 0 })
        }
        Frame::Ctrl { size } => {
            // control field: tag 1 + len 1 + ControlMessage{graft: ControlGraft{topic_id:"g"}} (5) = 7
            // subscription field: tag 1 + len 1 + SubOpts{subscribe: true (2), topic_id (2 + k)}
            let k = size.checked_sub(7 + 2 + 2 + 2)?;
            let sub = W::new().uint(1, 1).bytes(2, &vec![b's'; k]);
            let ctrl = W::new().msg(3, &W::new().bytes(1, b"g"));
            let body = W::new().msg(1, &sub).msg(3, &ctrl).finish();
            debug_assert_eq!(body.len(), *size);
            Some(Built { body, data_lens: vec![], subs: 1, grafts: 1, ctrl_hi: *size })
        }
        Frame::Mixed { order } => {
            let mut w = W::new();
            let (mut data_lens, mut subs, mut grafts, mut ctrl) = (Vec::new(), 0, 0, 0);
            for ch in order.chars() {
                let before = w.0.len();
                match ch {
                    'P' => {
                        w = w.msg(2, &W::new().bytes(2, &[0xCD; 60]).bytes(4, b"t"));
                        data_lens.push(60);
                    }
                    'C' => {
                        w = w.msg(3, &W::new().msg(3, &W::new().bytes(1, b"g")));
                        grafts += 1;
                        ctrl += w.0.len() - before;
                    }
                    'S' => {
                        w = w.msg(1, &W::new().uint(1, 1).bytes(2, b"sub"));
                        subs += 1;
                        ctrl += w.0.len() - before;
                    }
                    'U' => w = w.bytes(15, &[0xEE; 50]),
                    _ => return None,
                }
            }
            // each limit is computed over its own fields only: control size = bytes of the
            // subscription and control fields, publish count = number of publish fields
            Some(Built { body: w.finish(), data_lens, subs, grafts, ctrl_hi: ctrl })
        }
    }
}

#[derive(Debug, PartialEq)]
enum Got {
    Rpc { data_lens: Vec<usize>, invalid: usize, subs: usize, grafts: usize },
    Other(String),
}

fn codec(max: usize) -> GossipsubCodec {
    GossipsubCodec::new(max, ValidationMode::None, HashMap::new(), MAX_PUB, MAX_CTRL)
}

fn decode_stream(max: usize, chunks: Vec<Vec<u8>>) -> (Vec<Got>, Option<String>) {
    let mut fr = FramedRead::new(ChunkReader::new(chunks), codec(max));
    let mut out = Vec::new();
    loop {
        match run_ready(fr.next(), 64) {
            Some(Some(Ok(HandlerEvent::Message { rpc, invalid_messages }))) => out.push(Got::Rpc {
                data_lens: rpc.messages.iter().map(|m| m.data.len()).collect(),
                invalid: invalid_messages.len(),
                subs: rpc.subscriptions.len(),
                grafts: rpc.control_msgs.iter().filter(|c| matches!(c, ControlAction::Graft(_))).count(),
            }),
            Some(Some(Ok(ev))) => out.push(Got::Other(format!("{ev:?}"))),
            Some(Some(Err(e))) => return (out, Some(e.to_string())),
            Some(None) => return (out, None),
            None => return (out, Some("pending forever".into())),
        }
    }
}

/// what the statement says about one frame
#[derive(PartialEq, Debug, Clone, Copy)]
enum Verdict {
    MustAccept,
    MustReject,
    /// exceeds only the publish / control limits, or is inside the +-2 byte ambiguity
    Open,
}

fn verdict(max: usize, f: &Frame, b: &Built) -> Verdict {
    if b.body.len() > max {
        return Verdict::MustReject;
    }
    match f {
        Frame::Pub { .. } => Verdict::MustAccept,
        Frame::NPub { n } => {
            if *n <= MAX_PUB {
                Verdict::MustAccept
            } else {
                Verdict::Open
            }
        }
        Frame::Ctrl { .. } => {
            if b.ctrl_hi <= MAX_CTRL {
                Verdict::MustAccept
            } else {
                Verdict::Open
            }
        }
        Frame::Mixed { .. } => {
            if b.ctrl_hi <= MAX_CTRL && b.data_lens.len() <= MAX_PUB {
                Verdict::MustAccept
            } else {
                Verdict::Open
            }
        }
    }
}

#[derive(Default)]
struct CaseInfo {
    accepted_at_limit: u64,
    rejected_over: u64,
    open_rejected: u64,
    open_accepted: u64,
}

/// run one case; Err = violation message ("signature :: details")
fn run_case(max: usize, frames: &[Frame], cuts: &[usize], info: &mut CaseInfo) -> Result<(), String> {
    let built: Vec<Built> = frames.iter().map(|f| build(f).ok_or_else(|| format!("harness :: cannot build {f:?}"))).collect::<Result<_, _>>()?;
    run_built(max, frames, &built, cuts, info)
}

fn run_built(max: usize, frames: &[Frame], built: &[Built], cuts: &[usize], info: &mut CaseInfo) -> Result<(), String> {
    let mut stream = Vec::new();
    let mut starts = Vec::new();
    for b in built {
        starts.push(stream.len());
        stream.extend_from_slice(&pb::frame(&b.body));
    }
    let chunks: Vec<Vec<u8>> = mc::enumerate::chunks_at(&stream, cuts).into_iter().map(|c| c.to_vec()).collect();
    let nchunks = chunks.len();
    let (got, err) = mc::catch(|| decode_stream(max, chunks)).map_err(|p| format!("decoder-panic :: {p}"))?;
    for (i, (f, b)) in frames.iter().zip(built).enumerate() {
        let v = verdict(max, f, b);
        let l = b.body.len();
        let pre = pb::varint_vec(l as u64).len();
        match got.get(i) {
            Some(g) => {
                if v == Verdict::MustReject {
                    return Err(format!("over-limit-rpc-accepted :: frame {i} of {frames:?} (encoded {l} B > max_transmit_size {max}) was decoded; cuts {cuts:?}"));
                }
                let want = Got::Rpc { data_lens: b.data_lens.clone(), invalid: 0, subs: b.subs, grafts: b.grafts };
                if *g != want {
                    return Err(format!("decoded-content-mismatch :: frame {i} of {frames:?}: got {g:?}, expected {want:?}; cuts {cuts:?}"));
                }
                if v == Verdict::Open {
                    info.open_accepted += 1;
                } else if l == max || matches!(f, Frame::NPub { n } if *n == MAX_PUB) || b.ctrl_hi == MAX_CTRL {
                    info.accepted_at_limit += 1;
                }
            }
            None => {
                // the stream stopped before this frame was produced
                let e = err.clone().unwrap_or_else(|| "<end of stream without error>".into());
                match v {
                    Verdict::MustReject => {
                        if err.is_none() {
                            return Err(format!("over-limit-rpc-no-error :: frame {i} of {frames:?} (encoded {l} B > max {max}) neither decoded nor reported as error; cuts {cuts:?}"));
                        }
                        info.rejected_over += 1;
                    }
                    Verdict::Open => info.open_rejected += 1,
                    Verdict::MustAccept => {
                        let class = if matches!(f, Frame::Mixed { .. }) {
                            // limits charged with bytes of other fields
                            "mixed-field-order"
                        } else if l + pre > max {
                            // the frame cannot pass even when it is alone in the read buffer
                            "frame-plus-length-prefix-exceeds-max"
                        } else if frames.len() > 1 || nchunks > 1 {
                            "coalesced-with-neighbouring-bytes"
                        } else {
                            "alone"
                        };
                        return Err(format!("within-limit-rpc-rejected:{class} :: frame {i} of {frames:?} (encoded {l} B <= max_transmit_size {max}, within publish/control limits) was not decoded: {e}; cuts {cuts:?} ({nchunks} chunks)"));
                    }
                }
                return Ok(()); // nothing can be said about frames after the first undecoded one
            }
        }
    }
    if got.len() > frames.len() {
        return Err(format!("extra-rpc :: {} RPCs decoded from {} frames", got.len(), frames.len()));
    }
    if let Some(e) = err {
        return Err(format!("error-after-all-frames :: all {} frames decoded, then error {e}; cuts {cuts:?}", frames.len()));
    }
    Ok(())
}

fn cutsets(frames: &[Built]) -> Vec<Vec<usize>> {
    let mut pos: Vec<usize> = Vec::new();
    let mut p = 0;
    for b in frames {
        let l = b.body.len();
        let pre = pb::varint_vec(l as u64).len();
        let t = pre + l;
        for d in 1..=(pre + 3) {
            pos.push(p + d);
        }
        pos.push(p + t / 2);
        pos.push(p + t - 2);
        pos.push(p + t - 1);
        pos.push(p + t);
        p += t;
    }
    pos.retain(|&c| c >= 1 && c < p);
    pos.sort();
    pos.dedup();
    let mut out = vec![vec![]];
    for i in 0..pos.len() {
        out.push(vec![pos[i]]);
        for j in i + 1..pos.len() {
            out.push(vec![pos[i], pos[j]]);
        }
    }
    out
}

/// the independent writer must agree byte for byte with the production encoder
fn crosscheck_encoder(out: &mut Outcome) {
    for len in [97usize, 100, 103, 130, 2048] {
        let Some(b) = build(&Frame::Pub { len }) else { continue };
        let Some(pb::Field::Bytes(_, msg)) = pb::parse(&b.body).and_then(|f| f.into_iter().next()) else { continue };
        let tl = msg.len() - 1 - pb::varint_vec(b.data_lens[0] as u64).len() - b.data_lens[0] - 2;
        let raw = RawMessage { source: None, data: vec![0xAB; b.data_lens[0]], sequence_number: None, topic: TopicHash::from_raw("t".repeat(tl)), signature: None, key: None, validated: false };
        let mut dst = BytesMut::new();
        let r = encode_rpc_out(&mut codec(1 << 20), rpc_out_publish(MessageId::new(b"x"), raw), &mut dst);
        if r.is_err() || dst.to_vec() != pb::frame(&b.body) {
            out.machinery(format!("independent protobuf writer disagrees with the real encoder for a publish RPC of {len} B ({r:?})"));
        }
        out.count("encoder_crosschecks", 1);
    }
}

pub fn run(ctx: &Ctx) -> Outcome {
    if let Some(case) = &ctx.replay {
        let mut out = Outcome::default();
        out.evaluations = 1;
        let max = case["max"].as_u64().unwrap_or(100) as usize;
        let frames: Vec<Frame> = serde_json::from_value(case["frames"].clone()).unwrap_or_default();
        let cuts: Vec<usize> = serde_json::from_value(case["cuts"].clone()).unwrap_or_default();
        if let Err(m) = run_case(max, &frames, &cuts, &mut CaseInfo::default()) {
            out.violation(mc::bfs::signature_of(&m), m, case.clone());
        }
        return out;
    }
    // simplest cases first (single frames and fully coalesced pairs, max 100) so that the case
    // kept per violation signature is a minimal one; they are enumerated again (and counted)
    // by the workers below
    let mut pre = Outcome::default();
    if ctx.worker.is_none() {
        let lens: Vec<usize> = (97..=103).collect();
        mc::enumerate::sequences_upto(lens.len(), 2, |ix| {
            if ix.is_empty() {
                return;
            }
            let frames: Vec<Frame> = ix.iter().map(|&i| Frame::Pub { len: lens[i] }).collect();
            if let Err(m) = run_case(100, &frames, &[], &mut CaseInfo::default()) {
                pre.violation(mc::bfs::signature_of(&m), m, json!({"max": 100, "frames": frames, "cuts": []}));
            }
        });
    }
    let out = mc::workers(ctx, 16, |ctx| {
        let mut out = Outcome::default();
        let mut info = CaseInfo::default();
        let mut idx: u64 = 0;
        let mut unit = |max: usize, frames: Vec<Frame>, out: &mut Outcome, info: &mut CaseInfo| {
            idx += 1;
            if !ctx.mine(idx) {
                return;
            }
            let Some(built) = frames.iter().map(build).collect::<Option<Vec<Built>>>() else {
                out.count("unbuildable_length_skipped", 1);
                return;
            };
            for cuts in cutsets(&built) {
                out.evaluations += 1;
                if frames.len() > 1 || !cuts.is_empty() {
                    out.nontrivial(&format!("{max}{frames:?}{cuts:?}"));
                }
                if frames.len() > 1 && cuts.is_empty() {
                    out.count("fully_coalesced_multi_frame_cases", 1);
                }
                let case: Value = json!({"max": max, "frames": frames, "cuts": cuts});
                if out.evaluations % 4099 == 1 {
                    out.sample(case.clone());
                }
                if let Err(m) = run_built(max, &frames, &built, &cuts, info) {
                    if m.starts_with("harness ::") {
                        out.machinery(m);
                    } else {
                        out.violation(mc::bfs::signature_of(&m), m, case);
                    }
                }
            }
        };
        // ---- size part
        let maxes: Vec<usize> = ctx.tier.pick(vec![100, 2048], vec![100, 130, 2048, 9000]);
        for &max in &maxes {
            let lens: Vec<usize> = (max - 3..=max + 3).collect();
            mc::enumerate::sequences_upto(lens.len(), 3, |ix| {
                if ix.is_empty() {
                    return;
                }
                let frames: Vec<Frame> = ix.iter().map(|&i| Frame::Pub { len: lens[i] }).collect();
                unit(max, frames, &mut out, &mut info);
            });
        }
        // ---- publish-count / control-size part (transmit size far away)
        let alpha = [Frame::NPub { n: 2 }, Frame::NPub { n: 3 }, Frame::NPub { n: 4 }, Frame::Ctrl { size: 36 }, Frame::Ctrl { size: 39 }, Frame::Ctrl { size: 40 }, Frame::Ctrl { size: 41 }, Frame::Ctrl { size: 45 }];
        mc::enumerate::sequences_upto(alpha.len(), 2, |ix| {
            if ix.is_empty() {
                return;
            }
            let frames: Vec<Frame> = ix.iter().map(|&i| alpha[i].clone()).collect();
            unit(2048, frames, &mut out, &mut info);
        });
        // ---- mixed RPCs: every field order of 2-4 fields over {publish, control, subscription,
        // unknown}; publish / unknown bytes exceed the control limit but must not count towards it
        mc::enumerate::sequences_upto(4, 4, |ix| {
            if ix.len() < 2 {
                return;
            }
            let order: String = ix.iter().map(|&i| ['P', 'C', 'S', 'U'][i]).collect();
            if !order.contains('C') && !order.contains('S') {
                return;
            }
            if ctx.worker.map_or(true, |w| w.0 == 0) {
                out.count("mixed_field_order_rpcs", 1);
            }
            unit(2048, vec![Frame::Mixed { order: order.clone() }], &mut out, &mut info);
            // and behind / in front of a plain publish frame (coalescing)
            unit(2048, vec![Frame::NPub { n: 1 }, Frame::Mixed { order: order.clone() }], &mut out, &mut info);
            unit(2048, vec![Frame::Mixed { order }, Frame::NPub { n: 1 }], &mut out, &mut info);
        });
        out.count("frames_accepted_exactly_at_a_limit", info.accepted_at_limit);
        out.count("frames_rejected_over_max_transmit_size", info.rejected_over);
        out.count("frames_over_publish_or_control_limit_rejected", info.open_rejected);
        out.count("frames_over_publish_or_control_limit_accepted", info.open_accepted);
        out
    });
    pre.merge(out);
    let mut out = pre;
    crosscheck_encoder(&mut out);
    for k in ["frames_rejected_over_max_transmit_size", "fully_coalesced_multi_frame_cases", "frames_over_publish_or_control_limit_rejected"] {
        if out.get(k) == 0 {
            out.machinery(format!("vacuity: '{k}' is zero"));
        }
    }
    if out.get("frames_accepted_exactly_at_a_limit") == 0 {
        out.machinery("vacuity: no frame exactly at a limit was ever accepted");
    }
    out
}
