//! Helpers to drive a standalone `gossipsub::Behaviour` through the public `NetworkBehaviour`
//! trait: connections are announced with `handle_established_*` + `FromSwarm`, inbound RPCs are
//! wire bytes (built with `kit::pb`) decoded by the *real* codec into the `HandlerEvent` that is
//! handed to `on_connection_handler_event`.

use bytes::BytesMut;
use kit::ids::{maddr, peer};
use kit::pb::{self, W};
use libp2p_core::{transport::PortUse, ConnectedPoint, Endpoint};
use libp2p_gossipsub::verif_gs_unit::{handler_event_peer_kind, GossipsubCodec, Handler, HandlerEvent, PeerKind};
use libp2p_gossipsub::{Behaviour, DataTransform, TopicSubscriptionFilter, ValidationMode};
use libp2p_swarm::behaviour::{ConnectionEstablished, FromSwarm};
use libp2p_swarm::{ConnectionId, NetworkBehaviour};
use std::collections::HashMap;
use std::time::Duration;

/// far beyond anything a check reaches: the behaviour never heartbeats on its own
pub const NEVER: Duration = Duration::from_secs(3600 * 24 * 365 * 10);

/// decode one framed RPC with the real codec
pub fn decode_rpc(body: &[u8]) -> Result<HandlerEvent, String> {
    use asynchronous_codec::Decoder;
    let mut c = GossipsubCodec::new(1 << 20, ValidationMode::Permissive, HashMap::new(), 500, 1 << 16);
    let mut buf = BytesMut::from(&pb::frame(body)[..]);
    match c.decode(&mut buf) {
        Ok(Some(ev)) => Ok(ev),
        Ok(None) => Err("incomplete".into()),
        Err(e) => Err(e.to_string()),
    }
}

/// RPC body carrying subscription entries (subscribe?, topic)
pub fn subs_rpc(entries: &[(bool, &str)]) -> Vec<u8> {
    let mut w = W::new();
    for (s, t) in entries {
        w = w.msg(1, &W::new().uint(1, *s as u64).bytes(2, t.as_bytes()));
    }
    w.finish()
}

/// Announce a new connection of peer `i` (its first) to the behaviour; returns the real handler.
pub fn connect<D, F>(b: &mut Behaviour<D, F>, i: u8, outbound: bool) -> Handler
where
    D: DataTransform + Send + 'static,
    F: TopicSubscriptionFilter + Send + 'static,
{
    let p = peer(i);
    let conn = ConnectionId::new_unchecked(i as usize);
    let addr = maddr(1000 + i as u64);
    let (h, endpoint) = if outbound {
        (b.handle_established_outbound_connection(conn, p, &addr, Endpoint::Dialer, PortUse::Reuse), ConnectedPoint::Dialer { address: addr.clone(), role_override: Endpoint::Dialer, port_use: PortUse::Reuse })
    } else {
        (b.handle_established_inbound_connection(conn, p, &maddr(1), &addr), ConnectedPoint::Listener { local_addr: maddr(1), send_back_addr: addr.clone() })
    };
    let h = h.expect("gossipsub never denies connections");
    b.on_swarm_event(FromSwarm::ConnectionEstablished(ConnectionEstablished { peer_id: p, connection_id: conn, endpoint: &endpoint, failed_addresses: &[], other_established: 0 }));
    b.on_connection_handler_event(p, conn, handler_event_peer_kind(PeerKind::Gossipsubv1_1));
    h
}

/// Hand an inbound RPC (wire body) of peer `i` to the behaviour.
pub fn deliver<D, F>(b: &mut Behaviour<D, F>, i: u8, body: &[u8]) -> Result<(), String>
where
    D: DataTransform + Send + 'static,
    F: TopicSubscriptionFilter + Send + 'static,
{
    let ev = decode_rpc(body)?;
    b.on_connection_handler_event(peer(i), ConnectionId::new_unchecked(i as usize), ev);
    Ok(())
}
