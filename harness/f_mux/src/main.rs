//! Family binary: stream multiplexers (C24, C26).
mod c24;
mod c26;

fn main() {
    mc::main_dispatch(&[("C24", c24::run, c24::META), ("C26", c26::run, c26::META)]);
}
