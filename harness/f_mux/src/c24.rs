//! C24 — multiplexed substreams deliver exactly their own bytes (mplex and yamux).
//!
//! E1: two REAL muxer endpoints (A = outbound upgrade, B = inbound upgrade) over one
//! `kit::pipe` whose chunking / readiness the explorer decides; per endpoint one driver task
//! (poll_outbound on request, poll_inbound, poll — the way libp2p-swarm's `Connection` uses a
//! `StreamMuxer`) and one task per substream that executes its operation script
//! (write tagged bytes / zero-length write / flush / close / read n / read to EOF / drop). The task schedule is the
//! explorer's as well. Every execution starts with the virtual clock and the entropy stream
//! reset; the muxers turned out not to draw entropy on any decision path (guarded, see `body`),
//! so executions run in place; `C24_ISOLATE=1` runs each on a fresh thread as a cross-check.
//!
//! Oracle (per execution, from the operation log only):
//! * every byte read on a handle carries the tag of ONE peer handle (opposite side, opposite
//!   role) and the offsets are 0,1,2,…: the bytes read are a prefix of the bytes that peer wrote
//!   ("foreign-tag", "not-a-prefix"); the handle pairing is a bijection;
//! * EOF is observed only after the peer handle started `close` or was dropped (= reset);
//! * when the writer's `close` completed and the reader read EOF, the reader got every byte;
//! * read / write errors are accepted only when the peer handle was dropped (reset) — never on
//!   a cleanly used stream; the muxer itself must not fail;
//! * the scripts are deadlock-free by construction (nobody waits for data that is sent only
//!   after something it has not sent yet), so "quiescent with unfinished tasks" is a violation
//!   (some written byte / EOF is never delivered).

use futures::future::poll_fn;
use futures::io::{AsyncRead, AsyncWrite};
use kit::pipe::{self, PipeCfg};
use kit::tasks::{RunEnd, Tasks};
use libp2p_core::muxing::StreamMuxer;
use libp2p_core::upgrade::{InboundConnectionUpgrade, OutboundConnectionUpgrade};
use mc::choice::{self, Chooser};
use mc::{json, Ctx, Meta, Outcome, Value};
use std::cell::RefCell;
use std::collections::{BTreeMap, VecDeque};
use std::pin::Pin;
use std::rc::Rc;
use std::task::{Poll, Waker};

pub const META: Meta = Meta {
    level: "model_checking",
    rule: "units = muxer configuration (mplex Block max_buffer_len 1 split 2; mplex Block max_buffer_len 2 split 3; mplex ResetStream buffer 32 split 2; yamux default) x operation script (1-2 substreams per side quick, up to 3 thorough; open/write/zero-length write/flush/close/read/drop orders incl. writer-reset and reader-drop); per unit every execution with <= bound deviations (bound 2 quick / 3 thorough; 1-byte reads, 1-byte writes, injected Pending on read/write/flush of the shared connection, non-round-robin task choice). Non-trivial = executions with >= 1 deviation, distinct by (unit, choice sequence).",
    explanation: "E1 stateless DFS with deviation bound over the real muxers joined by an in-memory pipe; each execution with the virtual clock and the entropy stream reset (any entropy consumption by yamux is a machinery error; fresh-thread isolation available as cross-check); oracle from the operation log: per handle the bytes read are a prefix of the paired peer handle's written bytes (tags), complete at EOF after a completed close, EOF only after close/drop, no foreign tag, no error on clean streams, no stuck execution.",
    assumptions: &[
        "poll-granularity interleaving on one thread; one driver task per endpoint calls poll_inbound/poll_outbound/poll (as libp2p-swarm does), substreams live in their own tasks",
        "<= 16 bytes per stream and direction, <= 3 substreams per side",
        "mplex ResetStream is run with a buffer that the scripts cannot overflow (overflow is C26)",
    ],
};

// ------------------------------------------------------------------------------------------
// scripts

#[derive(Clone, Copy, Debug, PartialEq)]
enum Op {
    /// write n tagged bytes (write_all)
    W(usize),
    /// one `poll_write` with an EMPTY buffer (a zero-length write; mplex sends an empty Data
    /// frame for it). Writes nothing, must not end the peer's stream.
    Z,
    /// flush
    F,
    /// close (half-close of the write side)
    C,
    /// read up to n bytes (stops at EOF)
    R(usize),
    /// read to EOF
    E,
    /// drop the handle now
    D,
}
use Op::*;

struct Script {
    name: &'static str,
    /// ops of the k-th substream opened by side A / B
    opens: [Vec<Vec<Op>>; 2],
    /// ops of the j-th substream accepted by side A / B (in order of acceptance)
    accepts: [Vec<Vec<Op>>; 2],
}

fn scripts(thorough: bool) -> Vec<Script> {
    let mut v = vec![
        Script { name: "ping-pong", opens: [vec![vec![W(3), F, W(2), C, E]], vec![]], accepts: [vec![], vec![vec![E, W(2), C]]] },
        Script {
            name: "both-open",
            opens: [vec![vec![W(3), F, C, E]], vec![vec![W(3), F, C, E]]],
            accepts: [vec![vec![W(2), F, E, C]], vec![vec![W(2), F, E, C]]],
        },
        Script {
            name: "two-interleaved",
            opens: [vec![vec![W(4), F, C, E], vec![W(4), F, C, E]], vec![]],
            accepts: [vec![], vec![vec![E, W(1), C], vec![E, W(1), C]]],
        },
        Script {
            name: "close-implies-flush",
            opens: [vec![vec![W(5), C, E], vec![W(2), F, W(2), F, C, E]], vec![]],
            accepts: [vec![], vec![vec![W(3), C, E], vec![E, C]]],
        },
        Script {
            name: "writer-reset",
            opens: [vec![vec![W(3), F, D], vec![W(4), C, E]], vec![]],
            accepts: [vec![], vec![vec![E, W(2), C], vec![E, W(2), C]]],
        },
        Script {
            name: "reader-drop",
            opens: [vec![vec![W(6), F, C, E], vec![W(3), F, C, E]], vec![]],
            accepts: [vec![], vec![vec![R(1), D], vec![E, W(1), C]]],
        },
        Script {
            name: "two-each",
            opens: [vec![vec![W(3), C, E], vec![W(2), F, C, E]], vec![vec![W(3), C, E], vec![W(2), F, C, E]]],
            accepts: [vec![vec![E, W(1), C], vec![W(1), C, E]], vec![vec![E, W(1), C], vec![W(1), C, E]]],
        },
    ];
    // zero-length writes: as first write, between non-empty writes, before close
    v.push(Script {
        name: "zero-length-writes",
        opens: [vec![vec![Z, W(2), Z, W(2), F, C, E], vec![W(2), Z, F, W(1), Z, C, E]], vec![]],
        accepts: [vec![], vec![vec![E, Z, W(1), C], vec![Z, W(2), Z, C, E]]],
    });
    if thorough {
        v.push(Script {
            name: "three-streams",
            opens: [vec![vec![W(4), F, C, E], vec![W(3), C, E], vec![W(2), F, W(2), C, E]], vec![vec![W(3), F, C, E]]],
            accepts: [vec![vec![E, C]], vec![vec![E, W(1), C], vec![W(2), F, E, C], vec![E, C]]],
        });
        v.push(Script {
            name: "three-with-reset",
            opens: [vec![vec![W(4), F, D], vec![W(5), C, E], vec![W(2), F, C, E]], vec![]],
            accepts: [vec![], vec![vec![E, C], vec![R(2), D], vec![E, W(2), C]]],
        });
    }
    v
}

// ------------------------------------------------------------------------------------------
// log

/// handle id: (side 0/1, role 0 = opened locally / 1 = accepted, index)
type Hid = (u8, u8, u8);

fn tag(h: Hid, off: usize) -> u8 {
    (h.0 << 7) | (h.1 << 6) | (h.2 << 4) | (off as u8 & 15)
}
fn untag(b: u8) -> (Hid, usize) {
    ((b >> 7, (b >> 6) & 1, (b >> 4) & 3), (b & 15) as usize)
}

#[derive(Default, Debug, Clone)]
struct HLog {
    written: Vec<u8>,
    write_err: Option<String>,
    flush_err: Option<String>,
    close_start: Option<u64>,
    close_done: Option<u64>,
    close_err: Option<String>,
    dropped: Option<u64>,
    read: Vec<u8>,
    eof: Option<u64>,
    read_err: Option<(u64, String)>,
    finished: bool,
}

#[derive(Default)]
struct Log {
    seq: u64,
    h: BTreeMap<Hid, HLog>,
    mux_err: Vec<String>,
}
impl Log {
    fn tick(&mut self) -> u64 {
        self.seq += 1;
        self.seq
    }
}

// ------------------------------------------------------------------------------------------
// one endpoint

struct SideSh<S> {
    inbox: VecDeque<S>,
    inbox_wakers: Vec<Waker>,
    out_req: usize,
    out_ready: VecDeque<S>,
    out_wakers: Vec<Waker>,
    drv_waker: Option<Waker>,
}
impl<S> Default for SideSh<S> {
    fn default() -> Self {
        SideSh { inbox: VecDeque::new(), inbox_wakers: vec![], out_req: 0, out_ready: VecDeque::new(), out_wakers: vec![], drv_waker: None }
    }
}

struct Global {
    remaining: usize,
    drv_wakers: Vec<Waker>,
}

async fn stream_task<S: AsyncRead + AsyncWrite + Unpin>(mut s: S, id: Hid, ops: Vec<Op>, log: Rc<RefCell<Log>>) {
    let mut off = 0usize;
    for op in ops {
        match op {
            W(n) => {
                let data: Vec<u8> = (off..off + n).map(|o| tag(id, o)).collect();
                let mut done = 0;
                while done < n {
                    let r = poll_fn(|cx| Pin::new(&mut s).poll_write(cx, &data[done..])).await;
                    match r {
                        Ok(0) => {
                            log.borrow_mut().h.get_mut(&id).unwrap().write_err = Some("write returned 0".into());
                            break;
                        }
                        Ok(k) => {
                            log.borrow_mut().h.get_mut(&id).unwrap().written.extend_from_slice(&data[done..done + k]);
                            done += k;
                        }
                        Err(e) => {
                            log.borrow_mut().h.get_mut(&id).unwrap().write_err = Some(ek(&e));
                            break;
                        }
                    }
                }
                off += n;
                if done < n {
                    break;
                }
            }
            Z => match poll_fn(|cx| Pin::new(&mut s).poll_write(cx, &[])).await {
                Ok(0) => {}
                Ok(k) => {
                    log.borrow_mut().h.get_mut(&id).unwrap().write_err = Some(format!("zero-length write returned {k}"));
                    break;
                }
                Err(e) => {
                    log.borrow_mut().h.get_mut(&id).unwrap().write_err = Some(ek(&e));
                    break;
                }
            },
            F => {
                if let Err(e) = poll_fn(|cx| Pin::new(&mut s).poll_flush(cx)).await {
                    log.borrow_mut().h.get_mut(&id).unwrap().flush_err = Some(ek(&e));
                    break;
                }
            }
            C => {
                {
                    let mut l = log.borrow_mut();
                    let t = l.tick();
                    l.h.get_mut(&id).unwrap().close_start = Some(t);
                }
                let r = poll_fn(|cx| Pin::new(&mut s).poll_close(cx)).await;
                let mut l = log.borrow_mut();
                let t = l.tick();
                match r {
                    Ok(()) => l.h.get_mut(&id).unwrap().close_done = Some(t),
                    Err(e) => l.h.get_mut(&id).unwrap().close_err = Some(ek(&e)),
                }
            }
            R(_) | E => {
                let want = if let R(n) = op { n } else { usize::MAX };
                let mut got = 0;
                while got < want {
                    let mut buf = [0u8; 4];
                    let lim = (want - got).min(4);
                    let r = poll_fn(|cx| Pin::new(&mut s).poll_read(cx, &mut buf[..lim])).await;
                    let mut l = log.borrow_mut();
                    let t = l.tick();
                    let h = l.h.get_mut(&id).unwrap();
                    match r {
                        Ok(0) => {
                            h.eof = Some(t);
                            break;
                        }
                        Ok(k) => {
                            h.read.extend_from_slice(&buf[..k]);
                            got += k;
                        }
                        Err(e) => {
                            h.read_err = Some((t, ek(&e)));
                            break;
                        }
                    }
                }
                let l = log.borrow();
                let h = &l.h[&id];
                if h.read_err.is_some() || (op == E && h.eof.is_none()) {
                    break;
                }
            }
            D => break,
        }
    }
    {
        let mut l = log.borrow_mut();
        let t = l.tick();
        let h = l.h.get_mut(&id).unwrap();
        h.dropped = Some(t);
        h.finished = true;
    }
    drop(s);
}

fn one<M>(a: M, b: M, sc: &Script) -> Result<(), String>
where
    M: StreamMuxer + Unpin + 'static,
    M::Substream: AsyncRead + AsyncWrite + Unpin + 'static,
    M::Error: std::fmt::Display,
{
    let log = Rc::new(RefCell::new(Log::default()));
    let mut tasks = Tasks::new(true);
    let total: usize = (0..2).map(|s| sc.opens[s].len() * 2).sum();
    let glob = Rc::new(RefCell::new(Global { remaining: total, drv_wakers: vec![] }));
    let mut muxes = vec![Some(a), Some(b)];
    for side in 0..2usize {
        let mux = Rc::new(RefCell::new(muxes[side].take().unwrap()));
        let sh: Rc<RefCell<SideSh<M::Substream>>> = Rc::new(RefCell::new(SideSh::default()));
        // driver
        {
            let (mux, sh, glob, log) = (mux.clone(), sh.clone(), glob.clone(), log.clone());
            tasks.spawn_local(format!("drv{side}"), async move {
                poll_fn(move |cx| {
                    loop {
                        if glob.borrow().remaining == 0 {
                            return Poll::Ready(());
                        }
                        let mut again = false;
                        while sh.borrow().out_req > 0 {
                            match Pin::new(&mut *mux.borrow_mut()).poll_outbound(cx) {
                                Poll::Ready(Ok(s)) => {
                                    let mut g = sh.borrow_mut();
                                    g.out_req -= 1;
                                    g.out_ready.push_back(s);
                                    for w in g.out_wakers.drain(..) {
                                        w.wake();
                                    }
                                }
                                Poll::Ready(Err(e)) => {
                                    log.borrow_mut().mux_err.push(format!("side {side} poll_outbound: {e}"));
                                    return Poll::Ready(());
                                }
                                Poll::Pending => break,
                            }
                        }
                        match Pin::new(&mut *mux.borrow_mut()).poll_inbound(cx) {
                            Poll::Ready(Ok(s)) => {
                                let mut g = sh.borrow_mut();
                                g.inbox.push_back(s);
                                for w in g.inbox_wakers.drain(..) {
                                    w.wake();
                                }
                                again = true;
                            }
                            Poll::Ready(Err(e)) => {
                                log.borrow_mut().mux_err.push(format!("side {side} poll_inbound: {e}"));
                                return Poll::Ready(());
                            }
                            Poll::Pending => {}
                        }
                        match Pin::new(&mut *mux.borrow_mut()).poll(cx) {
                            Poll::Ready(Ok(_)) => again = true,
                            Poll::Ready(Err(e)) => {
                                log.borrow_mut().mux_err.push(format!("side {side} poll: {e}"));
                                return Poll::Ready(());
                            }
                            Poll::Pending => {}
                        }
                        if !again {
                            sh.borrow_mut().drv_waker = Some(cx.waker().clone());
                            glob.borrow_mut().drv_wakers.push(cx.waker().clone());
                            return Poll::Pending;
                        }
                    }
                })
                .await;
            });
        }
        // openers
        for (k, ops) in sc.opens[side].iter().enumerate() {
            let id: Hid = (side as u8, 0, k as u8);
            log.borrow_mut().h.insert(id, HLog::default());
            let (sh, glob, log, ops) = (sh.clone(), glob.clone(), log.clone(), ops.clone());
            tasks.spawn_local(format!("open{side}.{k}"), async move {
                {
                    let mut g = sh.borrow_mut();
                    g.out_req += 1;
                    if let Some(w) = g.drv_waker.take() {
                        w.wake();
                    }
                }
                let s = poll_fn(|cx| {
                    let mut g = sh.borrow_mut();
                    match g.out_ready.pop_front() {
                        Some(s) => Poll::Ready(s),
                        None => {
                            g.out_wakers.push(cx.waker().clone());
                            Poll::Pending
                        }
                    }
                })
                .await;
                stream_task(s, id, ops, log).await;
                finish(&glob);
            });
        }
        // acceptors (streams opened by the other side)
        for (j, ops) in sc.accepts[side].iter().enumerate() {
            let id: Hid = (side as u8, 1, j as u8);
            log.borrow_mut().h.insert(id, HLog::default());
            let (sh, glob, log, ops) = (sh.clone(), glob.clone(), log.clone(), ops.clone());
            tasks.spawn_local(format!("acc{side}.{j}"), async move {
                let s = poll_fn(|cx| {
                    let mut g = sh.borrow_mut();
                    match g.inbox.pop_front() {
                        Some(s) => Poll::Ready(s),
                        None => {
                            g.inbox_wakers.push(cx.waker().clone());
                            Poll::Pending
                        }
                    }
                })
                .await;
                stream_task(s, id, ops, log).await;
                finish(&glob);
            });
        }
    }
    assert_eq!(sc.accepts[0].len(), sc.opens[1].len());
    assert_eq!(sc.accepts[1].len(), sc.opens[0].len());
    let end = tasks.run(30_000);
    let l = log.borrow();
    choice::observe(&format!("{:?}{:?}", l.h, l.mux_err));
    if std::env::var_os("C24_DEBUG").is_some() {
        eprintln!("LOG {:?} {:?} served={}", l.h, l.mux_err, mc::entropy::served());
    }
    judge(&l, end, &tasks)
}

/// io errors are logged by kind: yamux messages carry a process-global connection counter
fn ek(e: &std::io::Error) -> String {
    format!("{:?}", e.kind())
}

fn finish(glob: &Rc<RefCell<Global>>) {
    let mut g = glob.borrow_mut();
    g.remaining -= 1;
    if g.remaining == 0 {
        for w in g.drv_wakers.drain(..) {
            w.wake();
        }
    }
}

fn judge(l: &Log, end: RunEnd, tasks: &Tasks) -> Result<(), String> {
    if !l.mux_err.is_empty() {
        return Err(format!("muxer-error :: {:?}", l.mux_err));
    }
    // pairing from the tags
    let mut peer_of: BTreeMap<Hid, Hid> = BTreeMap::new();
    for (id, h) in &l.h {
        let Some(&b0) = h.read.first() else { continue };
        let (p, _) = untag(b0);
        if p.0 == id.0 || p.1 == id.1 || !l.h.contains_key(&p) {
            return Err(format!("foreign-tag :: handle {id:?} read byte {b0:#x} tagged {p:?}, which cannot be its peer (read {:x?})", h.read));
        }
        for (i, b) in h.read.iter().enumerate() {
            let (q, off) = untag(*b);
            if q != p {
                return Err(format!("foreign-tag :: handle {id:?} (peer {p:?}) read byte {b:#x} of handle {q:?} at position {i} (read {:x?})", h.read));
            }
            if off != i {
                return Err(format!("not-a-prefix :: handle {id:?} read offset {off} of {p:?} at position {i} (read {:x?}, peer wrote {:x?})", h.read, l.h[&p].written));
            }
        }
        let w = &l.h[&p].written;
        if h.read.len() > w.len() || h.read[..] != w[..h.read.len()] {
            return Err(format!("not-a-prefix :: handle {id:?} read {:x?}, peer {p:?} wrote {:x?}", h.read, w));
        }
        peer_of.insert(*id, p);
    }
    // bijection / symmetry
    let ids: Vec<Hid> = peer_of.keys().copied().collect();
    for id in &ids {
        let p = peer_of[id];
        match peer_of.get(&p) {
            Some(back) if back != id => return Err(format!("pairing :: {id:?} reads from {p:?} but {p:?} reads from {back:?}")),
            _ => {}
        }
        if ids.iter().any(|o| o != id && peer_of[o] == p) {
            return Err(format!("pairing :: two handles read from {p:?}"));
        }
    }
    // complete the pairing by symmetry
    for id in &ids {
        let p = peer_of[id];
        peer_of.entry(p).or_insert(*id);
    }
    let unpaired = |side: u8, role: u8| -> Vec<Hid> { l.h.keys().filter(|k| k.0 == side && k.1 == role && !peer_of.contains_key(k)).copied().collect() };
    for (id, h) in &l.h {
        // candidates for the peer handle
        let cands: Vec<Hid> = match peer_of.get(id) {
            Some(p) => vec![*p],
            None => unpaired(1 - id.0, 1 - id.1),
        };
        let ended = |p: &Hid, t: u64| -> bool {
            let ph = &l.h[p];
            ph.close_start.map(|c| c < t).unwrap_or(false) || ph.dropped.map(|c| c < t).unwrap_or(false)
        };
        let was_reset = |p: &Hid| -> bool {
            let ph = &l.h[p];
            // dropped without a completed close, or dropped while our side may still write
            ph.dropped.is_some()
        };
        if let Some(t) = h.eof {
            if !cands.iter().any(|p| ended(p, t)) {
                return Err(format!("eof-before-close :: handle {id:?} read EOF at {t} but its peer ({cands:?}) had neither started close nor been dropped"));
            }
            if let Some(p) = peer_of.get(id) {
                let ph = &l.h[p];
                let clean = ph.close_done.is_some() && ph.close_done < ph.dropped.or(Some(u64::MAX));
                if clean && h.read != ph.written {
                    return Err(format!("eof-truncated :: handle {id:?} read EOF after {:x?} but peer {p:?} wrote {:x?} and closed cleanly", h.read, ph.written));
                }
            } else if h.read.is_empty() {
                // unknown peer, nothing read: some unpaired peer must have written nothing or been reset
                let ok = cands.iter().any(|p| {
                    let ph = &l.h[p];
                    ended(p, t) && (ph.written.is_empty() || ph.close_done.is_none())
                });
                if !ok {
                    return Err(format!("eof-truncated :: handle {id:?} read EOF without any byte but every possible peer {cands:?} wrote data and closed cleanly"));
                }
            }
        }
        if let Some((t, e)) = &h.read_err {
            if !cands.iter().any(|p| was_reset(p) && l.h[p].dropped.unwrap() < *t && l.h[p].close_done.is_none()) {
                return Err(format!("read-error :: handle {id:?} read failed ({e}) although its peer ({cands:?}) was not reset before"));
            }
        }
        for (what, e) in [("write", &h.write_err), ("flush", &h.flush_err), ("close", &h.close_err)] {
            if let Some(e) = e {
                // the peer gave the stream up (dropped its handle) — the only accepted reason
                if !cands.iter().any(was_reset) {
                    return Err(format!("{what}-error :: handle {id:?} {what} failed ({e}) although its peer ({cands:?}) never dropped the stream"));
                }
            }
        }
    }
    // A task that is still waiting is a violation unless the peer handle was dropped without a
    // completed close (= reset): the statement promises end-of-stream only "after the writer
    // closes"; a reset need not be delivered promptly (mplex queues the Reset frame until the
    // next flush of the connection).
    let excused = |id: &Hid| -> bool {
        let cands: Vec<Hid> = match peer_of.get(id) {
            Some(p) => vec![*p],
            None => unpaired(1 - id.0, 1 - id.1),
        };
        cands.iter().any(|p| l.h[p].dropped.is_some() && l.h[p].close_done.is_none())
    };
    let unfinished: Vec<&Hid> = l.h.iter().filter(|(k, h)| !h.finished && !excused(k)).map(|(k, _)| k).collect();
    if end == RunEnd::Horizon {
        return Err(format!("horizon :: still runnable after 30000 polls (livelock?); unfinished {unfinished:?}; runnable {:?}", tasks.runnable().iter().map(|i| tasks.name(*i).to_string()).collect::<Vec<_>>()));
    }
    if !unfinished.is_empty() {
        let st: Vec<String> = unfinished.iter().map(|k| format!("{k:?}: read {:x?} eof {:?} written {} close {:?}/{:?}", l.h[k].read, l.h[k].eof, l.h[k].written.len(), l.h[k].close_start, l.h[k].close_done)).collect();
        return Err(format!("stuck :: quiescent but substream tasks {unfinished:?} never finish (a written byte or EOF is never delivered): {st:?}; full log {:?}", l.h));
    }
    Ok(())
}

// ------------------------------------------------------------------------------------------
// units

#[derive(Clone, Copy, Debug)]
enum Mx {
    Mplex { block: bool, max_buf: usize, split: usize },
    Yamux,
}
const MUXERS: [(&str, Mx); 4] = [
    ("mplex-block-1-2", Mx::Mplex { block: true, max_buf: 1, split: 2 }),
    ("mplex-block-2-3", Mx::Mplex { block: true, max_buf: 2, split: 3 }),
    ("mplex-reset-32-2", Mx::Mplex { block: false, max_buf: 32, split: 2 }),
    ("yamux", Mx::Yamux),
];

fn run_unit(mx: Mx, sc: &Script) -> Result<(), String> {
    let (a, b) = pipe::pair(PipeCfg::adversarial());
    match mx {
        Mx::Mplex { block, max_buf, split } => {
            let mut c = libp2p_mplex::Config::new();
            c.set_max_buffer_size(max_buf);
            c.set_max_buffer_behaviour(if block { libp2p_mplex::MaxBufferBehaviour::Block } else { libp2p_mplex::MaxBufferBehaviour::ResetStream });
            c.set_split_send_size(split);
            let ma = kit::tasks::run_ready(c.clone().upgrade_outbound(a, "/mplex/6.7.0"), 4).unwrap().map_err(|e| e.to_string())?;
            let mb = kit::tasks::run_ready(c.upgrade_inbound(b, "/mplex/6.7.0"), 4).unwrap().map_err(|e| e.to_string())?;
            one(ma, mb, sc)
        }
        Mx::Yamux => {
            let c = libp2p_yamux::Config::default();
            let ma = kit::tasks::run_ready(c.clone().upgrade_outbound(a, "/yamux/1.0.0"), 4).unwrap().map_err(|e| e.to_string())?;
            let mb = kit::tasks::run_ready(c.upgrade_inbound(b, "/yamux/1.0.0"), 4).unwrap().map_err(|e| e.to_string())?;
            one(ma, mb, sc)
        }
    }
}

/// `mc::isolated` with a 1 MiB stack (the 16 MiB default costs ~2 ms of kernel time per
/// execution here): fresh OS thread, entropy stream and virtual clock reset first.
fn isolated_small<T: Send + 'static>(seed: u64, f: impl FnOnce() -> T + Send + 'static) -> Result<T, String> {
    mc::shim::arm();
    mc::entropy::reset(seed);
    mc::vclock::reset();
    let h = std::thread::Builder::new().stack_size(1 << 20).spawn(move || std::panic::catch_unwind(std::panic::AssertUnwindSafe(f))).expect("spawn");
    match h.join() {
        Ok(Ok(v)) => Ok(v),
        Ok(Err(p)) | Err(p) => Err(mc::shim::panic_msg(&p)),
    }
}

/// body for the explorer. Neither muxer's behaviour depends on entropy or on a randomly keyed
/// hash map in these executions (measured: yamux draws 0 bytes, mplex only its log-only id), so an execution does not need
/// a fresh thread (a thread spawn costs ~1-2 ms in this sandbox); the body runs in place with
/// the virtual clock and entropy stream reset and turns ANY entropy consumption into a
/// machinery error. `C24_ISOLATE=1` runs every execution on a fresh thread instead
/// (cross-check; must give identical counts).
fn body(mi: usize, si: usize, thorough: bool, seed: u64) -> impl FnMut(&mut Chooser) -> Result<(), String> {
    let isolate = std::env::var_os("C24_ISOLATE").is_some();
    let scs = scripts(thorough);
    move |ch: &mut Chooser| {
        let mx = MUXERS[mi].1;
        if !isolate {
            mc::entropy::reset(seed);
            mc::vclock::reset();
            let before = mc::entropy::served();
            let sc = &scs[si];
            let r = choice::scoped(ch, || mc::catch(|| run_unit(mx, sc)).unwrap_or_else(|p| Err(format!("panic at {} :: {p}", mc::shim::last_panic_loc().unwrap_or_default()))));
            // mplex draws one `rand::random()` per endpoint for its `ConnectionId`, which only
            // appears in tracing output (io.rs:126); ThreadRng (re)seeding for it is the one
            // tolerated entropy use. yamux must not draw any.
            if mc::entropy::served() != before && matches!(mx, Mx::Yamux) {
                return Err(format!("machinery: execution consumed {} bytes of entropy outside an isolated thread", mc::entropy::served() - before));
            }
            return r;
        }
        let mut c = std::mem::take(ch);
        let r = isolated_small(seed, move || {
            let scs = scripts(thorough);
            let sc = &scs[si];
            let r = choice::scoped(&mut c, || mc::catch(|| run_unit(mx, sc)).unwrap_or_else(|p| Err(format!("panic at {} :: {p}", mc::shim::last_panic_loc().unwrap_or_default()))));
            (c, r)
        });
        match r {
            Ok((c, r)) => {
                *ch = c;
                r
            }
            Err(p) => Err(format!("machinery: execution thread died :: {p}")),
        }
    }
}

/// `mc::choice::explore` with the branches below the root striped over worker processes: the
/// first deviation of an execution happens at some choice index i of the deviation-free root
/// execution; worker w of n explores exactly the subtrees with i % n == w (the root itself is
/// run by every worker and counted by worker 0). The union over the workers is the same set of
/// executions as the unpartitioned exploration.
fn explore_part<F>(bound: u32, cap: u64, part: Option<(usize, usize)>, mut body: F) -> (choice::ExploreStats, Option<(Vec<u32>, String)>)
where
    F: FnMut(&mut Chooser) -> Result<(), String>,
{
    let (w, n) = part.unwrap_or((0, 1));
    let mut st = choice::ExploreStats { bound, ..Default::default() };
    let selftest_k: u64 = std::env::var("VERIF_SELFTEST_K").ok().and_then(|v| v.parse().ok()).unwrap_or(32);
    let mut digests: std::collections::HashSet<u64> = std::collections::HashSet::new();
    let mut stack: Vec<(Vec<u32>, Vec<u32>)> = vec![(vec![], vec![])];
    while let Some((prefix, ar)) = stack.pop() {
        if cap != 0 && st.executions >= cap {
            st.capped = true;
            break;
        }
        let plen = prefix.len();
        let is_root = plen == 0;
        let mut ch = Chooser::with_expect(prefix.clone(), ar.clone());
        let r = body(&mut ch);
        if !is_root || w == 0 {
            st.executions += 1;
            st.choice_points += ch.trace.len() as u64;
        }
        if digests.len() < 1_000_000 {
            digests.insert(ch.obs_digest);
            st.distinct_obs = digests.len() as u64;
        }
        if st.selftested < selftest_k {
            st.selftested += 1;
            let mut ch2 = Chooser::with_expect(prefix, ar);
            let r2 = body(&mut ch2);
            if ch2.trace != ch.trace || ch2.obs_digest != ch.obs_digest || r2.is_err() != r.is_err() {
                return (st, Some((ch.choices(), format!("NONDETERMINISM: re-running the same choice sequence gave a different trace/observation (len {} vs {}, digest {:x} vs {:x})", ch.trace.len(), ch2.trace.len(), ch.obs_digest, ch2.obs_digest))));
            }
        }
        st.max_trace_len = st.max_trace_len.max(ch.trace.len());
        if let Some(d) = &ch.diverged {
            return (st, Some((ch.choices(), format!("NONDETERMINISM: {d}"))));
        }
        if let Err(e) = r {
            return (st, Some((ch.choices(), e)));
        }
        let mut cost: u32 = ch.trace[..plen.min(ch.trace.len())].iter().map(|t| if t.0 != 0 { t.2 } else { 0 }).sum();
        let mut new: Vec<(Vec<u32>, Vec<u32>)> = Vec::new();
        for i in plen..ch.trace.len() {
            let (c, nalt, k) = ch.trace[i];
            if cost + k <= bound && (!is_root || i % n == w) {
                for alt in 1..nalt {
                    let mut p: Vec<u32> = ch.trace[..i].iter().map(|t| t.0).collect();
                    p.push(alt);
                    let mut a: Vec<u32> = ch.trace[..i].iter().map(|t| t.1).collect();
                    a.push(nalt);
                    new.push((p, a));
                }
            }
            if c != 0 {
                cost += k;
            }
        }
        new.reverse();
        stack.extend(new);
    }
    (st, None)
}

pub fn run(ctx: &Ctx) -> Outcome {
    if let Some(case) = &ctx.replay {
        let mut out = Outcome::default();
        out.evaluations = 1;
        let choices: Vec<u32> = serde_json::from_value(case["choices"].clone()).unwrap_or_default();
        let thorough = case["thorough"].as_bool().unwrap_or(false);
        let mname = case["muxer"].as_str().unwrap_or("");
        let sname = case["script"].as_str().unwrap_or("");
        let scs = scripts(thorough);
        let (Some(mi), Some(si)) = (MUXERS.iter().position(|m| m.0 == mname), scs.iter().position(|s| s.name == sname)) else {
            out.machinery(format!("replay: unknown muxer/script {mname}/{sname}"));
            return out;
        };
        let seed = case["seed"].as_u64().unwrap_or(0);
        if let Err(m) = choice::replay(&choices, body(mi, si, thorough, seed)) {
            out.violation(format!("{} {mname} {sname}", mc::bfs::signature_of(&m)), m, case.clone());
        }
        return out;
    }
    let thorough = !ctx.quick();
    let bound: u32 = std::env::var("C24_BOUND").ok().and_then(|v| v.parse().ok()).unwrap_or(ctx.tier.pick(2, 3));
    let cap: u64 = std::env::var("C24_CAP").ok().and_then(|v| v.parse().ok()).unwrap_or(0);
    let scs = scripts(thorough);
    let mut units = Vec::new();
    for si in 0..scs.len() {
        for mi in 0..MUXERS.len() {
            units.push((mi, si));
        }
    }
    let seed = ctx.seed;
    let mut out = mc::workers(ctx, 16, |ctx| {
        let mut out = Outcome::default();
        for (i, (mi, si)) in units.iter().enumerate() {
            // every worker takes its stripe of every unit (see `explore_part`)
            let _ = i;
            let (mname, sname) = (MUXERS[*mi].0, scs[*si].name);
            let (st, viol) = explore_part(bound, cap, ctx.worker, body(*mi, *si, thorough, seed));
            out.add_explore(&st);
            if ctx.worker.map(|w| w.0).unwrap_or(0) == 0 {
                out.count("units", 1);
            }
            out.count(&format!("executions_{}", if *mi == 3 { "yamux" } else { "mplex" }), st.executions);
            out.count("distinct_observations", st.distinct_obs);
            out.max(&format!("max_distinct_observations_{}", if *mi == 3 { "yamux" } else { "mplex" }), st.distinct_obs);
            let salt = mc::report::hash_str(&format!("{mname}/{sname}/{:?}", ctx.worker));
            for k in 1..st.executions.min(100_000) {
                out.nontrivial_h(salt ^ k.wrapping_mul(0x9e3779b97f4a7c15));
            }
            if ctx.worker.map(|w| w.0).unwrap_or(0) == (i % 16) {
                out.sample(json!({"muxer": mname, "script": sname, "executions": st.executions, "distinct_observations": st.distinct_obs, "max_trace_len": st.max_trace_len, "bound": bound, "note": "counts of this worker's stripe of the unit"}));
            }
            if let Some((choices, m)) = viol {
                if m.starts_with("NONDETERMINISM") || m.starts_with("machinery") {
                    out.machinery(format!("{m} unit={mname}/{sname}"));
                } else {
                    let case: Value = json!({"muxer": mname, "script": sname, "thorough": thorough, "seed": seed, "choices": choices});
                    out.violation(format!("{} {mname} {sname}", mc::bfs::signature_of(&m)), format!("{m} [unit {mname}/{sname}]"), case);
                }
            }
        }
        out
    });
    out.notes.push(format!("deviation bound {bound}; {} units = {} scripts x {} muxer configurations; exploration of a unit stops at its first violation", units.len(), scs.len(), MUXERS.len()));
    if out.get("executions_yamux") == 0 || out.get("executions_mplex") == 0 {
        out.machinery("vacuity: one of the muxers was never executed");
    }
    if out.get("max_distinct_observations_yamux") < 2 || out.get("max_distinct_observations_mplex") < 2 {
        out.machinery("vacuity: the explored deviations never changed an observation for one of the muxers");
    }
    out
}
