//! C26 — mplex enforces its substream and buffer limits without losing data.
//!
//! E2: BFS over histories of remote frames (the harness is the remote and speaks raw mplex
//! frames) and local `StreamMuxer` / substream calls on ONE real `Multiplex` endpoint. The wire
//! hands the muxer exactly one frame per `poll_read`, so the harness knows which frames the
//! muxer has pulled off the wire ("measured from outside"). A reference model processes the
//! pulled frames and every API result is compared with it; after every step a *drain suffix*
//! (accept everything, read everything, flush) is run on a replayed copy to judge the
//! "eventually" parts of the statement.
//!
//! Readings settled on (the oracle demands no more than the statement):
//! * "open substreams" = substreams handed to the application (poll_inbound / poll_outbound)
//!   and not yet dropped, plus inbound substreams the muxer accepted but has not handed out yet
//!   (`Config::set_max_num_streams`: "a substream is used as long as it has not been dropped,
//!   even if it may already be closed or reset at the protocol level").
//! * an `Open` pulled while that number is >= max must be answered by a `Reset` frame for that id
//!   on the wire once the connection is flushed (frames are only queued until some flush).
//! * buffer bound: data frames pulled for a live, receive-open substream and not yet returned
//!   to its reader never exceed max_buffer_len + 1 (Block: exceeding means over-buffering or a
//!   dropped frame; ResetStream: after the overflow the reader gets at most the max+1 frames).
//! * Block: for a substream that the application holds until the end and the remote did not
//!   reset, a draining reader gets every byte the remote sent on it, in order.
//! * ResetStream: the overflowing substream gets a `Reset` on the wire (after flush), its reads
//!   deliver a prefix of what was sent and then end (EOF). Whether the frames buffered at the
//!   time of the overflow are still delivered is not demanded (counted only).
//! * after a remote `Reset` only "prefix" is demanded of the data.

use futures::io::{AsyncRead, AsyncWrite};
use libp2p_core::muxing::StreamMuxer;
use libp2p_core::upgrade::InboundConnectionUpgrade;
use libp2p_mplex::{Config, MaxBufferBehaviour, Multiplex, Substream};
use mc::bfs::{self, System};
use mc::{json, Ctx, Meta, Outcome, Value};
use serde::{Deserialize, Serialize};
use std::collections::{BTreeMap, VecDeque};
use std::io;
use std::pin::Pin;
use std::sync::atomic::{AtomicU64, Ordering::Relaxed};
use std::sync::{Arc, Mutex};
use std::task::{Context, Poll};

pub const META: Meta = Meta {
    level: "model_checking",
    rule: "per configuration (max_substreams in {1,2}, max_buffer_len in {1,2}, Block|ResetStream): BFS over all histories of remote Open(next id)/Data(s,1 tagged byte)/Close(s)/Reset(s) frames and local poll_inbound/poll_outbound/read(s)/close(s) (up to twice per handle)/drop(s)/flush calls on the real Multiplex (a call = poll, re-polled while the muxer yielded after pulling frames), states deduplicated on (reference model, wire queue, held handles). Non-trivial = states in which a limit was in effect: an Open was refused, a buffer reached max_buffer_len+1 (blocked) or overflowed (reset), or an outbound open was delayed by the limit.",
    explanation: "The wire hands the muxer one frame per read, so the frames pulled per call are known; the model classifies every pulled frame; API results are compared step by step; after every step a drain suffix on a replayed copy judges eventual delivery / Reset-on-the-wire. An un-deduplicated DFS companion re-checks all sequences to a smaller depth.",
    assumptions: &[
        "remote is well-formed (fresh ids, no frames on a stream after its own Reset, no Data after its own Close); hostile framing is C25",
        "1-byte data frames, <= max_substreams+1 (quick) / +2 (thorough) remote opens, <= 1/2 local opens",
        "the wire never refuses writes (write-side chunking is C24)",
        "single polls with a no-op waker: wake-up correctness is not judged here",
    ],
};

// ------------------------------------------------------------------------------------------
// wire

/// stream key: (number, initiated by the local (real) endpoint)
type Key = (u64, bool);

#[derive(Clone, Debug, PartialEq, Eq)]
enum F {
    Open(u64),
    Data(Key, u8),
    Close(Key),
    Reset(Key),
}

/// encode a frame the REMOTE (harness) sends
fn enc_remote(f: &F) -> Vec<u8> {
    // remote-initiated stream: the remote is the initiator (flags 2/4/6); locally initiated
    // stream: the remote is the receiver (flags 1/3/5)
    let (num, flag, payload): (u64, u64, Vec<u8>) = match f {
        F::Open(n) => (*n, 0, vec![]),
        F::Data((n, li), b) => (*n, if *li { 1 } else { 2 }, vec![*b]),
        F::Close((n, li)) => (*n, if *li { 3 } else { 4 }, vec![]),
        F::Reset((n, li)) => (*n, if *li { 5 } else { 6 }, vec![]),
    };
    let mut o = Vec::new();
    kit::pb::varint((num << 3) | flag, &mut o);
    kit::pb::varint(payload.len() as u64, &mut o);
    o.extend_from_slice(&payload);
    o
}

/// decode the frames the LOCAL endpoint wrote; returns frames and number of bytes consumed
fn dec_local(b: &[u8]) -> Result<(Vec<(F, usize)>, usize), String> {
    let mut out = Vec::new();
    let mut pos = 0;
    loop {
        let rest = &b[pos..];
        let Some((h, n1)) = kit::pb::read_varint(rest) else { break };
        let Some((len, n2)) = kit::pb::read_varint(&rest[n1..]) else { break };
        let len = len as usize;
        if rest.len() < n1 + n2 + len {
            break;
        }
        let payload = &rest[n1 + n2..n1 + n2 + len];
        let num = h >> 3;
        let f = match h & 7 {
            0 => F::Open(num),
            1 => F::Data((num, false), payload.first().copied().unwrap_or(0)),
            2 => F::Data((num, true), payload.first().copied().unwrap_or(0)),
            3 => F::Close((num, false)),
            4 => F::Close((num, true)),
            5 => F::Reset((num, false)),
            6 => F::Reset((num, true)),
            x => return Err(format!("local endpoint wrote invalid flag {x}")),
        };
        out.push((f, len));
        pos += n1 + n2 + len;
    }
    Ok((out, pos))
}

#[derive(Default)]
struct WireSh {
    inq: VecDeque<F>,
    pulled: Vec<F>,
    out: Vec<u8>,
    flushes: u64,
}

struct Wire(Arc<Mutex<WireSh>>);

impl AsyncRead for Wire {
    fn poll_read(self: Pin<&mut Self>, _cx: &mut Context<'_>, buf: &mut [u8]) -> Poll<io::Result<usize>> {
        let mut s = self.0.lock().unwrap();
        match s.inq.pop_front() {
            None => Poll::Pending, // the harness polls explicitly; no waker needed
            Some(f) => {
                let e = enc_remote(&f);
                assert!(buf.len() >= e.len());
                buf[..e.len()].copy_from_slice(&e);
                s.pulled.push(f);
                Poll::Ready(Ok(e.len()))
            }
        }
    }
}
impl AsyncWrite for Wire {
    fn poll_write(self: Pin<&mut Self>, _cx: &mut Context<'_>, data: &[u8]) -> Poll<io::Result<usize>> {
        self.0.lock().unwrap().out.extend_from_slice(data);
        Poll::Ready(Ok(data.len()))
    }
    fn poll_flush(self: Pin<&mut Self>, _cx: &mut Context<'_>) -> Poll<io::Result<()>> {
        self.0.lock().unwrap().flushes += 1;
        Poll::Ready(Ok(()))
    }
    fn poll_close(self: Pin<&mut Self>, _cx: &mut Context<'_>) -> Poll<io::Result<()>> {
        Poll::Ready(Ok(()))
    }
}

// ------------------------------------------------------------------------------------------
// configuration, actions, model

#[derive(Clone, Copy, Debug, Serialize, Deserialize, PartialEq)]
pub struct Cfg {
    pub max_sub: usize,
    pub max_buf: usize,
    pub block: bool,
    /// bound: number of streams the remote may open
    pub r_opens: u64,
    /// bound: number of streams the local side may open
    pub l_opens: u64,
    /// bound: data frames the remote sends per stream
    pub data_per_stream: usize,
}

#[derive(Clone, Debug, Serialize, Deserialize, PartialEq)]
pub enum Act {
    /// remote opens its next stream id
    ROpen,
    /// remote sends one tagged byte on stream (num, locally-initiated)
    RData(u64, bool),
    RClose(u64, bool),
    RReset(u64, bool),
    PollInbound,
    PollOutbound,
    /// poll_read (1-byte buffer) on the handle of stream (num, locally-initiated)
    Read(u64, bool),
    /// poll_close on the handle (half-close + flush)
    Close(u64, bool),
    Drop(u64, bool),
    /// poll_flush through the first held handle
    Flush,
}

#[derive(Clone, Copy, Debug, PartialEq, Eq, Default)]
enum Life {
    /// remote sent Open, muxer has not pulled it yet (or local stream: never)
    #[default]
    Unpulled,
    /// accepted by the muxer (model), not yet handed out by poll_inbound
    Pending,
    Held,
    Dropped,
    /// refused: limit reached when the Open was pulled
    Rejected,
}

#[derive(Clone, Debug, Default)]
struct St {
    life: Life,
    /// bytes the remote sent on it (before its own close / reset)
    sent: Vec<u8>,
    r_closed: bool,
    r_reset: bool,
    closed_pulled: bool,
    reset_pulled: bool,
    /// model buffer: frames pulled while live and receive-open, not yet returned to the reader
    buf: VecDeque<u8>,
    read: Vec<u8>,
    eof: bool,
    /// ResetStream: buffer exceeded max_buffer_len
    overflow: bool,
    l_closed: bool,
    /// number of local close() calls on the handle (a second close of an already closed
    /// handle is part of the alphabet)
    l_closes: u8,
    /// remote has seen our Open on the wire (local streams only)
    announced: bool,
    /// a limit was in effect for this stream (vacuity / non-trivial rule)
    blocked_once: bool,
    /// Block: the application dropped the handle while the model buffer was full (max+1)
    dropped_full: bool,
}

static EVENTS: [AtomicU64; 8] = [const { AtomicU64::new(0) }; 8];
const EV_REJECT: usize = 0;
const EV_BLOCKED: usize = 1;
const EV_OVERFLOW: usize = 2;
const EV_OUT_DELAYED: usize = 3;
const EV_RESET_SEEN: usize = 4;
const EV_DRAINS: usize = 5;
const EV_BLOCK_FULL_DELIVERY: usize = 7;
const EV_NAMES: [&str; 8] = [
    "opens_refused_by_limit",
    "buffers_reaching_max_plus_one_block",
    "buffers_overflowed_resetstream",
    "outbound_open_delayed_by_limit",
    "reset_frames_checked_on_wire",
    "drain_suffixes_run",
    "reserved",
    "block_streams_fully_delivered_in_drain",
];
fn ev(i: usize) {
    EVENTS[i].fetch_add(1, Relaxed);
}

pub struct Sys {
    cfg: Cfg,
    mux: Multiplex<Wire>,
    wire: Arc<Mutex<WireSh>>,
    /// handles the application holds, by stream key
    held: BTreeMap<Key, Substream<Wire>>,
    /// handles that must not exist (kept alive so that the violation state stays inspectable)
    extra: Vec<Substream<Wire>>,
    hist: Vec<Act>,
    // ---- model ----
    streams: BTreeMap<Key, St>,
    r_opened: u64,
    l_opened: u64,
    /// number of frames of `wire.pulled` already processed by the model
    seen_pulled: usize,
    /// bytes of `wire.out` already decoded
    out_pos: usize,
    /// all frames the local endpoint wrote so far
    out_frames: Vec<F>,
    /// some limit was in effect in this state's history (non-trivial rule)
    limit_hit: bool,
    is_drain_copy: bool,
}

fn noop_cx<T>(f: impl FnOnce(&mut Context<'_>) -> T) -> T {
    let w = futures::task::noop_waker();
    let mut cx = Context::from_waker(&w);
    f(&mut cx)
}

impl Sys {
    pub fn new(cfg: Cfg) -> Self {
        let wire = Arc::new(Mutex::new(WireSh::default()));
        let mut c = Config::new();
        c.set_max_num_streams(cfg.max_sub);
        c.set_max_buffer_size(cfg.max_buf);
        c.set_max_buffer_behaviour(if cfg.block { MaxBufferBehaviour::Block } else { MaxBufferBehaviour::ResetStream });
        c.set_split_send_size(16);
        let mux = kit::tasks::run_ready(c.upgrade_inbound(Wire(wire.clone()), "/mplex/6.7.0"), 4).expect("upgrade is ready").expect("upgrade ok");
        Sys {
            cfg,
            mux,
            wire,
            held: BTreeMap::new(),
            extra: Vec::new(),
            hist: Vec::new(),
            streams: BTreeMap::new(),
            r_opened: 0,
            l_opened: 0,
            seen_pulled: 0,
            out_pos: 0,
            out_frames: Vec::new(),
            limit_hit: false,
            is_drain_copy: false,
        }
    }

    fn held_count(&self) -> usize {
        self.held.len() + self.extra.len()
    }
    fn pending_count(&self) -> usize {
        self.streams.values().filter(|s| s.life == Life::Pending).count()
    }
    /// signature discriminator: a live substream got a remote Reset after it was already
    /// reset locally (overflow) or closed by both sides
    fn redundant_reset(&self) -> &'static str {
        let hit = self.streams.values().any(|s| matches!(s.life, Life::Pending | Life::Held) && s.reset_pulled && (s.overflow || (s.closed_pulled && s.l_closed)));
        if hit {
            "after-redundant-remote-reset"
        } else {
            "other"
        }
    }
    fn send(&mut self, f: F) {
        self.wire.lock().unwrap().inq.push_back(f);
    }

    /// model: classify the frames the muxer pulled during the last call, in order
    fn absorb_pulled(&mut self) -> Result<(), String> {
        let new: Vec<F> = {
            let w = self.wire.lock().unwrap();
            w.pulled[self.seen_pulled..].to_vec()
        };
        self.seen_pulled += new.len();
        for f in new {
            match f {
                F::Open(n) => {
                    let live = self.held_count() + self.pending_count();
                    let st = self.streams.get_mut(&(n, false)).expect("open of known stream");
                    if live >= self.cfg.max_sub {
                        st.life = Life::Rejected;
                        st.blocked_once = true;
                        self.limit_hit = true;
                        ev(EV_REJECT);
                    } else {
                        st.life = Life::Pending;
                    }
                }
                F::Data(k, b) => {
                    let (max_buf, block) = (self.cfg.max_buf, self.cfg.block);
                    let st = self.streams.get_mut(&k).expect("data of known stream");
                    let live = matches!(st.life, Life::Pending | Life::Held);
                    if live && !st.closed_pulled && !st.reset_pulled && !st.overflow {
                        st.buf.push_back(b);
                        if st.buf.len() > max_buf + 1 {
                            return Err(format!(
                                "buffer-bound block={block} :: muxer pulled data frame #{} for stream {k:?} while {} frames of it were pulled and unread (max_buffer_len {max_buf}): it buffers more than max+1 frames or drops one",
                                st.buf.len(),
                                st.buf.len() - 1
                            ));
                        }
                        if st.buf.len() > max_buf {
                            st.blocked_once = true;
                            self.limit_hit = true;
                            if block {
                                ev(EV_BLOCKED);
                            } else {
                                st.overflow = true;
                                ev(EV_OVERFLOW);
                            }
                        }
                    }
                }
                F::Close(k) => {
                    self.streams.get_mut(&k).expect("known").closed_pulled = true;
                }
                F::Reset(k) => {
                    self.streams.get_mut(&k).expect("known").reset_pulled = true;
                }
            }
        }
        Ok(())
    }

    fn absorb_out(&mut self) -> Result<(), String> {
        let (frames, used) = {
            let w = self.wire.lock().unwrap();
            dec_local(&w.out[self.out_pos..]).map_err(|e| format!("wire-garbage :: {e}"))?
        };
        self.out_pos += used;
        for (f, _) in frames {
            if let F::Open(n) = f {
                if let Some(st) = self.streams.get_mut(&(n, true)) {
                    st.announced = true;
                }
            }
            self.out_frames.push(f);
        }
        Ok(())
    }

    fn after_call(&mut self) -> Result<(), String> {
        self.absorb_pulled()?;
        self.absorb_out()?;
        let live = self.held_count() + self.pending_count();
        if self.held_count() > self.cfg.max_sub {
            return Err(format!("live-exceeds-max {} :: application holds {} undropped substreams, max_substreams {}", self.redundant_reset(), self.held_count(), self.cfg.max_sub));
        }
        if live > self.cfg.max_sub {
            return Err(format!("live-exceeds-max {} :: {} held + {} accepted-not-delivered > max_substreams {}", self.redundant_reset(), self.held_count(), self.pending_count(), self.cfg.max_sub));
        }
        Ok(())
    }

    fn do_poll_inbound(&mut self) -> Result<bool, String> {
        // one application-level attempt = poll again while the muxer yielded (Pending after
        // having pulled frames: it woke itself); equivalent to single polls because frame
        // arrival only appends to the wire queue
        let r = loop {
            let before = self.wire.lock().unwrap().pulled.len();
            let r = noop_cx(|cx| Pin::new(&mut self.mux).poll_inbound(cx));
            if r.is_ready() || self.wire.lock().unwrap().pulled.len() == before {
                break r;
            }
        };
        // frames pulled before the hand-out are classified first (the Open of the stream
        // handed out may be among them)
        self.absorb_pulled()?;
        match r {
            Poll::Pending => Ok(false),
            Poll::Ready(Err(e)) => Err(format!("unexpected-error poll_inbound :: {e}")),
            Poll::Ready(Ok(s)) => {
                let k = libp2p_mplex::verif_mux::substream_id(&s);
                let st = self.streams.get_mut(&k);
                match st {
                    Some(st) if st.life == Life::Pending => {
                        st.life = Life::Held;
                        self.held.insert(k, s);
                        Ok(true)
                    }
                    Some(st) if st.life == Life::Rejected => {
                        self.extra.push(s);
                        Err(format!(
                            "live-exceeds-max {} :: poll_inbound handed out stream {k:?} whose Open was pulled while max_substreams ({}) substreams were already in use; application now holds {}",
                            self.redundant_reset(),
                            self.cfg.max_sub,
                            self.held_count()
                        ))
                    }
                    other => {
                        let d = format!("{:?}", other.map(|s| s.life));
                        self.extra.push(s);
                        Err(format!("inbound-unknown :: poll_inbound handed out stream {k:?} in model state {d}"))
                    }
                }
            }
        }
    }

    fn do_read(&mut self, k: Key) -> Result<Option<Option<u8>>, String> {
        let (max_buf, block) = (self.cfg.max_buf, self.cfg.block);
        let wire = self.wire.clone();
        let Some(s) = self.held.get_mut(&k) else { return Err("bad action".into()) };
        let mut b = [0u8; 1];
        // greedy like poll_inbound: re-poll while the muxer yielded after pulling frames
        let r = loop {
            let before = wire.lock().unwrap().pulled.len();
            let r = noop_cx(|cx| Pin::new(&mut *s).poll_read(cx, &mut b));
            if r.is_ready() || wire.lock().unwrap().pulled.len() == before {
                break r;
            }
        };
        self.absorb_pulled()?;
        let st = self.streams.get_mut(&k).unwrap();
        match r {
            Poll::Pending => Ok(None),
            Poll::Ready(Err(e)) => Err(format!("unexpected-error read :: stream {k:?}: {e}")),
            Poll::Ready(Ok(0)) => {
                st.eof = true;
                if !(st.closed_pulled || st.reset_pulled || st.overflow) {
                    return Err(format!("eof-without-close :: stream {k:?} read EOF although the remote neither closed nor reset it and it did not overflow"));
                }
                if !st.buf.is_empty() {
                    if st.reset_pulled || st.overflow {
                        st.buf.clear(); // allowed: data of a reset stream may be discarded
                    } else {
                        return Err(format!("data-dropped block={block} :: stream {k:?} read EOF while {} pulled frame(s) {:?} were never delivered", st.buf.len(), st.buf));
                    }
                }
                Ok(Some(None))
            }
            Poll::Ready(Ok(_)) => {
                let want = st.buf.pop_front();
                if want != Some(b[0]) {
                    if want.is_none() && st.overflow {
                        return Err(format!("buffer-bound resetstream :: overflowed stream {k:?} delivered byte {:#x} beyond the max_buffer_len+1 = {} frames buffered at overflow", b[0], max_buf + 1));
                    }
                    return Err(format!("read-mismatch block={block} :: stream {k:?} delivered {:#x}, model expects {:?} (sent {:?}, read so far {:?})", b[0], want, st.sent, st.read));
                }
                st.read.push(b[0]);
                Ok(Some(Some(b[0])))
            }
        }
    }

    /// the drain suffix + final judgement (consumes the copy)
    fn drain_and_judge(mut self) -> Result<(), String> {
        ev(EV_DRAINS);
        for _round in 0..64 {
            let mut progress = false;
            // accept everything
            for _ in 0..8 {
                let before = self.seen_pulled;
                let got = self.do_poll_inbound()?;
                if got || self.seen_pulled != before {
                    progress = true; // (a Pending poll that pulled frames is progress too)
                } else {
                    break;
                }
            }
            self.after_call()?;
            let keys: Vec<Key> = self.held.keys().copied().collect();
            for k in keys {
                if self.streams[&k].eof {
                    continue;
                }
                for _ in 0..16 {
                    let before = self.seen_pulled;
                    let r = self.do_read(k)?;
                    if self.seen_pulled != before {
                        progress = true;
                    }
                    match r {
                        Some(Some(_)) => progress = true,
                        Some(None) => {
                            progress = true;
                            break;
                        }
                        None => break,
                    }
                }
                self.after_call()?;
            }
            if !progress {
                break;
            }
        }
        // flush through any held handle
        let mut flushed = false;
        if let Some(s) = self.held.values_mut().next() {
            match noop_cx(|cx| Pin::new(s).poll_flush(cx)) {
                Poll::Ready(Ok(())) => flushed = true,
                Poll::Ready(Err(e)) => return Err(format!("unexpected-error flush :: {e}")),
                Poll::Pending => return Err("flush-pending :: flush of a substream stays Pending although the wire accepts everything".into()),
            }
        }
        self.after_call()?;
        let left = self.wire.lock().unwrap().inq.len();
        let block = self.cfg.block;
        let stall_why = if self.streams.values().any(|s| s.dropped_full) { "blocking-stream-dropped" } else { "other" };
        for (k, st) in &self.streams {
            let reset_on_wire = self.out_frames.iter().any(|f| *f == F::Reset(*k));
            match st.life {
                Life::Rejected => {
                    if flushed {
                        ev(EV_RESET_SEEN);
                        if !reset_on_wire {
                            return Err(format!("no-reset-for-refused-open :: Open of stream {k:?} was pulled at the limit but no Reset for it is on the wire after a flush (wire: {:?})", self.out_frames));
                        }
                    }
                }
                Life::Held => {
                    if st.overflow {
                        if !st.eof {
                            return Err(format!("overflow-reads-do-not-end :: ResetStream: stream {k:?} overflowed but a draining reader never reaches EOF"));
                        }
                        if flushed {
                            ev(EV_RESET_SEEN);
                            if !reset_on_wire {
                                return Err(format!("no-reset-for-overflow :: ResetStream: stream {k:?} overflowed but no Reset for it is on the wire after a flush (wire: {:?})", self.out_frames));
                            }
                        }
                        continue;
                    }
                    if st.r_reset {
                        continue; // only "prefix" is demanded (checked read by read)
                    }
                    if st.read != st.sent {
                        let why = if left > 0 { format!("{left} frame(s) are never pulled off the wire (stalled)") } else { "all frames were pulled".to_string() };
                        let sig = if left > 0 { format!("data-never-delivered-stall {stall_why}") } else { "data-never-delivered".to_string() };
                        return Err(format!("{sig} block={block} :: stream {k:?}: remote sent {:?}, a draining reader got only {:?}; {why}", st.sent, st.read));
                    }
                    if block && !st.sent.is_empty() && st.blocked_once {
                        ev(EV_BLOCK_FULL_DELIVERY);
                    }
                }
                Life::Pending => {
                    return Err(format!("accepted-stream-never-delivered :: Open of stream {k:?} was pulled below the limit but a draining poll_inbound never hands it out"));
                }
                Life::Unpulled if !k.1 => {
                    // the Open itself is stuck on the wire
                    if left == 0 {
                        return Err(format!("machinery: stream {k:?} unpulled with empty wire"));
                    }
                    // a stalled connection is judged through the streams that lose data; an
                    // Open that is never pulled loses data only if data was sent on it
                    if block && !st.sent.is_empty() && !st.r_reset {
                        return Err(format!("data-never-delivered-stall {stall_why} block={block} :: stream {k:?}: its Open and {:?} are never pulled off the wire ({left} frames stalled)", st.sent));
                    }
                }
                _ => {}
            }
        }
        Ok(())
    }
}

impl System for Sys {
    type Action = Act;

    fn actions(&self) -> Vec<Act> {
        let mut v = Vec::new();
        if self.r_opened < self.cfg.r_opens {
            v.push(Act::ROpen);
        }
        for (k, st) in &self.streams {
            let known_to_remote = if k.1 { st.announced } else { true };
            if !known_to_remote || st.r_reset {
                continue;
            }
            if !st.r_closed && st.sent.len() < self.cfg.data_per_stream {
                v.push(Act::RData(k.0, k.1));
            }
            if !st.r_closed {
                v.push(Act::RClose(k.0, k.1));
            }
            v.push(Act::RReset(k.0, k.1));
        }
        v.push(Act::PollInbound);
        if self.l_opened < self.cfg.l_opens {
            v.push(Act::PollOutbound);
        }
        for k in self.held.keys() {
            let st = &self.streams[k];
            if !st.eof {
                v.push(Act::Read(k.0, k.1));
            }
            if st.l_closes < 2 {
                v.push(Act::Close(k.0, k.1));
            }
            v.push(Act::Drop(k.0, k.1));
        }
        if !self.held.is_empty() {
            v.push(Act::Flush);
        }
        v
    }

    fn step(&mut self, a: &Act) -> Result<(), String> {
        // a panic inside the subject (e.g. mplex's own debug_assert on the buffer bound) is a
        // property violation with its own signature, never a machinery error
        match mc::catch(|| self.step_inner(a)) {
            Ok(r) => r,
            Err(p) => Err(panic_violation(&p)),
        }
    }

    fn canon(&self) -> Vec<u8> {
        self.canon_inner()
    }

    fn invariant(&self) -> Result<(), String> {
        match mc::catch(|| self.invariant_inner()) {
            Ok(r) => r,
            Err(p) => Err(panic_violation(&p)),
        }
    }

    fn nontrivial(&self) -> bool {
        self.limit_hit
    }
}

fn panic_violation(p: &str) -> String {
    let loc = mc::shim::last_panic_loc().unwrap_or_default();
    if p.contains("max_buffer_len") {
        format!("buffer-bound-assert-panic :: the muxer's own assertion on the per-substream buffer bound failed: {p} at {loc}")
    } else {
        format!("panic at {loc} :: {p}")
    }
}

impl Sys {
    fn step_inner(&mut self, a: &Act) -> Result<(), String> {
        self.hist.push(a.clone());
        match a {
            Act::ROpen => {
                let n = self.r_opened;
                self.r_opened += 1;
                self.streams.insert((n, false), St::default());
                self.send(F::Open(n));
            }
            Act::RData(n, li) => {
                let st = self.streams.get_mut(&(*n, *li)).ok_or("bad action")?;
                // tag: stream number, direction bit, sequence number
                let b = ((*n as u8) << 4) | ((*li as u8) << 3) | (st.sent.len() as u8 & 7);
                st.sent.push(b);
                self.send(F::Data((*n, *li), b));
            }
            Act::RClose(n, li) => {
                self.streams.get_mut(&(*n, *li)).ok_or("bad action")?.r_closed = true;
                self.send(F::Close((*n, *li)));
            }
            Act::RReset(n, li) => {
                self.streams.get_mut(&(*n, *li)).ok_or("bad action")?.r_reset = true;
                self.send(F::Reset((*n, *li)));
            }
            Act::PollInbound => {
                self.do_poll_inbound()?;
            }
            Act::PollOutbound => {
                let live_before = self.held_count() + self.pending_count();
                let r = noop_cx(|cx| Pin::new(&mut self.mux).poll_outbound(cx));
                self.absorb_pulled()?;
                match r {
                    Poll::Pending => {
                        if live_before >= self.cfg.max_sub {
                            self.limit_hit = true;
                            ev(EV_OUT_DELAYED);
                        }
                    }
                    Poll::Ready(Err(e)) => return Err(format!("unexpected-error poll_outbound :: {e}")),
                    Poll::Ready(Ok(s)) => {
                        let k = libp2p_mplex::verif_mux::substream_id(&s);
                        self.l_opened += 1;
                        self.streams.insert(k, St { life: Life::Held, ..Default::default() });
                        self.held.insert(k, s);
                    }
                }
            }
            Act::Read(n, li) => {
                self.do_read((*n, *li))?;
            }
            Act::Close(n, li) => {
                let k = (*n, *li);
                let Some(s) = self.held.get_mut(&k) else { return Err("bad action".into()) };
                match noop_cx(|cx| Pin::new(s).poll_close(cx)) {
                    Poll::Ready(Ok(())) => {}
                    Poll::Ready(Err(e)) => return Err(format!("unexpected-error close :: stream {k:?}: {e}")),
                    Poll::Pending => return Err(format!("close-pending :: close of stream {k:?} stays Pending although the wire accepts everything")),
                }
                let st = self.streams.get_mut(&k).unwrap();
                st.l_closed = true;
                st.l_closes += 1;
            }
            Act::Drop(n, li) => {
                let k = (*n, *li);
                let Some(s) = self.held.remove(&k) else { return Err("bad action".into()) };
                drop(s);
                let (block, max_buf) = (self.cfg.block, self.cfg.max_buf);
                let st = self.streams.get_mut(&k).unwrap();
                st.life = Life::Dropped;
                st.dropped_full = block && st.buf.len() > max_buf;
                st.buf.clear();
            }
            Act::Flush => {
                let Some(s) = self.held.values_mut().next() else { return Err("bad action".into()) };
                match noop_cx(|cx| Pin::new(s).poll_flush(cx)) {
                    Poll::Ready(Ok(())) => {}
                    Poll::Ready(Err(e)) => return Err(format!("unexpected-error flush :: {e}")),
                    Poll::Pending => return Err("flush-pending :: flush stays Pending although the wire accepts everything".into()),
                }
            }
        }
        self.after_call()
    }

    fn canon_inner(&self) -> Vec<u8> {
        let w = self.wire.lock().unwrap();
        let mut s = String::new();
        use std::fmt::Write;
        for (k, st) in &self.streams {
            let _ = write!(
                s,
                "{k:?}:{:?},{},{},{},{},{},{},{},{},{},{}|",
                st.life,
                st.sent.len(),
                st.r_closed,
                st.r_reset,
                st.closed_pulled,
                st.reset_pulled,
                st.buf.len(),
                st.eof,
                st.overflow,
                st.l_closes,
                st.announced
            );
        }
        let _ = write!(s, "#in:{:?}#held:{:?}+{}", w.inq, self.held.keys().collect::<Vec<_>>(), self.extra.len());
        // observable output that the judgement uses: which streams got a Reset / Close so far
        // (frames still queued inside the muxer are hidden state: covered by the DFS companion)
        let mut o: Vec<String> = self.out_frames.iter().filter(|f| !matches!(f, F::Open(_) | F::Data(..))).map(|f| format!("{f:?}")).collect();
        o.sort();
        let _ = write!(s, "#out:{o:?}");
        s.into_bytes()
    }

    fn invariant_inner(&self) -> Result<(), String> {
        if self.is_drain_copy {
            return Ok(());
        }
        // judge the "eventually" parts on a replayed copy extended by the drain suffix
        let mut c = Sys::new(self.cfg);
        c.is_drain_copy = true;
        for a in &self.hist {
            c.step_inner(a).map_err(|e| format!("NONDETERMINISM replay for drain diverged :: {e}"))?;
        }
        if c.canon() != self.canon() {
            return Err("NONDETERMINISM drain copy differs from original :: canon mismatch".into());
        }
        c.drain_and_judge()
    }
}

fn cfgs(ctx: &Ctx) -> Vec<Cfg> {
    let mut v = Vec::new();
    for max_sub in [1usize, 2] {
        for max_buf in [1usize, 2] {
            for block in [true, false] {
                v.push(Cfg {
                    max_sub,
                    max_buf,
                    block,
                    r_opens: max_sub as u64 + ctx.tier.pick(1, 2),
                    l_opens: ctx.tier.pick(1, 2),
                    data_per_stream: max_buf + 2,
                });
            }
        }
    }
    v
}

pub fn run(ctx: &Ctx) -> Outcome {
    if let Some(case) = &ctx.replay {
        let mut out = Outcome::default();
        out.evaluations = 1;
        let cfg: Cfg = match serde_json::from_value(case["cfg"].clone()) {
            Ok(c) => c,
            Err(e) => {
                out.machinery(format!("bad cfg in replay file: {e}"));
                return out;
            }
        };
        if let Err(m) = bfs::replay_history(Sys::new(cfg), case) {
            out.violation(bfs::signature_of(&m), format!("{m} {}", cfg_name(&cfg)), case.clone());
        }
        return out;
    }
    let depth: usize = std::env::var("C26_DEPTH").ok().and_then(|v| v.parse().ok()).unwrap_or(ctx.tier.pick(8, 9));
    let ddepth = ctx.tier.pick(4, 5);
    let all = cfgs(ctx);
    let mut out = mc::workers(ctx, all.len(), |ctx| {
        let mut out = Outcome::default();
        for (i, cfg) in all.iter().enumerate() {
            if !ctx.mine(i as u64) {
                continue;
            }
            let cj: Value = serde_json::to_value(cfg).unwrap();
            let cfg = *cfg;
            let (st, v) = bfs::bfs_replay(move || Sys::new(cfg), depth, 4_000_000);
            record(&mut out, &cfg, &cj, &st, &v);
            out.sample(json!({"cfg": cj, "states": st.states, "transitions": st.transitions, "depth": st.depth_completed, "limit_states": st.nontrivial_states, "example_history": st.samples.first()}));
            let (n, capped, v2) = bfs::dfs_all(move || Sys::new(cfg), ddepth, 3_000_000);
            out.count("dfs_companion_sequences", n);
            out.evaluations += n;
            out.traces += n;
            if capped {
                out.caps.push(format!("dfs companion capped at {n} sequences ({})", cfg_name(&cfg)));
                out.not_exhaustive = true;
            }
            record(&mut out, &cfg, &cj, &Default::default(), &v2);
            out.count("configs", 1);
        }
        for (i, n) in EV_NAMES.iter().enumerate() {
            if *n != "reserved" {
                out.count(n, EVENTS[i].load(Relaxed));
            }
        }
        out
    });
    out.notes.push(format!("bfs depth {depth}, dfs companion depth {ddepth}, 8 configurations"));
    // vacuity guards: every limit must have been in effect somewhere
    for n in [EV_NAMES[EV_REJECT], EV_NAMES[EV_BLOCKED], EV_NAMES[EV_OVERFLOW], EV_NAMES[EV_OUT_DELAYED], EV_NAMES[EV_RESET_SEEN], EV_NAMES[EV_BLOCK_FULL_DELIVERY]] {
        if out.get(n) == 0 {
            out.machinery(format!("vacuity: counter {n} is zero"));
        }
    }
    out
}

fn cfg_name(c: &Cfg) -> String {
    format!("[max_substreams={} max_buffer_len={} {}]", c.max_sub, c.max_buf, if c.block { "Block" } else { "ResetStream" })
}

/// like `bfs::record`; signature = symptom + root-cause discriminator (the same failure in
/// several configurations is one finding; the first configuration's shortest history is kept)
fn record(out: &mut Outcome, cfg: &Cfg, cj: &Value, st: &bfs::BfsStats, viols: &[bfs::Violation<Act>]) {
    out.add_bfs(st);
    let salt = mc::report::hash_str(&cj.to_string());
    for k in &st.nontrivial_keys {
        out.nontrivial_h(k ^ salt);
    }
    out.count("limit_states", st.nontrivial_states);
    for v in viols {
        let sig = bfs::signature_of(&v.message);
        if sig.starts_with("NONDETERMINISM") || sig.starts_with("machinery") || sig.starts_with("bad action") {
            out.machinery(format!("{} (history {:?})", v.message, v.history));
            continue;
        }
        out.violation(sig, format!("{} {} after history {:?}", v.message, cfg_name(cfg), v.history), json!({"cfg": cj, "history": v.history}));
    }
}
