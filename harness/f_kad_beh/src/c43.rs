//! C43 — provider records are only accepted from the provider itself; a PUT_VALUE whose
//! publisher is the local node never changes the local record. Engine E2 (BFS over histories of
//! inbound requests on the real `kad::Behaviour<MemoryStore>`, + un-deduplicated DFS companion).
//!
//! Subject: the real behaviour driven standalone (module `drv`): connections from P1/P2 (and,
//! as a hostile extra the swarm would not produce, from the local peer id itself), then
//! `HandlerEvent::AddProvider { key, provider }` / `HandlerEvent::PutRecord { record, .. }`
//! through `on_connection_handler_event`. Observed after every step: the complete store
//! (`store_mut().providers(..)`, `store_mut().get(..)`) and the `InboundRequest` events.
//!
//! Reading of the statement (only what it says):
//!  * "stored only when ..." is an only-if: an ADD_PROVIDER whose provider is not the sender, or
//!    is the local node, must leave the provider records unchanged and must not be handed to
//!    the application for storing (`InboundRequest::AddProvider { record: Some(..) }` under
//!    `StoreInserts::FilterBoth`). A legitimate ADD_PROVIDER may only touch the entry
//!    (key, sender). That legitimate announcements *are* stored is a vacuity guard, not an oracle.
//!  * a PUT_VALUE with publisher == local node never changes what the local store holds for
//!    that key — whatever that is: the record published by the local node stays as it is
//!    (value, publisher, expiry), and a key for which the local node holds *nothing* (never
//!    published, or withdrawn with `remove_record` / `store_mut().remove`) stays empty: "the
//!    local record" of a key is decided by the local node alone, a peer naming the local node as
//!    publisher can neither alter nor (re)create it. Nor may such a record be offered to the
//!    application for storing (FilterBoth). (An earlier version demanded nothing for keys
//!    without a local record; that was weaker than the statement.) Other publishers may
//!    overwrite (the code documents that it always overrides), which the model follows.
//!  * local actions `LocalRemove` (`Behaviour::remove_record`, `store_mut().remove`) and
//!    `LocalPut` (the local node publishes again) make both kinds of state reachable for both
//!    keys; the model follows the store for them.

use crate::drv::{HEvent, Node, NodeCfg, Out, LOCAL};
use kit::ids::{peer, pidx};
use libp2p_kad::store::RecordStore;
use libp2p_kad::verif_kad_beh as hook;
use libp2p_kad::{Event, InboundRequest, KadPeer, Record, RecordKey};
use mc::bfs::{self, System};
use mc::{json, Ctx, Meta, Outcome};
use serde::{Deserialize, Serialize};
use std::collections::BTreeMap;
use std::time::Instant;

pub const META: Meta = Meta {
    level: "model_checking",
    rule: "BFS over all histories of inbound requests on a fresh real Behaviour per history: AddProvider{sender in {P1,P2,LOCAL} x announced provider in {LOCAL,P1,P2} x 2 keys x 2 address variants} and PutRecord{sender in {P1,P2} x publisher in {none,LOCAL,P1} x key in {key initially holding a record published by the local node, key initially empty} x 2 values}, local actions LocalRemove{2 keys x {Behaviour::remove_record, store_mut().remove}} and LocalPut{2 keys} (so that for each key the local record is present, never published, withdrawn, or replaced by a foreign replica), for record filtering off and on; states deduplicated on (complete store contents, connections, whether the local record is still intact). Non-trivial = states in which the store differs from the initial one.",
    explanation: "After every step the complete store and the emitted InboundRequest events are compared with the state before: illegitimate announcements / PUT_VALUEs naming the local node as publisher must change nothing (a present record stays identical, an absent one stays absent) and offer nothing; legitimate ones may only touch their own entry. An un-deduplicated DFS to a smaller depth re-checks all paths without merging.",
    assumptions: &["peers {LOCAL,P1,P2}, 2 keys, MemoryStore default limits (small-scope)", "node in client mode, no routing-table activity, all periodic jobs disabled"],
};

#[derive(Clone, Debug, Serialize, Deserialize, PartialEq)]
pub enum Act {
    /// sender, announced provider, key, address variant
    AddProv(u8, u8, u8, u8),
    /// sender, publisher (9 = none), key, value variant
    Put(u8, u8, u8, u8),
    /// the local node withdraws its record: key, how (0 = Behaviour::remove_record, 1 = store_mut().remove)
    LocalRemove(u8, u8),
    /// the local node stores a record it publishes itself: key
    LocalPut(u8),
}

fn key(k: u8) -> RecordKey {
    RecordKey::new(&[b'c', b'4', b'3', k])
}
fn kidx(k: &RecordKey) -> u8 {
    k.as_ref().get(3).copied().unwrap_or(99)
}
fn addrs(v: u8) -> Vec<multiaddr::Multiaddr> {
    match v {
        0 => vec![],
        _ => vec!["/ip4/9.9.9.9/tcp/9".parse().unwrap()],
    }
}
fn pname(p: u8) -> String {
    match p {
        LOCAL => "LOCAL".into(),
        9 => "none".into(),
        p => format!("P{p}"),
    }
}

type Provs = BTreeMap<(u8, u8), Vec<String>>;
type Recs = BTreeMap<u8, (Vec<u8>, Option<u8>, Option<i64>)>;

pub struct Sys {
    n: Node,
    filter: bool,
    t0: Instant,
    /// last observed store contents (the model follows the store where the statement is silent)
    provs: Provs,
    recs: Recs,
    init: (Provs, Recs),
    /// counters for the vacuity guards (per path; folded into the outcome by the DFS companion)
    pub stats: BTreeMap<&'static str, u64>,
}

impl Sys {
    pub fn new(filter: bool) -> Self {
        let mut n = Node::new(&NodeCfg { filter, ..Default::default() });
        // the record published by the local node
        n.b.store_mut().put(Record { key: key(0), value: b"local".to_vec(), publisher: Some(peer(LOCAL)), expires: None }).expect("put local record");
        let t0 = Instant::now();
        let mut s = Sys { n, filter, t0, provs: Provs::new(), recs: Recs::new(), init: Default::default(), stats: BTreeMap::new() };
        let (p, r) = s.snapshot();
        s.provs = p.clone();
        s.recs = r.clone();
        s.init = (p, r);
        s
    }
    fn snapshot(&mut self) -> (Provs, Recs) {
        let mut p = Provs::new();
        let mut r = Recs::new();
        for k in 0..2u8 {
            for pr in self.n.b.store_mut().providers(&key(k)) {
                let mut a: Vec<String> = pr.addresses.iter().map(|m| m.to_string()).collect();
                a.sort();
                p.insert((kidx(&pr.key), pidx(&pr.provider).unwrap_or(99)), a);
            }
            if let Some(rec) = self.n.b.store_mut().get(&key(k)) {
                let exp = rec.expires.map(|e| if e >= self.t0 { (e - self.t0).as_nanos() as i64 } else { -((self.t0 - e).as_nanos() as i64) });
                r.insert(k, (rec.value.clone(), rec.publisher.and_then(|p| pidx(&p)), exp));
            }
        }
        (p, r)
    }
    fn bump(&mut self, k: &'static str) {
        *self.stats.entry(k).or_insert(0) += 1;
    }
}

impl System for Sys {
    type Action = Act;
    fn actions(&self) -> Vec<Act> {
        let mut v = Vec::new();
        for src in [1u8, 2, LOCAL] {
            for prov in [LOCAL, 1, 2] {
                for k in 0..2 {
                    for a in 0..2 {
                        v.push(Act::AddProv(src, prov, k, a));
                    }
                }
            }
        }
        for src in [1u8, 2] {
            for publisher in [9u8, LOCAL, 1] {
                for k in 0..2 {
                    for val in 0..2 {
                        v.push(Act::Put(src, publisher, k, val));
                    }
                }
            }
        }
        for k in 0..2 {
            v.push(Act::LocalRemove(k, 0));
            v.push(Act::LocalRemove(k, 1));
            v.push(Act::LocalPut(k));
        }
        v
    }
    fn step(&mut self, a: &Act) -> Result<(), String> {
        let (bp, br) = (self.provs.clone(), self.recs.clone());
        match *a {
            Act::AddProv(src, prov, k, av) => {
                let provider = KadPeer { node_id: peer(prov), multiaddrs: addrs(av), connection_ty: libp2p_kad::ConnectionType::Connected };
                self.n.handler_event(src, HEvent::AddProvider { key: key(k), provider });
                let mut offered = None;
                for e in self.n.drain() {
                    if let Out::GenerateEvent(Event::InboundRequest { request: InboundRequest::AddProvider { record: Some(r) } }) = e {
                        offered = Some((kidx(&r.key), pidx(&r.provider).unwrap_or(99)));
                    }
                }
                let (ap, ar) = self.snapshot();
                self.provs = ap.clone();
                self.recs = ar.clone();
                if ar != br {
                    return Err(format!("add-provider-changed-records :: {a:?}: records {br:?} -> {ar:?}"));
                }
                let legit = prov == src && prov != LOCAL;
                let class = if prov == LOCAL { "local" } else { "other" };
                if legit {
                    // may only touch (k, src)
                    let mut b2 = bp.clone();
                    let mut a2 = ap.clone();
                    b2.remove(&(k, src));
                    a2.remove(&(k, src));
                    if a2 != b2 {
                        return Err(format!("add-provider-changed-unrelated-entry :: {a:?}: providers {bp:?} -> {ap:?}"));
                    }
                    if let Some(o) = offered {
                        if o != (k, src) {
                            return Err(format!("add-provider-offered-wrong-record :: {a:?}: offered {o:?}"));
                        }
                    }
                    if ap.contains_key(&(k, src)) {
                        self.bump("legit_provider_in_store");
                    }
                    if offered.is_some() {
                        self.bump("legit_provider_offered");
                    }
                } else {
                    self.bump(if prov == LOCAL { "illegit_local_provider" } else { "illegit_other_provider" });
                    if src == LOCAL {
                        self.bump("sender_is_local_id");
                    }
                    if ap != bp {
                        return Err(format!("provider-stored-from-non-provider:provider={class}:via=store :: sender {} announced provider {} for key {k}; providers {bp:?} -> {ap:?}", pname(src), pname(prov)));
                    }
                    if let Some(o) = offered {
                        return Err(format!("provider-stored-from-non-provider:provider={class}:via=event :: sender {} announced provider {} for key {k}; InboundRequest::AddProvider offers {o:?} for storing", pname(src), pname(prov)));
                    }
                }
            }
            Act::Put(src, publisher, k, val) => {
                let had_local = br.get(&k).map_or(false, |r| r.1 == Some(LOCAL));
                let record = Record { key: key(k), value: vec![b'r', val], publisher: if publisher == 9 { None } else { Some(peer(publisher)) }, expires: None };
                self.n.handler_event(src, HEvent::PutRecord { record, request_id: hook::request_id(1) });
                let mut offered = false;
                let mut answered = 0;
                for e in self.n.drain() {
                    match e {
                        Out::GenerateEvent(Event::InboundRequest { request: InboundRequest::PutRecord { record: Some(_), .. } }) => offered = true,
                        Out::NotifyHandler { event: hook::HandlerIn::PutRecordRes { .. }, .. } => answered += 1,
                        _ => {}
                    }
                }
                let (ap, ar) = self.snapshot();
                self.provs = ap.clone();
                self.recs = ar.clone();
                if ap != bp {
                    return Err(format!("put-changed-providers :: {a:?}: providers {bp:?} -> {ap:?}"));
                }
                if answered > 0 {
                    self.bump("put_answered");
                }
                if publisher == LOCAL {
                    // what the local store holds for the key (a local record, nothing, or a replica
                    // of somebody else's record) must be exactly what it held before
                    let state = match br.get(&k) {
                        None => "absent",
                        Some(r) if r.1 == Some(LOCAL) => "local-record",
                        Some(_) => "foreign-record",
                    };
                    self.bump(match state {
                        "absent" => "local_publisher_put_on_absent_key",
                        "local-record" => "local_publisher_put_on_local_record",
                        _ => "local_publisher_put_on_foreign_record",
                    });
                    if ar.get(&k) != br.get(&k) {
                        let sig = match state {
                            "absent" => "record-created-by-put-with-local-publisher:via=store",
                            "local-record" => "local-record-changed-by-put-with-local-publisher:via=store",
                            _ => "record-changed-by-put-with-local-publisher:via=store",
                        };
                        return Err(format!("{sig} :: {} sent PUT_VALUE(publisher = local node) for key {k} (store held: {state}); record {:?} -> {:?}", pname(src), br.get(&k), ar.get(&k)));
                    }
                    if offered {
                        let sig = match state {
                            "absent" => "record-created-by-put-with-local-publisher:via=event",
                            "local-record" => "local-record-changed-by-put-with-local-publisher:via=event",
                            _ => "record-changed-by-put-with-local-publisher:via=event",
                        };
                        return Err(format!("{sig} :: {} sent PUT_VALUE(publisher = local node) for key {k} (store held: {state}); InboundRequest::PutRecord offers the record to the application for storing", pname(src)));
                    }
                } else {
                    // other publishers: the statement is silent; contrast for the vacuity guard
                    if had_local && ar.get(&k) != br.get(&k) {
                        self.bump("local_record_overwritten_by_other_publisher");
                    }
                    if ar.get(&k) != br.get(&k) || offered {
                        self.bump("put_other_publisher_kept");
                    }
                }
                // records of the other key never change
                let other = 1 - k;
                if ar.get(&other) != br.get(&other) {
                    return Err(format!("put-changed-other-key :: {a:?}: records {br:?} -> {ar:?}"));
                }
            }
            Act::LocalRemove(k, how) => {
                if how == 0 {
                    self.n.b.remove_record(&key(k));
                } else {
                    self.n.b.store_mut().remove(&key(k));
                }
                self.n.drain();
                let (ap, ar) = self.snapshot();
                self.provs = ap.clone();
                self.recs = ar.clone();
                if ap != bp {
                    return Err(format!("local-remove-changed-providers :: {a:?}: providers {bp:?} -> {ap:?}"));
                }
                if br.contains_key(&k) && !ar.contains_key(&k) {
                    self.bump("local_record_removed");
                }
            }
            Act::LocalPut(k) => {
                let _ = self.n.b.store_mut().put(Record { key: key(k), value: b"local".to_vec(), publisher: Some(peer(LOCAL)), expires: None });
                let (ap, ar) = self.snapshot();
                self.provs = ap;
                self.recs = ar;
            }
        }
        Ok(())
    }
    fn canon(&self) -> Vec<u8> {
        format!("{}|{:?}|{:?}|{:?}", self.filter, self.provs, self.recs, self.n.conns.keys().collect::<Vec<_>>()).into_bytes()
    }
    fn nontrivial(&self) -> bool {
        (self.provs.clone(), self.recs.clone()) != self.init
    }
}

/// every single action from the initial state and from a "populated" state, with the vacuity
/// counters collected (the BFS engine does not expose per-step counters)
fn guard_counters(filter: bool, out: &mut Outcome) {
    let prefixes: Vec<Vec<Act>> = vec![vec![], vec![Act::AddProv(1, 1, 0, 1), Act::AddProv(2, 2, 0, 0)], vec![Act::Put(1, 1, 0, 0)], vec![Act::LocalRemove(0, 0)], vec![Act::LocalPut(1), Act::LocalRemove(1, 1)]];
    for pre in &prefixes {
        let acts = Sys::new(filter).actions();
        for a in &acts {
            let mut s = Sys::new(filter);
            let mut ok = true;
            for p in pre {
                ok &= s.step(p).is_ok();
            }
            if ok {
                let _ = s.step(a);
            }
            for (k, v) in &s.stats {
                out.count(k, *v);
            }
            out.evaluations += 1;
            out.traces += 1;
        }
    }
}

pub fn run(ctx: &Ctx) -> Outcome {
    let mut out = Outcome::default();
    if let Some(case) = &ctx.replay {
        out.evaluations = 1;
        let filter = case["cfg"]["filter"].as_bool().unwrap_or(false);
        if let Err(m) = bfs::replay_history(Sys::new(filter), case) {
            out.violation(bfs::signature_of(&m), m, case.clone());
        }
        return out;
    }
    let depth = ctx.tier.pick(3, 12);
    let ddepth = ctx.tier.pick(2, 3);
    for filter in [false, true] {
        let cfg = json!({"filter": filter});
        let (st, v) = bfs::bfs_replay(|| Sys::new(filter), depth, 2_000_000);
        bfs::record(&mut out, &cfg, &st, &v);
        out.count(if filter { "bfs_states_filter_on" } else { "bfs_states_filter_off" }, st.states);
        if !st.capped && st.depth_completed < depth {
            out.notes.push(format!("filter={filter}: frontier empty after depth {} -> complete reachable state graph of this alphabet ({} states)", st.depth_completed, st.states));
            out.count("fixpoint_reached", 1);
        }
        let (n, capped, v2) = bfs::dfs_all(|| Sys::new(filter), ddepth, 5_000_000);
        out.count("dfs_companion_sequences", n);
        out.evaluations += n;
        out.traces += n;
        if capped {
            out.caps.push(format!("dfs companion capped at {n} sequences"));
            out.not_exhaustive = true;
        }
        bfs::record(&mut out, &cfg, &Default::default(), &v2);
        guard_counters(filter, &mut out);
    }
    out.notes.push(format!("bfs depth {depth}, dfs companion depth {ddepth}, both filtering modes"));
    // determinism: the two BFS runs of one configuration must agree
    let (st1, _) = bfs::bfs_replay(|| Sys::new(false), depth.min(3), 2_000_000);
    let (st2, _) = bfs::bfs_replay(|| Sys::new(false), depth.min(3), 2_000_000);
    if (st1.states, st1.transitions) != (st2.states, st2.transitions) {
        out.machinery(format!("NONDETERMINISM: BFS state/transition counts differ between two runs: {:?} vs {:?}", (st1.states, st1.transitions), (st2.states, st2.transitions)));
    }
    for k in ["legit_provider_in_store", "legit_provider_offered", "illegit_local_provider", "illegit_other_provider", "sender_is_local_id", "local_publisher_put_on_local_record", "local_publisher_put_on_absent_key", "local_publisher_put_on_foreign_record", "local_record_removed", "local_record_overwritten_by_other_publisher", "put_other_publisher_kept", "put_answered"] {
        if out.get(k) == 0 {
            out.machinery(format!("vacuity: counter {k} is zero"));
        }
    }
    out
}
