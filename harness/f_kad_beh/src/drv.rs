//! Standalone driver for the real `kad::Behaviour<MemoryStore>` through the public
//! `NetworkBehaviour` trait (no Swarm, no transport, no timers): connections are announced with
//! `handle_established_inbound_connection` + `FromSwarm::ConnectionEstablished`, handler events
//! are delivered with `on_connection_handler_event`, output is drained with `poll`.
//!
//! All periodic jobs are disabled in the configuration (replication / publication / provider
//! publication / periodic bootstrap = None), the node stays in client mode and no
//! `ProtocolConfirmed` is delivered, so nothing happens that the check did not ask for.

use futures::task::noop_waker;
use kit::ids::peer;
use libp2p_core::{ConnectedPoint, Multiaddr};
use libp2p_identity::PeerId;
use libp2p_kad::store::MemoryStore;
use libp2p_kad::{Behaviour, Config, Event, StoreInserts};
use libp2p_swarm::behaviour::{ConnectionEstablished, FromSwarm};
use libp2p_swarm::{ConnectionId, NetworkBehaviour, THandlerInEvent, THandlerOutEvent, ToSwarm};
use std::collections::BTreeMap;
use std::num::NonZeroUsize;
use std::task::{Context, Poll};
use std::time::Duration;

pub type Beh = Behaviour<MemoryStore>;
/// `handler::HandlerEvent` (named through the associated type; also re-exported by the hook)
pub type HEvent = THandlerOutEvent<Beh>;
pub type HIn = THandlerInEvent<Beh>;
pub type Out = ToSwarm<Event, HIn>;

pub const LOCAL: u8 = 0;

pub fn local() -> PeerId {
    peer(LOCAL)
}

pub struct NodeCfg {
    pub record_ttl: Option<Duration>,
    pub provider_ttl: Option<Duration>,
    pub filter: bool,
    /// Some(k): replication factor k (used to make `num_beyond_k` non-zero)
    pub replication_factor: Option<usize>,
    /// record replication / publication intervals (None, None = PutRecordJob disabled). The job's
    /// `futures_timer::Delay` is real and far beyond any real run time; the job becomes ready
    /// through its `now >= deadline` test on the virtual clock.
    pub replication: Option<Duration>,
    pub publication: Option<Duration>,
}
impl Default for NodeCfg {
    fn default() -> Self {
        NodeCfg { record_ttl: None, provider_ttl: None, filter: false, replication_factor: None, replication: None, publication: None }
    }
}

pub struct Node {
    pub b: Beh,
    next_conn: usize,
    pub conns: BTreeMap<u8, ConnectionId>,
    /// handlers are kept alive like the swarm would
    handlers: Vec<<Beh as NetworkBehaviour>::ConnectionHandler>,
}

impl Node {
    pub fn new(c: &NodeCfg) -> Self {
        let mut cfg = Config::new(libp2p_kad::PROTOCOL_NAME);
        cfg.set_record_ttl(c.record_ttl);
        cfg.set_provider_record_ttl(c.provider_ttl);
        cfg.set_record_filtering(if c.filter { StoreInserts::FilterBoth } else { StoreInserts::Unfiltered });
        cfg.set_replication_interval(c.replication);
        cfg.set_publication_interval(c.publication);
        cfg.set_provider_publication_interval(None);
        cfg.set_periodic_bootstrap_interval(None);
        if let Some(k) = c.replication_factor {
            cfg.set_replication_factor(NonZeroUsize::new(k).expect("k > 0"));
        }
        let b = Behaviour::with_config(local(), MemoryStore::new(local()), cfg);
        Node { b, next_conn: 1, conns: BTreeMap::new(), handlers: Vec::new() }
    }

    /// first (inbound) connection of peer `p`
    pub fn connect(&mut self, p: u8) -> ConnectionId {
        if let Some(c) = self.conns.get(&p) {
            return *c;
        }
        let id = ConnectionId::new_unchecked(self.next_conn);
        self.next_conn += 1;
        let local_addr: Multiaddr = "/ip4/10.0.0.1/tcp/4001".parse().unwrap();
        let remote_addr: Multiaddr = format!("/ip4/10.0.0.{}/tcp/5000", 10 + p as u32).parse().unwrap();
        let h = self.b.handle_established_inbound_connection(id, peer(p), &local_addr, &remote_addr).expect("kad never denies");
        self.handlers.push(h);
        let endpoint = ConnectedPoint::Listener { local_addr, send_back_addr: remote_addr };
        self.b.on_swarm_event(FromSwarm::ConnectionEstablished(ConnectionEstablished { peer_id: peer(p), connection_id: id, endpoint: &endpoint, failed_addresses: &[], other_established: 0 }));
        self.conns.insert(p, id);
        id
    }

    /// deliver a handler event from peer `p` (connects first if needed)
    pub fn handler_event(&mut self, p: u8, ev: HEvent) {
        let c = self.connect(p);
        self.b.on_connection_handler_event(peer(p), c, ev);
    }

    /// poll the behaviour until it is pending (bounded)
    pub fn drain(&mut self) -> Vec<Out> {
        let w = noop_waker();
        let mut cx = Context::from_waker(&w);
        let mut v = Vec::new();
        for _ in 0..256 {
            match self.b.poll(&mut cx) {
                Poll::Ready(e) => v.push(e),
                Poll::Pending => break,
            }
        }
        v
    }
}
