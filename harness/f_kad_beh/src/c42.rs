//! C42 — record lifetimes are never extended or lost in transit. Engine E3 (complete
//! enumeration of configurations x inputs against the real code).
//!
//! Part (a) "receive": the real `kad::Behaviour<MemoryStore>` driven standalone (module `drv`):
//! a peer connects, the handler event `PutRecord { record, request_id }` is delivered, and the
//! record is read back through `behaviour.store_mut().get(..)` (record filtering off) or from
//! the `InboundRequest::PutRecord { record: Some(..) }` event that hands it to the application
//! for storing (filtering on). Oracle, literally the statement: the kept expiry is
//! `<= min(expiry given by the peer, now + configured record TTL)` over those that exist, and
//! "no expiry" is kept only if neither exists. (An *earlier* expiry — `exp_decrease` for
//! crowded key neighbourhoods — or not storing at all is allowed by the statement.)
//!
//! Part (b) "send": a `Record` with a given remaining lifetime is encoded by the real codecs
//! (`record_to_proto` through a PutValue request and a GetValue response); the `Record.ttl`
//! field (777) is read from the wire with `kit::pb`. Oracle: `ttl == 0` (= "does not expire")
//! iff the record has no expiry.

use crate::drv::{HEvent, Node, NodeCfg, Out};
use asynchronous_codec::{Decoder, Encoder};
use bytes::BytesMut;
use kit::ids::peer;
use kit::pb::{self, Field};
use libp2p_kad::store::RecordStore;
use libp2p_kad::verif_kad_beh as hook;
use libp2p_kad::{Event, InboundRequest, KBucketKey, Record, RecordKey};
use mc::{json, Ctx, Meta, Outcome, Value};
use serde::{Deserialize, Serialize};
use std::time::{Duration, Instant};

pub const META: Meta = Meta {
    level: "exploration",
    rule: "(a) every combination of record_ttl in {None,500 ms,1 s,10 s,100 s} (+{1 ms,999 ms,1.5 s,48 h} thorough) x expiry given by the peer in {None, 5 s, 50 s, 500 s, 1 s in the past} (+{1 ms, 10 s, 2^33 s} thorough) x record filtering {off,on} x publisher {none,P1} (+P2 thorough) x key neighbourhood {empty routing table, replication factor 1 with 8 / 30 (+70 thorough) peers offered to the routing table so that num_beyond_k > 0 and the locally allowed lifetime exp_decrease(ttl, num_beyond_k) is halved repeatedly, down to 0 s}, each on a fresh real Behaviour under the virtual clock; (b) every remaining lifetime in {none, expired 1 s ago, 1 ns, 999 ms, 1 s, 1.5 s, 2^32 s, 2^32+1 s} (+{0, 2^32-1 s, 2^32 s+999 ms, 2^33 s} thorough) x {PutValue request, GetValue response} x publisher {none,P1}. (c) the periodic PutRecordJob of the real Behaviour (replication interval 1000 s, publication interval 2000 s, one connected routing-table peer answering FindNode): record_ttl in {None,100 s,10000 s} (+{1 s,48 h} thorough) x stored record publisher {local node, P2, none} x stored expiry {none, 5000 s} (+{2002 s,100000 s} thorough) x {publication run: virtual clock advanced 2001 s, replication run: 1001 s}; every outgoing HandlerIn::PutRecord is observed and encoded with the real codec. Non-trivial = distinct cases in which a record was kept (a) / distinct cases with an expiry (b) / distinct cases in which the job sent the record (c).",
    explanation: "Complete enumeration (E3) of the stated configurations and inputs against the real Behaviour::record_received (through on_connection_handler_event) and the real record_to_proto (through the codecs); the kept expiry is read from the store / the InboundRequest event, the encoded ttl from the wire bytes; (c) a stored record with an expiry never goes out without one, with a later one, or with wire ttl 0.",
    assumptions: &[
        "virtual clock: the expiry given by the peer is an Instant relative to the same frozen now the behaviour reads",
        "one connected remote peer, MemoryStore with default limits",
        "the decode side (record_from_proto: ttl seconds -> now + ttl) is covered by C44",
    ],
};

const S: i64 = 1_000_000_000;

fn instant_at(now: Instant, rel_ns: i64) -> Instant {
    if rel_ns >= 0 {
        now + Duration::from_nanos(rel_ns as u64)
    } else {
        now - Duration::from_nanos(rel_ns.unsigned_abs())
    }
}
fn rel_ns(now: Instant, t: Instant) -> i64 {
    if t >= now {
        (t - now).as_nanos() as i64
    } else {
        -((now - t).as_nanos() as i64)
    }
}
fn fmt_ns(ns: i64) -> String {
    if ns % S == 0 {
        format!("{}s", ns / S)
    } else if ns % 1_000_000 == 0 {
        format!("{}ms", ns / 1_000_000)
    } else {
        format!("{ns}ns")
    }
}
fn kept_json(k: Option<Option<i64>>) -> Value {
    match k {
        None => json!("absent"),
        Some(None) => json!("kept-without-expiry"),
        Some(Some(ns)) => json!({"expires_in": fmt_ns(ns), "ns": ns}),
    }
}
fn obs_a_json(o: &ObsA) -> Value {
    json!({"stored": kept_json(o.stored), "offered_to_application": kept_json(o.offered), "put_record_res": o.put_record_res, "reset": o.reset, "num_between": o.num_between})
}
fn fmt_opt(ns: Option<i64>) -> String {
    ns.map(fmt_ns).unwrap_or_else(|| "none".into())
}

// ---------------------------------------------------------------- part (a)

#[derive(Clone, Debug, Serialize, Deserialize, PartialEq)]
pub struct CaseA {
    /// configured record TTL (milliseconds)
    #[serde(default)]
    ttl_ms: Option<u64>,
    /// legacy replay files: configured record TTL in seconds
    #[serde(default, skip_serializing)]
    ttl_s: Option<u64>,
    /// expiry the peer gave, relative to now (ns; negative = already expired)
    given_ns: Option<i64>,
    filter: bool,
    /// 0 none, else peer index
    publisher: u8,
    /// number of peers offered to the routing table (replication factor 1 when > 0), so that
    /// `num_beyond_k` > 0 and `exp_decrease` shortens the locally allowed lifetime (down to 0)
    #[serde(default)]
    crowd: u8,
    /// legacy replay files: crowd = 8
    #[serde(default, skip_serializing)]
    crowded: bool,
}
impl CaseA {
    fn ttl(&self) -> Option<Duration> {
        self.ttl_ms.map(Duration::from_millis).or(self.ttl_s.map(Duration::from_secs))
    }
    fn crowd(&self) -> u8 {
        if self.crowd > 0 {
            self.crowd
        } else if self.crowded {
            8
        } else {
            0
        }
    }
}

#[derive(Clone, Debug, Serialize, Deserialize, PartialEq)]
pub struct ObsA {
    /// record in the store after the event: None = absent, Some(x) = present with expiry x (rel. ns)
    stored: Option<Option<i64>>,
    /// record handed to the application for storing (filtering on)
    offered: Option<Option<i64>>,
    put_record_res: u64,
    reset: u64,
    num_between: u64,
}

const KEY: &[u8] = b"c42-key";

fn run_a(c: &CaseA) -> ObsA {
    let mut n = Node::new(&NodeCfg { record_ttl: c.ttl(), filter: c.filter, replication_factor: if c.crowd() > 0 { Some(1) } else { None }, ..Default::default() });
    let key = RecordKey::new(&KEY);
    let mut num_between = 0;
    if c.crowd() > 0 {
        // independent count of routing-table peers (those the table accepted) not farther from
        // the local node than the key
        let lk = KBucketKey::from(crate::drv::local());
        let tk: KBucketKey<RecordKey> = KBucketKey::new(key.clone());
        let dt = lk.distance(&tk);
        for i in 20..20 + c.crowd() {
            let r = n.b.add_address(&peer(i), format!("/ip4/10.1.0.{i}/tcp/1").parse().unwrap());
            if matches!(r, libp2p_kad::RoutingUpdate::Success) && lk.distance(&KBucketKey::from(peer(i))) <= dt {
                num_between += 1;
            }
        }
        n.drain();
    }
    let now = Instant::now();
    let record = Record { key: key.clone(), value: b"remote".to_vec(), publisher: if c.publisher == 0 { None } else { Some(peer(c.publisher)) }, expires: c.given_ns.map(|g| instant_at(now, g)) };
    n.handler_event(1, HEvent::PutRecord { record, request_id: hook::request_id(7) });
    let stored = n.b.store_mut().get(&key).map(|r| r.expires.map(|e| rel_ns(now, e)));
    let mut obs = ObsA { stored, offered: None, put_record_res: 0, reset: 0, num_between };
    for e in n.drain() {
        match e {
            Out::GenerateEvent(Event::InboundRequest { request: InboundRequest::PutRecord { record: Some(r), .. } }) => obs.offered = Some(r.expires.map(|e| rel_ns(now, e))),
            Out::NotifyHandler { event: hook::HandlerIn::PutRecordRes { .. }, .. } => obs.put_record_res += 1,
            Out::NotifyHandler { event: hook::HandlerIn::Reset(_), .. } => obs.reset += 1,
            _ => {}
        }
    }
    obs
}

/// the statement, literally
fn oracle_a(c: &CaseA, o: &ObsA) -> Vec<String> {
    let mut errs = Vec::new();
    let ttl_ns = c.ttl().map(|d| d.as_nanos() as i64);
    let bound = match (c.given_ns, ttl_ns) {
        (Some(g), Some(t)) => Some(g.min(t)),
        (g, t) => g.or(t),
    };
    let cls = format!("record_ttl={}:given={}", fmt_opt(ttl_ns), fmt_opt(c.given_ns));
    for (via, kept) in [("store", o.stored), ("event", o.offered)] {
        let Some(kept) = kept else { continue };
        match (kept, bound) {
            (None, None) => {}
            (None, Some(_)) => {
                // the class of the defect suspected in DESIGN §5: the expiry given by the peer is lost
                // when no local TTL is configured
                let sig = if c.ttl().is_none() { "recv-expiry-lost:record_ttl=none:given=some".to_string() } else { format!("recv-kept-without-expiry:{cls}") };
                errs.push(format!("{sig} :: record kept ({via}) WITHOUT expiry although {cls} (filtering {}, publisher {}, crowd {}, num_between {})", c.filter, c.publisher, c.crowd(), o.num_between));
            }
            (Some(e), Some(b)) if e > b => errs.push(format!("recv-expiry-extended:{cls} :: record kept ({via}) with expiry now+{} later than min(given, now+ttl) = now+{} (filtering {}, publisher {}, crowd {}, num_between {})", fmt_ns(e), fmt_ns(b), c.filter, c.publisher, c.crowd(), o.num_between)),
            (Some(_), _) => {}
        }
    }
    errs
}

fn cases_a(thorough: bool) -> Vec<CaseA> {
    // record TTLs in ms; 500 ms / 1 s (and any TTL in a crowded neighbourhood) make the locally
    // allowed lifetime `exp_decrease(ttl, num_beyond_k)` truncate to 0 s = "expires now"
    let mut ttls = vec![None, Some(500), Some(1_000), Some(10_000), Some(100_000)];
    let mut givens = vec![None, Some(5 * S), Some(50 * S), Some(500 * S), Some(-S)];
    let mut crowds = vec![0u8, 8, 30];
    let mut publishers = vec![0u8, 1];
    if thorough {
        ttls.extend([Some(1), Some(999), Some(1_500), Some(48 * 3600 * 1000)]);
        givens.extend([Some(1_000_000), Some(10 * S), Some((1i64 << 33) * S)]);
        crowds.push(70);
        publishers.push(2);
    }
    let mut v = Vec::new();
    for &ttl_ms in &ttls {
        for &given_ns in &givens {
            for filter in [false, true] {
                for &publisher in &publishers {
                    for &crowd in &crowds {
                        v.push(CaseA { ttl_ms, ttl_s: None, given_ns, filter, publisher, crowd, crowded: false });
                    }
                }
            }
        }
    }
    v
}

// ---------------------------------------------------------------- part (b)

#[derive(Clone, Debug, Serialize, Deserialize, PartialEq)]
pub struct CaseB {
    /// remaining lifetime (ns, negative = expired), None = record does not expire
    rem_ns: Option<i64>,
    /// true: PutValue request (outbound codec); false: GetValue response (inbound codec)
    request: bool,
    publisher: bool,
}

#[derive(Clone, Debug, Serialize, Deserialize, PartialEq)]
pub struct ObsB {
    /// Record.ttl on the wire (0 when the field is absent)
    wire_ttl: u64,
    /// does the real decoder on the other side see an expiry?
    received_expires: Option<bool>,
}

fn run_b(c: &CaseB) -> Result<ObsB, String> {
    let now = Instant::now();
    let record = Record { key: RecordKey::new(&KEY), value: vec![1, 2, 3], publisher: if c.publisher { Some(peer(1)) } else { None }, expires: c.rem_ns.map(|r| instant_at(now, r)) };
    let mut buf = BytesMut::new();
    let received_expires;
    if c.request {
        hook::outbound_codec(None).encode(hook::KadRequestMsg::PutValue { record }, &mut buf).map_err(|e| format!("encode: {e}"))?;
        received_expires = match hook::inbound_codec(None).decode(&mut buf.clone()) {
            Ok(Some(hook::KadRequestMsg::PutValue { record })) => Some(record.expires.is_some()),
            _ => None,
        };
    } else {
        hook::inbound_codec(None).encode(hook::KadResponseMsg::GetValue { record: Some(record), closer_peers: vec![] }, &mut buf).map_err(|e| format!("encode: {e}"))?;
        received_expires = match hook::outbound_codec(None).decode(&mut buf.clone()) {
            Ok(Some(hook::KadResponseMsg::GetValue { record: Some(record), .. })) => Some(record.expires.is_some()),
            _ => None,
        };
    }
    // independent reading of the wire: frame -> Message.record (3) -> Record.ttl (777)
    let (len, n) = pb::read_varint(&buf).ok_or("bad frame prefix")?;
    let body = &buf[n..];
    if body.len() as u64 != len {
        return Err(format!("frame length {len} but {} bytes follow", body.len()));
    }
    let fields = pb::parse(body).ok_or("message not parsable")?;
    let rec = fields.iter().find_map(|f| match f {
        Field::Bytes(3, b) => Some(b.clone()),
        _ => None,
    });
    let rec = rec.ok_or("no Record on the wire")?;
    let rf = pb::parse(&rec).ok_or("record not parsable")?;
    let wire_ttl = rf.iter().find_map(|f| match f {
        Field::Uint(777, v) => Some(*v),
        _ => None,
    });
    Ok(ObsB { wire_ttl: wire_ttl.unwrap_or(0), received_expires })
}

fn oracle_b(c: &CaseB, o: &ObsB) -> Vec<String> {
    let mut errs = Vec::new();
    let path = if c.request { "PutValue request" } else { "GetValue response" };
    match c.rem_ns {
        None => {
            if o.wire_ttl != 0 {
                errs.push(format!("send-ttl-for-non-expiring-record :: record without expiry sent with ttl {} ({path})", o.wire_ttl));
            }
        }
        Some(rem) => {
            if o.wire_ttl == 0 {
                let sig = if rem > 0 && rem < S {
                    "send-ttl0:subsecond-lifetime".to_string()
                } else if rem >= (1i64 << 32) * S && (rem / S) % (1i64 << 32) == 0 {
                    "send-ttl0:lifetime-multiple-of-2^32s".to_string()
                } else {
                    format!("send-ttl0:lifetime={}", fmt_ns(rem))
                };
                errs.push(format!("{sig} :: record with remaining lifetime {} sent with ttl 0 = 'does not expire' ({path}, publisher {}); the real decoder sees expires.is_some() = {:?}", fmt_ns(rem), c.publisher, o.received_expires));
            }
        }
    }
    errs
}

fn cases_b(thorough: bool) -> Vec<CaseB> {
    let two32 = 1i64 << 32;
    let mut rems = vec![None, Some(-S), Some(1), Some(999_000_000), Some(S), Some(1_500_000_000), Some(two32 * S), Some((two32 + 1) * S)];
    if thorough {
        rems.extend([Some(0), Some((two32 - 1) * S), Some(two32 * S + 999_000_000), Some(2 * two32 * S)]);
    }
    let mut v = Vec::new();
    for &rem_ns in &rems {
        for request in [true, false] {
            for publisher in [false, true] {
                v.push(CaseB { rem_ns, request, publisher });
            }
        }
    }
    v
}

// ---------------------------------------------------------------- part (c): periodic re-publication / replication

#[derive(Clone, Debug, Serialize, Deserialize, PartialEq)]
pub struct CaseC {
    /// configured record TTL (seconds)
    ttl_s: Option<u64>,
    /// publisher of the stored record: 0 = the local node, 9 = none, else peer index
    publisher: u8,
    /// expiry of the stored record relative to the start (seconds)
    stored_expiry_s: Option<u64>,
    /// true: the clock is advanced past the publication interval, false: only past the replication interval
    publication_run: bool,
}

#[derive(Clone, Debug, Serialize, Deserialize, PartialEq)]
pub struct ObsC {
    /// expiry (ns relative to the start) of every outgoing PutRecord for the key; None = no expiry
    sent: Vec<Option<i64>>,
    /// Record.ttl the real codec puts on the wire for each of them
    wire_ttl: Vec<u64>,
    still_stored: bool,
}

const REPL_S: u64 = 1000;
const PUB_S: u64 = 2000;

fn run_c(c: &CaseC) -> Result<ObsC, String> {
    let mut n = Node::new(&NodeCfg { record_ttl: c.ttl_s.map(Duration::from_secs), replication: Some(Duration::from_secs(REPL_S)), publication: Some(Duration::from_secs(PUB_S)), ..Default::default() });
    let t0 = Instant::now();
    let key = RecordKey::new(&KEY);
    // one connected peer in the routing table, so that the job's query has somebody to talk to
    n.connect(1);
    n.b.add_address(&peer(1), "/ip4/10.0.0.11/tcp/5000".parse().unwrap());
    let publisher = match c.publisher {
        0 => Some(crate::drv::local()),
        9 => None,
        p => Some(peer(p)),
    };
    n.b.store_mut().put(Record { key: key.clone(), value: b"v".to_vec(), publisher, expires: c.stored_expiry_s.map(|s| t0 + Duration::from_secs(s)) }).map_err(|e| format!("store.put: {e:?}"))?;
    n.drain();
    mc::vclock::advance(Duration::from_secs(if c.publication_run { PUB_S + 1 } else { REPL_S + 1 }));
    let mut obs = ObsC { sent: vec![], wire_ttl: vec![], still_stored: false };
    for _round in 0..16 {
        let evs = n.drain();
        if evs.is_empty() {
            break;
        }
        for e in evs {
            if let Out::NotifyHandler { peer_id, event, .. } = e {
                let Some(p) = kit::ids::pidx(&peer_id) else { continue };
                match event {
                    hook::HandlerIn::FindNodeReq { query_id, .. } => n.handler_event(p, HEvent::FindNodeRes { closer_peers: vec![], query_id }),
                    hook::HandlerIn::PutRecord { record, query_id } => {
                        if record.key == key {
                            obs.sent.push(record.expires.map(|e| rel_ns(t0, e)));
                            // what the handler would put on the wire (real codec)
                            let mut buf = BytesMut::new();
                            hook::outbound_codec(None).encode(hook::KadRequestMsg::PutValue { record: record.clone() }, &mut buf).map_err(|e| format!("encode: {e}"))?;
                            obs.wire_ttl.push(wire_record_ttl(&buf)?);
                        }
                        n.handler_event(p, HEvent::PutRecordRes { key: record.key, value: record.value, query_id });
                    }
                    _ => {}
                }
            }
        }
    }
    obs.still_stored = n.b.store_mut().get(&key).is_some();
    Ok(obs)
}

/// frame -> Message.record (3) -> Record.ttl (777), 0 when absent
fn wire_record_ttl(buf: &[u8]) -> Result<u64, String> {
    let (_, n) = pb::read_varint(buf).ok_or("bad frame prefix")?;
    let fields = pb::parse(&buf[n..]).ok_or("message not parsable")?;
    let rec = fields.iter().find_map(|f| match f {
        Field::Bytes(3, b) => Some(b.clone()),
        _ => None,
    });
    let rf = pb::parse(&rec.ok_or("no Record on the wire")?).ok_or("record not parsable")?;
    Ok(rf
        .iter()
        .find_map(|f| match f {
            Field::Uint(777, v) => Some(*v),
            _ => None,
        })
        .unwrap_or(0))
}

fn oracle_c(c: &CaseC, o: &ObsC) -> Vec<String> {
    let mut errs = Vec::new();
    let who = match c.publisher {
        0 => "own",
        9 => "no-publisher",
        _ => "foreign",
    };
    let run = if c.publication_run { "publication" } else { "replication" };
    if let Some(es) = c.stored_expiry_s {
        let stored = es as i64 * S;
        for (x, ttl) in o.sent.iter().zip(&o.wire_ttl) {
            match x {
                None => errs.push(format!("republish-expiry-dropped:{who}-record:record_ttl={} :: {run} run: stored record expires at start+{es}s but goes out WITHOUT expiry (wire ttl {ttl})", c.ttl_s.map_or("none".into(), |t| format!("{t}s")))),
                Some(x) if *x > stored => errs.push(format!("republish-expiry-extended:{who}-record:record_ttl={} :: {run} run: stored record expires at start+{es}s but goes out with expiry start+{}", c.ttl_s.map_or("none".into(), |t| format!("{t}s")), fmt_ns(*x))),
                Some(_) if *ttl == 0 => errs.push(format!("republish-ttl0:{who}-record :: {run} run: outgoing record has an expiry but wire ttl 0")),
                Some(_) => {}
            }
        }
    }
    errs
}

fn cases_c(thorough: bool) -> Vec<CaseC> {
    let mut ttls = vec![None, Some(100), Some(10_000)];
    let mut exps = vec![None, Some(5_000)];
    if thorough {
        ttls.extend([Some(1), Some(48 * 3600)]);
        exps.extend([Some(2_002), Some(100_000)]);
    }
    let mut v = Vec::new();
    for &ttl_s in &ttls {
        for publisher in [0u8, 2, 9] {
            for &stored_expiry_s in &exps {
                for publication_run in [true, false] {
                    v.push(CaseC { ttl_s, publisher, stored_expiry_s, publication_run });
                }
            }
        }
    }
    v
}

fn exec_c(seed: u64, c: &CaseC) -> Result<ObsC, String> {
    let c2 = c.clone();
    mc::isolated(seed, move || run_c(&c2)).and_then(|r| r)
}

// ---------------------------------------------------------------- run

fn exec_a(seed: u64, c: &CaseA) -> Result<ObsA, String> {
    let c2 = c.clone();
    mc::isolated(seed, move || run_a(&c2))
}
fn exec_b(seed: u64, c: &CaseB) -> Result<ObsB, String> {
    let c2 = c.clone();
    mc::isolated(seed, move || run_b(&c2)).and_then(|r| r)
}

pub fn run(ctx: &Ctx) -> Outcome {
    let mut out = Outcome::default();
    if let Some(case) = &ctx.replay {
        replay(ctx, case, &mut out);
        return out;
    }
    let thorough = !ctx.quick();
    // ---- (a)
    for (i, c) in cases_a(thorough).iter().enumerate() {
        out.evaluations += 1;
        let case = json!({"part":"a","case":c});
        let o = match exec_a(ctx.seed, c) {
            Ok(o) => o,
            Err(p) => {
                out.violation(format!("recv-panic :: {p}"), format!("panic while receiving {c:?}: {p}"), case);
                continue;
            }
        };
        // determinism self-test: every case is executed twice
        match exec_a(ctx.seed.wrapping_add(1), c) {
            Ok(o2) if o2 == o => {}
            other => out.machinery(format!("NONDETERMINISM case {c:?}: {o:?} vs {other:?}")),
        }
        out.count("a_cases", 1);
        out.max("max_num_between", o.num_between);
        let kept = o.stored.or(o.offered);
        if let Some(k) = kept {
            out.nontrivial(&format!("a{c:?}"));
            out.count("a_kept", 1);
            out.count(if o.stored.is_some() { "a_kept_in_store" } else { "a_offered_to_application" }, 1);
            let ttl_ns = c.ttl().map(|d| d.as_nanos() as i64);
            match (k, c.given_ns, ttl_ns) {
                (None, _, _) => out.count("a_kept_without_expiry", 1),
                (Some(e), Some(g), _) if e == g => out.count("a_expiry_is_given", 1),
                (Some(e), _, Some(t)) if e == t => out.count("a_expiry_is_local_ttl", 1),
                (Some(e), _, Some(t)) if e < t => out.count("a_expiry_decreased_below_local_ttl", 1),
                _ => out.count("a_expiry_other", 1),
            }
        } else {
            out.count("a_not_kept", 1);
            // a record that is not expired on arrival and is still not kept: the locally allowed
            // lifetime exp_decrease(ttl, num_beyond_k) truncated to 0 s ("expires now")
            if c.ttl().is_some() && c.given_ns.map_or(true, |g| g > 0) {
                out.count(if c.ttl().unwrap() < Duration::from_secs(1) { "a_not_kept_subsecond_local_ttl" } else if c.crowd() > 0 { "a_not_kept_lifetime_decreased_to_zero" } else { "a_not_kept_other" }, 1);
            }
        }
        if o.put_record_res > 0 {
            out.count("a_answered", 1);
        }
        if i % 37 == 5 {
            out.sample(json!({"part":"a","case":c,"observed":obs_a_json(&o)}));
        }
        for m in oracle_a(c, &o) {
            out.violation(mc::bfs::signature_of(&m), m, json!({"part":"a","case":c,"observed":obs_a_json(&o)}));
        }
    }
    // ---- (b)
    for (i, c) in cases_b(thorough).iter().enumerate() {
        out.evaluations += 1;
        let case = json!({"part":"b","case":c});
        let o = match exec_b(ctx.seed, c) {
            Ok(o) => o,
            Err(p) => {
                out.violation(format!("send-failed :: {p}"), format!("encoding {c:?} failed: {p}"), case);
                continue;
            }
        };
        match exec_b(ctx.seed.wrapping_add(1), c) {
            Ok(o2) if o2 == o => {}
            other => out.machinery(format!("NONDETERMINISM case {c:?}: {o:?} vs {other:?}")),
        }
        out.count("b_cases", 1);
        if c.rem_ns.is_some() {
            out.nontrivial(&format!("b{c:?}"));
        }
        out.count(if o.wire_ttl == 0 { "b_ttl_zero" } else { "b_ttl_nonzero" }, 1);
        if o.received_expires == Some(false) && c.rem_ns.is_some() {
            out.count("b_expiry_lost_end_to_end", 1);
        }
        if i % 7 == 3 {
            out.sample(json!({"part":"b","case":c,"observed":o}));
        }
        for m in oracle_b(c, &o) {
            out.violation(mc::bfs::signature_of(&m), m, json!({"part":"b","case":c,"observed":o}));
        }
    }
    // ---- (c)
    for (i, c) in cases_c(thorough).iter().enumerate() {
        out.evaluations += 1;
        let case = json!({"part":"c","case":c});
        let o = match exec_c(ctx.seed, c) {
            Ok(o) => o,
            Err(p) => {
                out.violation(format!("republish-failed :: {p}"), format!("periodic job run {c:?} failed: {p}"), case);
                continue;
            }
        };
        match exec_c(ctx.seed.wrapping_add(1), c) {
            Ok(o2) if o2 == o => {}
            other => out.machinery(format!("NONDETERMINISM case {c:?}: {o:?} vs {other:?}")),
        }
        out.count("c_cases", 1);
        if !o.sent.is_empty() {
            out.nontrivial(&format!("c{c:?}"));
            out.count(match (c.publisher == 0, c.publication_run) {
                (true, true) => "c_own_record_published",
                (true, false) => "c_own_record_sent_on_replication_run",
                (false, _) => "c_foreign_record_replicated",
            }, 1);
            if c.stored_expiry_s.is_some() {
                out.count("c_sent_record_with_stored_expiry", 1);
            }
            if c.stored_expiry_s.is_none() && o.sent.iter().any(|x| x.is_some()) {
                out.count("c_expiry_filled_in_from_local_ttl", 1);
            }
        } else {
            out.count("c_nothing_sent", 1);
        }
        if i % 5 == 0 {
            out.sample(json!({"part":"c","case":c,"observed":o}));
        }
        for m in oracle_c(c, &o) {
            out.violation(mc::bfs::signature_of(&m), m, json!({"part":"c","case":c,"observed":o}));
        }
    }
    for k in ["c_own_record_published", "c_foreign_record_replicated", "c_sent_record_with_stored_expiry", "c_expiry_filled_in_from_local_ttl", "c_nothing_sent"] {
        if out.get(k) == 0 {
            out.machinery(format!("vacuity: counter {k} is zero"));
        }
    }
    // ---- vacuity guards
    for k in ["a_kept_in_store", "a_offered_to_application", "a_not_kept", "a_expiry_is_given", "a_expiry_is_local_ttl", "a_expiry_decreased_below_local_ttl", "a_answered", "a_not_kept_subsecond_local_ttl", "a_not_kept_lifetime_decreased_to_zero", "b_ttl_zero", "b_ttl_nonzero"] {
        if out.get(k) == 0 {
            out.machinery(format!("vacuity: counter {k} is zero"));
        }
    }
    if out.get("max_num_between") < 8 {
        out.machinery("vacuity: the crowded configuration never had num_beyond_k > 0");
    }
    out
}

fn replay(ctx: &Ctx, case: &Value, out: &mut Outcome) {
    out.evaluations = 1;
    let mut errs = Vec::new();
    match case["part"].as_str() {
        Some("a") => match serde_json::from_value::<CaseA>(case["case"].clone()) {
            Ok(c) => match exec_a(ctx.seed, &c) {
                Ok(o) => errs = oracle_a(&c, &o),
                Err(p) => errs.push(format!("recv-panic :: {p}")),
            },
            Err(e) => errs.push(format!("bad replay case: {e}")),
        },
        Some("c") => match serde_json::from_value::<CaseC>(case["case"].clone()) {
            Ok(c) => match exec_c(ctx.seed, &c) {
                Ok(o) => errs = oracle_c(&c, &o),
                Err(p) => errs.push(format!("republish-failed :: {p}")),
            },
            Err(e) => errs.push(format!("bad replay case: {e}")),
        },
        Some("b") => match serde_json::from_value::<CaseB>(case["case"].clone()) {
            Ok(c) => match exec_b(ctx.seed, &c) {
                Ok(o) => errs = oracle_b(&c, &o),
                Err(p) => errs.push(format!("send-failed :: {p}")),
            },
            Err(e) => errs.push(format!("bad replay case: {e}")),
        },
        _ => errs.push("bad replay case".into()),
    }
    for m in errs {
        out.violation(mc::bfs::signature_of(&m), m, case.clone());
    }
}
