//! Family binary (checks are registered here).
mod c42;
mod c43;
mod c44;
mod drv;

fn main() {
    mc::main_dispatch(&[("C44", c44::run, c44::META), ("C42", c42::run, c42::META), ("C43", c43::run, c43::META)]);
}
