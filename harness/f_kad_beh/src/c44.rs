//! C44 — Kademlia messages round-trip through the wire codec; arbitrary bytes decode to an
//! error (or a message), never to a panic. Engine E3 (complete enumeration + fault enumeration).
//!
//! Subject: the real `Codec<KadRequestMsg, KadResponseMsg>` / `Codec<KadResponseMsg, KadRequestMsg>`
//! exactly as `ProtocolConfig::upgrade_{outbound,inbound}` builds them (hook `verif_kad_beh`):
//! `req_msg_to_proto`, `resp_msg_to_proto`, `proto_to_req_msg`, `proto_to_resp_msg`,
//! `record_to_proto`, `record_from_proto`, `KadPeer <-> proto::Peer`, prost, prost-codec framing.
//!
//! Reading of "decodes to the same message" (documented normalisations, written down here so
//! they can be audited; each is computed by `normalise` below, independently of /repo):
//!  * a peer address is received with `/p2p/<node id>` appended when it does not end in one
//!    (repo test `protocol::tests::append_p2p`); an address ending in a *different* peer id and
//!    an address that is not a valid multiaddr are skipped (`skip_invalid_multiaddr`);
//!  * a record's expiry travels as whole seconds of remaining lifetime (`Record.ttl`), so the
//!    received expiry is `now + floor(remaining)`; lifetimes in this check are >= 1 s (shorter
//!    ones and lifetimes >= 2^32 s are the subject of C42, not repeated here).
//! The wire layout is cross-checked against an independent encoder (`kit::pb`) following
//! `dht.proto`; a layout difference gets its own signature (`wire-layout:*`).
//!
//! Hostile input has no expected value except for "invalid address injected into an otherwise
//! honest message" (expected: the honest message, normalised). Everything else must satisfy:
//! no panic; a complete frame is never answered with "need more bytes"; a message that *is*
//! decoded is itself stable under encode -> decode (the round-trip clause applied to it).

use asynchronous_codec::{Decoder, Encoder};
use bytes::BytesMut;
use kit::ids::peer;
use kit::pb::{self, W};
use libp2p_kad::verif_kad_beh as hook;
use libp2p_kad::{ConnectionType, KadPeer, Record, RecordKey};
use mc::{enumerate, json, Ctx, Meta, Outcome, Value};
use multiaddr::{Multiaddr, Protocol};
use serde::{Deserialize, Serialize};
use std::time::{Duration, Instant};

use hook::{KadRequestMsg as Req, KadResponseMsg as Resp};

pub const META: Meta = Meta {
    level: "exploration",
    rule: "round-trip: every request kind (Ping, FindNode, GetProviders, GetValue, AddProvider, PutValue) and response kind (Pong, FindNode, GetProviders, GetValue, PutValue) over keys {empty,1 byte,32 bytes}, a 6-peer alphabet (0-2 addresses: plain, with own /p2p, with foreign /p2p, empty multiaddr; all 4 connection types), peer lists of length <=2 (quick) / <=3 (thorough), records over 3 keys x 3 values x {no publisher, publisher} x expiry {none, 1 s, 90.5 s, u32::MAX s}; hostile: an invalid multiaddr injected at every address position of every peer-carrying base message (expected value known), a structured enumeration of malformed protobuf messages (types, peer ids, connection types, publishers, ttl out of range), every single-byte mutation (8 bit flips + 0xff quick / all 255 xor masks thorough) of ~260 base encodings fed to both decoders, and every byte string of length <=3 (quick) / <=4 raw, <=5 framed (thorough) over a 14-byte alphabet, raw and as a frame body; length prefixes at / above the 16 KiB packet limit and over-long varints; PutValue request / GetValue response / PutValue response with body sizes {4096,16384,65536} -1/0/+1 written to and read from the real Framed streams of ProtocolConfig::upgrade_outbound / upgrade_inbound (requests outbound->inbound, responses inbound->outbound) under max_packet_size {default, 4096, 65536}. Non-trivial = distinct messages carrying at least one peer or a record, plus distinct hostile inputs that were rejected or decoded (not merely 'need more bytes').",
    explanation: "Complete enumeration (E3) of the stated message alphabet through the real codecs: real encoding == independent reference encoding (kit::pb following dht.proto), decode(encode(m)) == normalise(m), re-encoding the normal form is a fixpoint; fault enumeration of the recorded encodings: no panic, complete frames never stall, every decoded message is stable under encode->decode.",
    assumptions: &[
        "virtual clock frozen during a case (expiry = now + whole seconds is exact)",
        "record lifetimes in [1 s, u32::MAX s]; sub-second and >= 2^32 s lifetimes are C42",
        "value/key interiors are represented by lengths {0,1,32/40}",
        "prost and unsigned-varint are trusted for the byte-level parsing they do",
        "a message fits when its protobuf body (without the length prefix) is <= the configured max_packet_size; larger ones must be rejected by the reader",
    ],
};

// ---------------------------------------------------------------- typed alphabet (serialisable)

#[derive(Clone, Debug, Serialize, Deserialize, PartialEq)]
pub struct TPeer {
    id: u8,
    addrs: Vec<String>,
    conn: u8,
}
#[derive(Clone, Debug, Serialize, Deserialize, PartialEq)]
pub struct TRecord {
    key: Vec<u8>,
    value: Vec<u8>,
    publisher: Option<u8>,
    /// remaining lifetime in milliseconds
    expires_ms: Option<u64>,
}
#[derive(Clone, Debug, Serialize, Deserialize, PartialEq)]
pub enum TMsg {
    ReqPing,
    ReqFindNode { key: Vec<u8> },
    ReqGetProviders { key: Vec<u8> },
    ReqAddProvider { key: Vec<u8>, provider: TPeer },
    ReqGetValue { key: Vec<u8> },
    ReqPutValue { record: TRecord },
    ResPong,
    ResFindNode { closer: Vec<TPeer> },
    ResGetProviders { closer: Vec<TPeer>, providers: Vec<TPeer> },
    ResGetValue { record: Option<TRecord>, closer: Vec<TPeer> },
    ResPutValue { key: Vec<u8>, value: Vec<u8> },
}

const A1: &str = "/ip4/1.2.3.4/tcp/5";
const A2: &str = "/dns4/x.io/udp/9/quic-v1";

fn maddr(s: &str) -> Multiaddr {
    if s.is_empty() {
        Multiaddr::empty()
    } else {
        s.parse().expect("valid multiaddr text")
    }
}
fn with_id(s: &str, id: u8) -> String {
    format!("{s}/p2p/{}", peer(id))
}

fn keys() -> Vec<Vec<u8>> {
    vec![vec![], vec![0x07], (0..32u8).map(|i| i.wrapping_mul(7).wrapping_add(1)).collect()]
}
fn values() -> Vec<Vec<u8>> {
    vec![vec![], vec![0xaa], (0..40u8).map(|i| 200u8.wrapping_add(i)).collect()]
}
fn peer_alphabet() -> Vec<TPeer> {
    vec![
        TPeer { id: 1, addrs: vec![], conn: 0 },
        TPeer { id: 1, addrs: vec![A1.into()], conn: 1 },
        TPeer { id: 2, addrs: vec![A1.into(), with_id(A2, 2)], conn: 2 },
        TPeer { id: 2, addrs: vec![with_id(A1, 1), A2.into()], conn: 3 }, // first address belongs to another peer
        TPeer { id: 1, addrs: vec!["".into()], conn: 0 },                 // empty multiaddr
        TPeer { id: 3, addrs: vec![A2.into(), A1.into()], conn: 1 },
    ]
}
fn record_alphabet() -> Vec<TRecord> {
    let mut v = Vec::new();
    for key in keys() {
        for value in values() {
            for publisher in [None, Some(1u8)] {
                for expires_ms in [None, Some(1_000u64), Some(90_500), Some(u32::MAX as u64 * 1000)] {
                    v.push(TRecord { key: key.clone(), value: value.clone(), publisher, expires_ms });
                }
            }
        }
    }
    v
}
fn peer_lists(max: usize) -> Vec<Vec<TPeer>> {
    let a = peer_alphabet();
    let mut v = Vec::new();
    enumerate::sequences_upto(a.len(), max, |idx| v.push(idx.iter().map(|&i| a[i].clone()).collect()));
    v
}

impl TMsg {
    fn is_req(&self) -> bool {
        matches!(self, TMsg::ReqPing | TMsg::ReqFindNode { .. } | TMsg::ReqGetProviders { .. } | TMsg::ReqAddProvider { .. } | TMsg::ReqGetValue { .. } | TMsg::ReqPutValue { .. })
    }
    fn kind(&self) -> &'static str {
        match self {
            TMsg::ReqPing => "req-ping",
            TMsg::ReqFindNode { .. } => "req-find-node",
            TMsg::ReqGetProviders { .. } => "req-get-providers",
            TMsg::ReqAddProvider { .. } => "req-add-provider",
            TMsg::ReqGetValue { .. } => "req-get-value",
            TMsg::ReqPutValue { .. } => "req-put-value",
            TMsg::ResPong => "res-pong",
            TMsg::ResFindNode { .. } => "res-find-node",
            TMsg::ResGetProviders { .. } => "res-get-providers",
            TMsg::ResGetValue { .. } => "res-get-value",
            TMsg::ResPutValue { .. } => "res-put-value",
        }
    }
    fn nontrivial(&self) -> bool {
        match self {
            TMsg::ReqAddProvider { .. } | TMsg::ReqPutValue { .. } => true,
            TMsg::ResFindNode { closer } => !closer.is_empty(),
            TMsg::ResGetProviders { closer, providers } => !closer.is_empty() || !providers.is_empty(),
            TMsg::ResGetValue { record, closer } => record.is_some() || !closer.is_empty(),
            _ => false,
        }
    }
}

// ---------------------------------------------------------------- typed -> real

fn conn_ty(c: u8) -> ConnectionType {
    match c {
        0 => ConnectionType::NotConnected,
        1 => ConnectionType::Connected,
        2 => ConnectionType::CanConnect,
        _ => ConnectionType::CannotConnect,
    }
}
fn real_peer(p: &TPeer) -> KadPeer {
    KadPeer { node_id: peer(p.id), multiaddrs: p.addrs.iter().map(|s| maddr(s)).collect(), connection_ty: conn_ty(p.conn) }
}
fn real_record(r: &TRecord, now: Instant) -> Record {
    Record { key: RecordKey::from(r.key.clone()), value: r.value.clone(), publisher: r.publisher.map(peer), expires: r.expires_ms.map(|ms| now + Duration::from_millis(ms)) }
}
fn real_req(t: &TMsg, now: Instant) -> Option<Req> {
    Some(match t {
        TMsg::ReqPing => Req::Ping,
        TMsg::ReqFindNode { key } => Req::FindNode { key: key.clone() },
        TMsg::ReqGetProviders { key } => Req::GetProviders { key: RecordKey::from(key.clone()) },
        TMsg::ReqAddProvider { key, provider } => Req::AddProvider { key: RecordKey::from(key.clone()), provider: real_peer(provider) },
        TMsg::ReqGetValue { key } => Req::GetValue { key: RecordKey::from(key.clone()) },
        TMsg::ReqPutValue { record } => Req::PutValue { record: real_record(record, now) },
        _ => return None,
    })
}
fn real_resp(t: &TMsg, now: Instant) -> Option<Resp> {
    Some(match t {
        TMsg::ResPong => Resp::Pong,
        TMsg::ResFindNode { closer } => Resp::FindNode { closer_peers: closer.iter().map(real_peer).collect() },
        TMsg::ResGetProviders { closer, providers } => Resp::GetProviders { closer_peers: closer.iter().map(real_peer).collect(), provider_peers: providers.iter().map(real_peer).collect() },
        TMsg::ResGetValue { record, closer } => Resp::GetValue { record: record.as_ref().map(|r| real_record(r, now)), closer_peers: closer.iter().map(real_peer).collect() },
        TMsg::ResPutValue { key, value } => Resp::PutValue { key: RecordKey::from(key.clone()), value: value.clone() },
        _ => return None,
    })
}

// ---------------------------------------------------------------- normal form (independent of /repo)

#[derive(Default)]
struct NormStats {
    appended: u64,
    skipped: u64,
    floored: u64,
}
fn norm_peer(p: &TPeer, st: &mut NormStats) -> TPeer {
    let id = peer(p.id);
    let mut addrs = Vec::new();
    for s in &p.addrs {
        let a = maddr(s);
        match a.iter().last() {
            Some(Protocol::P2p(other)) if other == id => addrs.push(a.to_string()),
            Some(Protocol::P2p(_)) => st.skipped += 1,
            _ => {
                st.appended += 1;
                addrs.push(a.with(Protocol::P2p(id)).to_string());
            }
        }
    }
    TPeer { id: p.id, addrs, conn: p.conn }
}
fn norm_record(r: &TRecord, st: &mut NormStats) -> TRecord {
    let expires_ms = r.expires_ms.map(|ms| {
        if ms % 1000 != 0 {
            st.floored += 1;
        }
        ms / 1000 * 1000
    });
    TRecord { expires_ms, ..r.clone() }
}
fn normalise(t: &TMsg, st: &mut NormStats) -> TMsg {
    let np = |v: &Vec<TPeer>, st: &mut NormStats| v.iter().map(|p| norm_peer(p, st)).collect::<Vec<_>>();
    match t {
        TMsg::ReqAddProvider { key, provider } => TMsg::ReqAddProvider { key: key.clone(), provider: norm_peer(provider, st) },
        TMsg::ReqPutValue { record } => TMsg::ReqPutValue { record: norm_record(record, st) },
        TMsg::ResFindNode { closer } => TMsg::ResFindNode { closer: np(closer, st) },
        TMsg::ResGetProviders { closer, providers } => TMsg::ResGetProviders { closer: np(closer, st), providers: np(providers, st) },
        TMsg::ResGetValue { record, closer } => TMsg::ResGetValue { record: record.as_ref().map(|r| norm_record(r, st)), closer: np(closer, st) },
        other => other.clone(),
    }
}

// ---------------------------------------------------------------- wire-level description + reference encoder

#[derive(Clone, Debug, Serialize, Deserialize, PartialEq, Default)]
pub struct WPeer {
    id: Vec<u8>,
    addrs: Vec<Vec<u8>>,
    conn: u64,
}
#[derive(Clone, Debug, Serialize, Deserialize, PartialEq, Default)]
pub struct WRecord {
    key: Vec<u8>,
    value: Vec<u8>,
    publisher: Vec<u8>,
    ttl: u64,
}
#[derive(Clone, Debug, Serialize, Deserialize, PartialEq, Default)]
pub struct WMsg {
    ty: u64,
    key: Vec<u8>,
    record: Option<WRecord>,
    closer: Vec<WPeer>,
    providers: Vec<WPeer>,
    cluster: u64,
}
impl WPeer {
    fn w(&self) -> W {
        // message Peer { bytes id = 1; repeated bytes addrs = 2; ConnectionType connection = 3; }
        let mut w = W::new();
        if !self.id.is_empty() {
            w = w.bytes(1, &self.id);
        }
        for a in &self.addrs {
            w = w.bytes(2, a);
        }
        if self.conn != 0 {
            w = w.uint(3, self.conn);
        }
        w
    }
}
impl WRecord {
    fn w(&self) -> W {
        // message Record { bytes key = 1; bytes value = 2; string timeReceived = 5; bytes publisher = 666; uint32 ttl = 777; }
        let mut w = W::new();
        if !self.key.is_empty() {
            w = w.bytes(1, &self.key);
        }
        if !self.value.is_empty() {
            w = w.bytes(2, &self.value);
        }
        if !self.publisher.is_empty() {
            w = w.bytes(666, &self.publisher);
        }
        if self.ttl != 0 {
            w = w.uint(777, self.ttl);
        }
        w
    }
}
impl WMsg {
    /// proto3 encoding in field-number order (what any canonical encoder emits)
    fn body(&self) -> Vec<u8> {
        // message Message { MessageType type = 1; bytes key = 2; Record record = 3;
        //   repeated Peer closerPeers = 8; repeated Peer providerPeers = 9; int32 clusterLevelRaw = 10; }
        let mut w = W::new();
        if self.ty != 0 {
            w = w.uint(1, self.ty);
        }
        if !self.key.is_empty() {
            w = w.bytes(2, &self.key);
        }
        if let Some(r) = &self.record {
            w = w.msg(3, &r.w());
        }
        for p in &self.closer {
            w = w.msg(8, &p.w());
        }
        for p in &self.providers {
            w = w.msg(9, &p.w());
        }
        if self.cluster != 0 {
            w = w.uint(10, self.cluster);
        }
        w.finish()
    }
    fn framed(&self) -> Vec<u8> {
        pb::frame(&self.body())
    }
}

// MessageType: PUT_VALUE = 0; GET_VALUE = 1; ADD_PROVIDER = 2; GET_PROVIDERS = 3; FIND_NODE = 4; PING = 5
fn wire_peer(p: &TPeer) -> WPeer {
    WPeer { id: peer(p.id).to_bytes(), addrs: p.addrs.iter().map(|s| maddr(s).to_vec()).collect(), conn: p.conn as u64 }
}
fn wire_record(r: &TRecord) -> WRecord {
    WRecord { key: r.key.clone(), value: r.value.clone(), publisher: r.publisher.map(|p| peer(p).to_bytes()).unwrap_or_default(), ttl: r.expires_ms.map(|ms| ms / 1000).unwrap_or(0) }
}
/// reference wire form of a typed message (requests carry clusterLevelRaw 10, responses 9, as
/// the go and rust implementations do for every kind except Ping and PutValue)
fn wire(t: &TMsg) -> WMsg {
    let wp = |v: &Vec<TPeer>| v.iter().map(wire_peer).collect::<Vec<_>>();
    match t {
        TMsg::ReqPing | TMsg::ResPong => WMsg { ty: 5, ..Default::default() },
        TMsg::ReqFindNode { key } => WMsg { ty: 4, key: key.clone(), cluster: 10, ..Default::default() },
        TMsg::ReqGetProviders { key } => WMsg { ty: 3, key: key.clone(), cluster: 10, ..Default::default() },
        TMsg::ReqAddProvider { key, provider } => WMsg { ty: 2, key: key.clone(), providers: vec![wire_peer(provider)], cluster: 10, ..Default::default() },
        TMsg::ReqGetValue { key } => WMsg { ty: 1, key: key.clone(), cluster: 10, ..Default::default() },
        TMsg::ReqPutValue { record } => WMsg { ty: 0, key: record.key.clone(), record: Some(wire_record(record)), ..Default::default() },
        TMsg::ResFindNode { closer } => WMsg { ty: 4, closer: wp(closer), cluster: 9, ..Default::default() },
        TMsg::ResGetProviders { closer, providers } => WMsg { ty: 3, closer: wp(closer), providers: wp(providers), cluster: 9, ..Default::default() },
        TMsg::ResGetValue { record, closer } => WMsg { ty: 1, record: record.as_ref().map(wire_record), closer: wp(closer), cluster: 9, ..Default::default() },
        TMsg::ResPutValue { key, value } => WMsg { ty: 0, key: key.clone(), record: Some(WRecord { key: key.clone(), value: value.clone(), ..Default::default() }), ..Default::default() },
    }
}

// ---------------------------------------------------------------- the real codecs

struct Codecs {
    inb: hook::InboundCodec,   // decodes requests, encodes responses
    outb: hook::OutboundCodec, // encodes requests, decodes responses
}
#[derive(Debug, PartialEq, Clone)]
enum Dec<T> {
    Msg(T, usize),
    NeedMore,
    Err(String),
}
impl Codecs {
    fn new() -> Self {
        Codecs { inb: hook::inbound_codec(None), outb: hook::outbound_codec(None) }
    }
    fn enc_req(&mut self, m: Req) -> Result<Vec<u8>, String> {
        let mut b = BytesMut::new();
        mc::catch(|| self.outb.encode(m, &mut b)).map_err(|p| format!("panic: {p}"))?.map_err(|e| e.to_string())?;
        Ok(b.to_vec())
    }
    fn enc_resp(&mut self, m: Resp) -> Result<Vec<u8>, String> {
        let mut b = BytesMut::new();
        mc::catch(|| self.inb.encode(m, &mut b)).map_err(|p| format!("panic: {p}"))?.map_err(|e| e.to_string())?;
        Ok(b.to_vec())
    }
    /// Err(panic message) on panic
    fn dec_req(&mut self, bytes: &[u8]) -> Result<Dec<Req>, String> {
        let mut b = BytesMut::from(bytes);
        let r = mc::catch(|| self.inb.decode(&mut b))?;
        Ok(match r {
            Ok(Some(m)) => Dec::Msg(m, b.len()),
            Ok(None) => Dec::NeedMore,
            Err(e) => Dec::Err(e.to_string()),
        })
    }
    fn dec_resp(&mut self, bytes: &[u8]) -> Result<Dec<Resp>, String> {
        let mut b = BytesMut::from(bytes);
        let r = mc::catch(|| self.outb.decode(&mut b))?;
        Ok(match r {
            Ok(Some(m)) => Dec::Msg(m, b.len()),
            Ok(None) => Dec::NeedMore,
            Err(e) => Dec::Err(e.to_string()),
        })
    }
}

fn hex(b: &[u8]) -> String {
    let mut s = String::new();
    for (i, x) in b.iter().enumerate() {
        if i >= 96 {
            s.push_str("..");
            break;
        }
        s.push_str(&format!("{x:02x}"));
    }
    s
}

// ---------------------------------------------------------------- oracle: round trip

/// returns every failed expectation ("signature :: details")
fn rt_case(cx: &mut Codecs, t: &TMsg, st: &mut NormStats) -> Vec<String> {
    let mut errs = Vec::new();
    let kind = t.kind();
    let now = Instant::now();
    let want = normalise(t, st);
    let reference = wire(t).framed();
    if t.is_req() {
        let m = real_req(t, now).unwrap();
        let want_m = real_req(&want, now).unwrap();
        match cx.enc_req(m) {
            Err(e) => errs.push(format!("encode-failed:{kind} :: {e}")),
            Ok(enc) => {
                if enc != reference {
                    errs.push(format!("wire-layout:{kind} :: real encoding {} differs from reference encoding {}", hex(&enc), hex(&reference)));
                }
                match cx.dec_req(&enc) {
                    Err(p) => errs.push(format!("decode-panic:{kind} :: {p}")),
                    Ok(Dec::Msg(got, 0)) if got == want_m => {}
                    Ok(other) => errs.push(format!("roundtrip-mismatch:{kind} :: sent {t:?}; decoded {other:?}; expected {want_m:?}")),
                }
            }
        }
        // the real decoder understands the independent encoding
        match cx.dec_req(&reference) {
            Err(p) => errs.push(format!("decode-panic:{kind} :: on reference encoding: {p}")),
            Ok(Dec::Msg(got, 0)) if got == want_m => {}
            Ok(other) => errs.push(format!("reference-decode-mismatch:{kind} :: reference encoding of {t:?} decoded as {other:?}; expected {want_m:?}")),
        }
        // the normal form is a fixpoint
        match cx.enc_req(want_m.clone()).map(|e| cx.dec_req(&e)) {
            Ok(Ok(Dec::Msg(got, 0))) if got == want_m => {}
            other => errs.push(format!("normal-form-not-fixpoint:{kind} :: {want_m:?} re-encoded and decoded gives {other:?}")),
        }
    } else {
        let m = real_resp(t, now).unwrap();
        let want_m = real_resp(&want, now).unwrap();
        match cx.enc_resp(m) {
            Err(e) => errs.push(format!("encode-failed:{kind} :: {e}")),
            Ok(enc) => {
                if enc != reference {
                    errs.push(format!("wire-layout:{kind} :: real encoding {} differs from reference encoding {}", hex(&enc), hex(&reference)));
                }
                match cx.dec_resp(&enc) {
                    Err(p) => errs.push(format!("decode-panic:{kind} :: {p}")),
                    Ok(Dec::Msg(got, 0)) if got == want_m => {}
                    Ok(other) => errs.push(format!("roundtrip-mismatch:{kind} :: sent {t:?}; decoded {other:?}; expected {want_m:?}")),
                }
            }
        }
        match cx.dec_resp(&reference) {
            Err(p) => errs.push(format!("decode-panic:{kind} :: on reference encoding: {p}")),
            Ok(Dec::Msg(got, 0)) if got == want_m => {}
            Ok(other) => errs.push(format!("reference-decode-mismatch:{kind} :: reference encoding of {t:?} decoded as {other:?}; expected {want_m:?}")),
        }
        match cx.enc_resp(want_m.clone()).map(|e| cx.dec_resp(&e)) {
            Ok(Ok(Dec::Msg(got, 0))) if got == want_m => {}
            other => errs.push(format!("normal-form-not-fixpoint:{kind} :: {want_m:?} re-encoded and decoded gives {other:?}")),
        }
    }
    errs
}

// ---------------------------------------------------------------- oracle: invalid address injected

const BAD_ADDRS: [&[u8]; 3] = [&[0xff, 0xff, 0xff, 0xff, 0xff, 0xff, 0xff, 0xff], &[0x04, 0x01, 0x02], &[0x06]];

/// `t` honest; in its reference wire form an invalid multiaddr (`bad`) is inserted into peer
/// number `pi` (counting closer then providers) at address position `ai`. Expected: normalise(t).
fn inject_case(cx: &mut Codecs, t: &TMsg, pi: usize, ai: usize, bad: usize) -> Result<bool, String> {
    let kind = t.kind();
    let now = Instant::now();
    let mut w = wire(t);
    let nc = w.closer.len();
    let p = if pi < nc { w.closer.get_mut(pi) } else { w.providers.get_mut(pi - nc) };
    let Some(p) = p else { return Ok(false) };
    if ai > p.addrs.len() {
        return Ok(false);
    }
    p.addrs.insert(ai, BAD_ADDRS[bad].to_vec());
    let bytes = w.framed();
    let want = normalise(t, &mut NormStats::default());
    if t.is_req() {
        let want_m = real_req(&want, now).unwrap();
        match cx.dec_req(&bytes) {
            Err(p) => Err(format!("decode-panic:{kind} :: invalid address injected: {p}")),
            Ok(Dec::Msg(got, 0)) if got == want_m => Ok(true),
            Ok(other) => Err(format!("invalid-address-not-skipped:{kind} :: {t:?} with invalid address {:?} at peer {pi} position {ai} decoded as {other:?}; expected {want_m:?}", BAD_ADDRS[bad])),
        }
    } else {
        let want_m = real_resp(&want, now).unwrap();
        match cx.dec_resp(&bytes) {
            Err(p) => Err(format!("decode-panic:{kind} :: invalid address injected: {p}")),
            Ok(Dec::Msg(got, 0)) if got == want_m => Ok(true),
            Ok(other) => Err(format!("invalid-address-not-skipped:{kind} :: {t:?} with invalid address {:?} at peer {pi} position {ai} decoded as {other:?}; expected {want_m:?}", BAD_ADDRS[bad])),
        }
    }
}

// ---------------------------------------------------------------- oracle: hostile bytes (no expected value)

#[derive(Clone, Copy, PartialEq, Eq, Debug)]
enum Class {
    Err,
    NeedMore,
    Ok,
}

/// is a complete frame present at the start of `bytes` (independent reading of the prefix)?
fn complete_frame(bytes: &[u8]) -> bool {
    match pb::read_varint(bytes) {
        Some((l, n)) => (bytes.len() - n) as u64 >= l,
        None => false,
    }
}

/// side: true = request decoder (inbound substream), false = response decoder
fn hostile_case(cx: &mut Codecs, req_side: bool, bytes: &[u8]) -> Result<Class, String> {
    let side = if req_side { "req" } else { "res" };
    if req_side {
        match cx.dec_req(bytes).map_err(|p| format!("decode-panic:{side} :: {p} at {:?}", mc::shim::last_panic_loc()))? {
            Dec::Err(_) => Ok(Class::Err),
            Dec::NeedMore if complete_frame(bytes) => Err(format!("stalled-on-complete-frame:{side} :: decoder asks for more bytes although a complete frame is buffered")),
            Dec::NeedMore => Ok(Class::NeedMore),
            Dec::Msg(m, _) => {
                let again = cx.enc_req(m.clone()).map(|e| cx.dec_req(&e));
                match again {
                    Ok(Ok(Dec::Msg(m2, 0))) if m2 == m => Ok(Class::Ok),
                    other => Err(format!("decoded-message-unstable:{side} :: decoded {m:?}; its re-encoding decodes as {other:?}")),
                }
            }
        }
    } else {
        match cx.dec_resp(bytes).map_err(|p| format!("decode-panic:{side} :: {p} at {:?}", mc::shim::last_panic_loc()))? {
            Dec::Err(_) => Ok(Class::Err),
            Dec::NeedMore if complete_frame(bytes) => Err(format!("stalled-on-complete-frame:{side} :: decoder asks for more bytes although a complete frame is buffered")),
            Dec::NeedMore => Ok(Class::NeedMore),
            Dec::Msg(m, _) => {
                let again = cx.enc_resp(m.clone()).map(|e| cx.dec_resp(&e));
                match again {
                    Ok(Ok(Dec::Msg(m2, 0))) if m2 == m => Ok(Class::Ok),
                    other => Err(format!("decoded-message-unstable:{side} :: decoded {m:?}; its re-encoding decodes as {other:?}")),
                }
            }
        }
    }
}

// ---------------------------------------------------------------- enumeration

fn all_messages(max_list: usize) -> Vec<TMsg> {
    let mut v = vec![TMsg::ReqPing, TMsg::ResPong];
    for k in keys() {
        v.push(TMsg::ReqFindNode { key: k.clone() });
        v.push(TMsg::ReqGetProviders { key: k.clone() });
        v.push(TMsg::ReqGetValue { key: k.clone() });
        for p in peer_alphabet() {
            v.push(TMsg::ReqAddProvider { key: k.clone(), provider: p });
        }
        for val in values() {
            v.push(TMsg::ResPutValue { key: k.clone(), value: val });
        }
    }
    let recs = record_alphabet();
    for r in &recs {
        v.push(TMsg::ReqPutValue { record: r.clone() });
    }
    let lists = peer_lists(max_list);
    for l in &lists {
        v.push(TMsg::ResFindNode { closer: l.clone() });
    }
    for a in &lists {
        for b in &lists {
            v.push(TMsg::ResGetProviders { closer: a.clone(), providers: b.clone() });
        }
    }
    for l in &lists {
        v.push(TMsg::ResGetValue { record: None, closer: l.clone() });
        for r in &recs {
            v.push(TMsg::ResGetValue { record: Some(r.clone()), closer: l.clone() });
        }
    }
    v
}

/// base messages whose encodings are mutated / get invalid addresses injected
fn base_messages() -> Vec<TMsg> {
    let mut v = vec![TMsg::ReqPing, TMsg::ResPong];
    for k in keys() {
        v.push(TMsg::ReqFindNode { key: k.clone() });
        v.push(TMsg::ReqGetProviders { key: k.clone() });
        v.push(TMsg::ReqGetValue { key: k.clone() });
        v.push(TMsg::ResPutValue { key: k.clone(), value: values()[1].clone() });
    }
    let k32 = keys()[2].clone();
    for p in peer_alphabet() {
        v.push(TMsg::ReqAddProvider { key: k32.clone(), provider: p });
    }
    let recs: Vec<TRecord> = record_alphabet().into_iter().filter(|r| r.key.len() != 1 && r.value.len() != 1).collect();
    for r in &recs {
        v.push(TMsg::ReqPutValue { record: r.clone() });
    }
    let lists1 = peer_lists(1);
    let lists2 = peer_lists(2);
    for l in &lists2 {
        v.push(TMsg::ResFindNode { closer: l.clone() });
    }
    for a in &lists1 {
        for b in &lists1 {
            v.push(TMsg::ResGetProviders { closer: a.clone(), providers: b.clone() });
        }
    }
    for l in &lists1 {
        v.push(TMsg::ResGetValue { record: None, closer: l.clone() });
        for r in recs.iter().filter(|r| r.key.len() == 32 && r.publisher.is_some()) {
            v.push(TMsg::ResGetValue { record: Some(r.clone()), closer: l.clone() });
        }
    }
    v
}

fn structured_hostile(max_list: usize, mut f: impl FnMut(&WMsg)) {
    let p1 = peer(1).to_bytes();
    let a1 = maddr(A1).to_vec();
    let wpeers = vec![
        WPeer { id: p1.clone(), addrs: vec![a1.clone()], conn: 1 },
        WPeer { id: vec![0xff, 0xff, 0xff], addrs: vec![a1.clone()], conn: 1 }, // invalid peer id
        WPeer { id: vec![], addrs: vec![a1.clone()], conn: 0 },                 // missing id
        WPeer { id: p1.clone(), addrs: vec![], conn: 4 },                       // unknown connection type
        WPeer { id: p1.clone(), addrs: vec![BAD_ADDRS[0].to_vec()], conn: u64::MAX }, // connection = -1
        WPeer { id: peer(2).to_bytes(), addrs: vec![maddr(&with_id(A1, 1)).to_vec()], conn: 3 }, // foreign /p2p
    ];
    let wrecs = vec![
        None,
        Some(WRecord { key: vec![7], value: vec![1], publisher: vec![], ttl: 0 }),
        Some(WRecord { key: vec![], value: vec![], publisher: vec![1, 2, 3], ttl: 5 }),       // invalid publisher
        Some(WRecord { key: vec![7], value: vec![1], publisher: p1.clone(), ttl: u32::MAX as u64 }),
        Some(WRecord { key: vec![7], value: vec![], publisher: vec![], ttl: 1 << 32 }),      // does not fit uint32
        Some(WRecord { key: vec![7], value: vec![], publisher: vec![], ttl: (1 << 32) + 5 }),
    ];
    let types: [u64; 9] = [0, 1, 2, 3, 4, 5, 6, 1 << 31, u64::MAX];
    let mut lists: Vec<Vec<WPeer>> = Vec::new();
    enumerate::sequences_upto(wpeers.len(), max_list, |idx| lists.push(idx.iter().map(|&i| wpeers[i].clone()).collect()));
    for &ty in &types {
        for key in [vec![], vec![7u8]] {
            for rec in &wrecs {
                for closer in &lists {
                    for providers in &lists {
                        for cluster in [0u64, u64::MAX] {
                            f(&WMsg { ty, key: key.clone(), record: rec.clone(), closer: closer.clone(), providers: providers.clone(), cluster });
                        }
                    }
                }
            }
        }
    }
}

const ALPHA: [u8; 14] = [0x00, 0x01, 0x02, 0x05, 0x08, 0x0a, 0x12, 0x1a, 0x42, 0x4a, 0x50, 0x7f, 0x80, 0xff];

fn encode_base(cx: &mut Codecs, t: &TMsg) -> Result<Vec<u8>, String> {
    let now = Instant::now();
    if t.is_req() {
        cx.enc_req(real_req(t, now).unwrap())
    } else {
        cx.enc_resp(real_resp(t, now).unwrap())
    }
}

// ---------------------------------------------------------------- packet-size limit through the real upgrades

/// kinds of value-carrying messages: 0 = PutValue request, 1 = GetValue response, 2 = PutValue response
fn sized_msg(kind: u8, value_len: usize) -> TMsg {
    let value: Vec<u8> = (0..value_len).map(|i| (i % 251) as u8).collect();
    let key = vec![0x07];
    match kind {
        0 => TMsg::ReqPutValue { record: TRecord { key, value, publisher: Some(1), expires_ms: Some(60_000) } },
        1 => TMsg::ResGetValue { record: Some(TRecord { key, value, publisher: None, expires_ms: None }), closer: vec![peer_alphabet()[1].clone()] },
        _ => TMsg::ResPutValue { key, value },
    }
}
/// value length for which the *reference* encoding of the message body is exactly `target` bytes
fn value_len_for(kind: u8, target: usize) -> Option<usize> {
    // body length grows by 1 per value byte except at varint boundaries: converge in a few steps
    let mut v = target.saturating_sub(100);
    for _ in 0..8 {
        let len = wire(&sized_msg(kind, v)).body().len();
        if len == target {
            return Some(v);
        }
        v = (v + target).checked_sub(len)?;
    }
    None
}

/// One message through the real upgrade streams: requests are written to the `Framed` that
/// `ProtocolConfig::upgrade_outbound` builds and read from the one `upgrade_inbound` builds,
/// responses the other way round; both ends configured with `max` (None = default 16 KiB).
/// Oracle: body length (independent encoder) <= configured limit => arrives as the same message;
/// above the limit => the reader reports an error.
fn size_case(kind: u8, value_len: usize, max: Option<usize>) -> Result<&'static str, String> {
    use futures::io::Cursor;
    use futures::{SinkExt, StreamExt};
    use kit::tasks::run_ready;
    let t = sized_msg(kind, value_len);
    let name = t.kind();
    let now = Instant::now();
    let body_len = wire(&t).body().len();
    let limit = max.unwrap_or(16 * 1024);
    let cfg = max.map_or("default".to_string(), |m| m.to_string());
    let want = normalise(&t, &mut NormStats::default());
    let verdict = |got_ok: Option<bool>, detail: String| -> Result<&'static str, String> {
        // got_ok: Some(true) = same message arrived, Some(false) = something else arrived, None = error
        match (body_len <= limit, got_ok) {
            (true, Some(true)) => Ok("fits-roundtrip"),
            (false, None) => Ok("over-limit-rejected"),
            (true, _) => Err(format!("fitting-message-not-delivered:{name} :: max_packet_size {cfg}: a {name} of {body_len} bytes (<= limit {limit}) written to the real upgrade stream does not arrive: {detail}")),
            (false, _) => Err(format!("limit-not-enforced:{name} :: max_packet_size {cfg}: a {name} of {body_len} bytes (> limit {limit}) was accepted by the reader: {detail}")),
        }
    };
    if t.is_req() {
        let mut w = hook::outbound_framed(Cursor::new(Vec::new()), max);
        match run_ready(w.send(real_req(&t, now).unwrap()), 64) {
            Some(Ok(())) => {}
            other => return Err(format!("send-failed:{name} :: {other:?}")),
        }
        let bytes = w.into_inner().into_inner();
        let mut r = hook::inbound_framed(Cursor::new(bytes), max);
        match run_ready(r.next(), 64) {
            Some(Some(Ok(m))) => verdict(Some(m == real_req(&want, now).unwrap()), "decoded".into()),
            Some(Some(Err(e))) => verdict(None, format!("reader error: {e}")),
            other => verdict(None, format!("reader: {:?}", other.map(|o| o.map(|r| r.map(|_| ()))))),
        }
    } else {
        let mut w = hook::inbound_framed(Cursor::new(Vec::new()), max);
        match run_ready(w.send(real_resp(&t, now).unwrap()), 64) {
            Some(Ok(())) => {}
            other => return Err(format!("send-failed:{name} :: {other:?}")),
        }
        let bytes = w.into_inner().into_inner();
        let mut r = hook::outbound_framed(Cursor::new(bytes), max);
        match run_ready(r.next(), 64) {
            Some(Some(Ok(m))) => verdict(Some(m == real_resp(&want, now).unwrap()), "decoded".into()),
            Some(Some(Err(e))) => verdict(None, format!("reader error: {e}")),
            other => verdict(None, format!("reader: {:?}", other.map(|o| o.map(|r| r.map(|_| ()))))),
        }
    }
}

const SIZE_CONFIGS: [Option<usize>; 3] = [None, Some(4096), Some(65536)];
const SIZE_BOUNDARIES: [usize; 3] = [4096, 16 * 1024, 65536];

pub fn run(ctx: &Ctx) -> Outcome {
    if let Some(case) = &ctx.replay {
        let mut out = Outcome::default();
        replay(case, &mut out);
        return out;
    }
    let mut out = mc::workers(ctx, 8, work);
    // ---- vacuity guards (on the merged outcome)
    for k in ["rt_messages", "rt_addr_p2p_appended", "rt_addr_skipped", "rt_expiry_floored", "inject_cases", "mut_err", "mut_need_more", "mut_ok_same", "mut_ok_diff", "str_err", "str_ok", "struct_err", "struct_ok", "limit_err", "limit_ok_at_max", "size_fits-roundtrip", "size_over-limit-rejected", "size_above_16k_fits"] {
        if out.get(k) == 0 {
            out.machinery(format!("vacuity: counter {k} is zero"));
        }
    }
    out
}

fn work(ctx: &Ctx) -> Outcome {
    let mut out = Outcome::default();
    let mut cx = Codecs::new();
    let mut i: u64 = 0; // global case index for striping
    // ---- 1. round trip of every message of the alphabet
    let msgs = all_messages(ctx.tier.pick(2, 3));
    let mut st = NormStats::default();
    for t in &msgs {
        i += 1;
        if !ctx.mine(i) {
            continue;
        }
        out.evaluations += 1;
        out.count("rt_messages", 1);
        out.count(&format!("rt_{}", t.kind()), 1);
        if t.nontrivial() {
            out.nontrivial(&format!("{t:?}"));
        }
        if i % 1499 == 7 {
            out.sample(json!({"kind":"roundtrip","msg":t,"reference_encoding_hex":hex(&wire(t).framed())}));
        }
        for m in rt_case(&mut cx, t, &mut st) {
            out.violation(mc::bfs::signature_of(&m), m, json!({"kind":"rt","msg":t}));
        }
    }
    out.count("rt_addr_p2p_appended", st.appended);
    out.count("rt_addr_skipped", st.skipped);
    out.count("rt_expiry_floored", st.floored);
    // ---- 2. invalid multiaddr injected into honest messages (expected value known)
    let bases = base_messages();
    for t in &bases {
        for pi in 0..4 {
            for ai in 0..3 {
                for bad in 0..BAD_ADDRS.len() {
                    i += 1;
                    if !ctx.mine(i) {
                        continue;
                    }
                    match inject_case(&mut cx, t, pi, ai, bad) {
                        Ok(false) => {}
                        Ok(true) => {
                            out.evaluations += 1;
                            out.count("inject_cases", 1);
                            out.nontrivial(&format!("inj{t:?}{pi}{ai}{bad}"));
                        }
                        Err(m) => {
                            out.evaluations += 1;
                            out.count("inject_cases", 1);
                            out.violation(mc::bfs::signature_of(&m), m, json!({"kind":"inject","msg":t,"peer":pi,"pos":ai,"bad":bad}));
                        }
                    }
                }
            }
        }
    }
    // ---- 3. structured malformed protobuf messages, both decoders
    let mut sampled = false;
    structured_hostile(ctx.tier.pick(1, 2), |w| {
        i += 1;
        if !ctx.mine(i) {
            return;
        }
        let bytes = w.framed();
        for side in [true, false] {
            out.evaluations += 1;
            match hostile_case(&mut cx, side, &bytes) {
                Ok(Class::Err) => {
                    out.count("struct_err", 1);
                    out.nontrivial(&format!("s{side}{w:?}"));
                }
                Ok(Class::Ok) => {
                    out.count("struct_ok", 1);
                    out.nontrivial(&format!("s{side}{w:?}"));
                }
                Ok(Class::NeedMore) => out.count("struct_need_more", 1),
                Err(m) => out.violation(mc::bfs::signature_of(&m), m, json!({"kind":"wire","req_side":side,"wmsg":w})),
            }
        }
        if !sampled && w.ty == 6 {
            sampled = true;
            out.sample(json!({"kind":"structured-hostile","wmsg":w}));
        }
    });
    // ---- 4. every single-byte mutation of the base encodings, both decoders
    let masks: Vec<u8> = if ctx.quick() { vec![1, 2, 4, 8, 16, 32, 64, 128, 0xff] } else { (1..=255u8).collect() };
    for (bi, t) in bases.iter().enumerate() {
        let enc = match encode_base(&mut cx, t) {
            Ok(e) => e,
            Err(e) => {
                out.violation(format!("encode-failed:{}", t.kind()), e, json!({"kind":"rt","msg":t}));
                continue;
            }
        };
        out.max("max_base_encoding_len", enc.len() as u64);
        let orig_req = cx.dec_req(&enc);
        let orig_resp = cx.dec_resp(&enc);
        for pos in 0..enc.len() {
            i += 1;
            if !ctx.mine(i) {
                continue;
            }
            for &mask in &masks {
                let mut b = enc.clone();
                b[pos] ^= mask;
                for side in [true, false] {
                    out.evaluations += 1;
                    match hostile_case(&mut cx, side, &b) {
                        Ok(Class::Err) => {
                            out.count("mut_err", 1);
                            out.nontrivial(&format!("m{bi}.{pos}.{mask}.{side}"));
                        }
                        Ok(Class::NeedMore) => out.count("mut_need_more", 1),
                        Ok(Class::Ok) => {
                            let same = if side { cx.dec_req(&b) == orig_req } else { cx.dec_resp(&b) == orig_resp };
                            out.count(if same { "mut_ok_same" } else { "mut_ok_diff" }, 1);
                            out.nontrivial(&format!("m{bi}.{pos}.{mask}.{side}"));
                        }
                        Err(m) => out.violation(mc::bfs::signature_of(&m), m, json!({"kind":"bytes","req_side":side,"bytes":b,"origin":{"base":t,"pos":pos,"xor":mask}})),
                    }
                }
            }
        }
        if bi == 40 {
            out.sample(json!({"kind":"mutation-base","msg":t,"encoding_hex":hex(&enc),"masks":masks.len()}));
        }
    }
    out.count("mutation_bases", if ctx.worker.map_or(true, |w| w.0 == 0) { bases.len() as u64 } else { 0 });
    // ---- 5. short byte strings, raw and as the body of a well-formed frame
    let (raw_len, framed_len) = ctx.tier.pick((3, 3), (4, 5));
    let mut strings = |maxlen: usize, framed: bool, out: &mut Outcome, i: &mut u64| {
        enumerate::sequences_upto(ALPHA.len(), maxlen, |idx| {
            *i += 1;
            if !ctx.mine(*i) {
                return;
            }
            let s: Vec<u8> = idx.iter().map(|&k| ALPHA[k]).collect();
            let bytes = if framed { pb::frame(&s) } else { s };
            for side in [true, false] {
                out.evaluations += 1;
                match hostile_case(&mut cx, side, &bytes) {
                    Ok(Class::Err) => {
                        out.count("str_err", 1);
                        out.nontrivial(&format!("b{side}{bytes:?}"));
                    }
                    Ok(Class::Ok) => {
                        out.count("str_ok", 1);
                        out.nontrivial(&format!("b{side}{bytes:?}"));
                    }
                    Ok(Class::NeedMore) => out.count("str_need_more", 1),
                    Err(m) => out.violation(mc::bfs::signature_of(&m), m, json!({"kind":"bytes","req_side":side,"bytes":bytes})),
                }
            }
        });
    };
    strings(raw_len, false, &mut out, &mut i);
    strings(framed_len, true, &mut out, &mut i);
    // ---- 7. configured max_packet_size through the real upgrade streams, both directions
    if ctx.worker.map_or(true, |w| w.0 == 0) {
        for max in SIZE_CONFIGS {
            for kind in 0..3u8 {
                for b in SIZE_BOUNDARIES {
                    for target in [b - 1, b, b + 1] {
                        let Some(v) = value_len_for(kind, target) else {
                            out.machinery(format!("no value length gives a body of {target} bytes for kind {kind}"));
                            continue;
                        };
                        out.evaluations += 1;
                        let case = json!({"kind":"size","msg_kind":kind,"value_len":v,"max":max});
                        match mc::catch(|| size_case(kind, v, max)).unwrap_or_else(|p| Err(format!("upgrade-stream-panic :: {p}"))) {
                            Ok(class) => {
                                out.count(&format!("size_{class}"), 1);
                                if class == "fits-roundtrip" && target > 16 * 1024 {
                                    out.count("size_above_16k_fits", 1);
                                }
                                out.nontrivial(&format!("sz{kind}.{target}.{max:?}"));
                            }
                            Err(m) => out.violation(mc::bfs::signature_of(&m), m, case),
                        }
                    }
                }
            }
        }
        out.sample(json!({"kind":"size","configs":["default","4096","65536"],"body_sizes":"{4096,16384,65536} -1/0/+1","messages":["req-put-value","res-get-value","res-put-value"]}));
    }
    // ---- 6. length prefixes around the packet limit (16 KiB) and over-long varints
    if ctx.worker.map_or(true, |w| w.0 == 0) {
        const MAX: u64 = 16 * 1024;
        let mut extra: Vec<Vec<u8>> = vec![pb::varint_vec(MAX + 1), pb::varint_vec(u32::MAX as u64), pb::varint_vec(1 << 63), pb::varint_vec(u64::MAX), vec![0xff; 10], vec![0x80; 11], vec![0x80, 0x00]];
        for l in [MAX, MAX + 1] {
            // a complete frame of exactly / just above the limit: a FindNode-shaped message whose key fills it
            let body = WMsg { ty: 4, key: vec![0x55; (l - 7) as usize], cluster: 10, ..Default::default() }.body();
            assert_eq!(body.len() as u64, l, "filler arithmetic");
            extra.push(pb::frame(&body));
        }
        for bytes in &extra {
            for side in [true, false] {
                out.evaluations += 1;
                let within = pb::read_varint(bytes).map_or(false, |(l, _)| l <= MAX);
                match hostile_case(&mut cx, side, bytes) {
                    Ok(Class::Ok) if !within => out.violation(format!("limit-not-enforced:{}", if side { "req" } else { "res" }), format!("a frame declaring more than {MAX} bytes was decoded (prefix {})", hex(&bytes[..bytes.len().min(10)])), json!({"kind":"bytes","req_side":side,"bytes":bytes})),
                    Ok(Class::Ok) => out.count("limit_ok_at_max", 1),
                    Ok(Class::Err) => {
                        out.count("limit_err", 1);
                        out.nontrivial(&format!("L{side}{}", hex(&bytes[..bytes.len().min(12)])));
                    }
                    Ok(Class::NeedMore) => out.count("limit_need_more", 1),
                    Err(m) => out.violation(mc::bfs::signature_of(&m), m, json!({"kind":"bytes","req_side":side,"bytes":bytes})),
                }
            }
        }
    }
    out.sample(json!({"kind":"byte-strings","alphabet":ALPHA,"raw_max_len":raw_len,"framed_body_max_len":framed_len}));
    out
}

fn replay(case: &Value, out: &mut Outcome) {
    out.evaluations = 1;
    let mut cx = Codecs::new();
    let mut errs: Vec<String> = Vec::new();
    match case["kind"].as_str() {
        Some("rt") => match serde_json::from_value::<TMsg>(case["msg"].clone()) {
            Ok(t) => errs = rt_case(&mut cx, &t, &mut NormStats::default()),
            Err(e) => errs.push(format!("bad replay case: {e}")),
        },
        Some("inject") => match serde_json::from_value::<TMsg>(case["msg"].clone()) {
            Ok(t) => {
                let g = |k: &str| case[k].as_u64().unwrap_or(0) as usize;
                if let Err(m) = inject_case(&mut cx, &t, g("peer"), g("pos"), g("bad").min(BAD_ADDRS.len() - 1)) {
                    errs.push(m);
                }
            }
            Err(e) => errs.push(format!("bad replay case: {e}")),
        },
        Some("wire") => match serde_json::from_value::<WMsg>(case["wmsg"].clone()) {
            Ok(w) => {
                if let Err(m) = hostile_case(&mut cx, case["req_side"].as_bool().unwrap_or(true), &w.framed()) {
                    errs.push(m);
                }
            }
            Err(e) => errs.push(format!("bad replay case: {e}")),
        },
        Some("size") => {
            let kind = case["msg_kind"].as_u64().unwrap_or(0) as u8;
            let v = case["value_len"].as_u64().unwrap_or(0) as usize;
            let max = case["max"].as_u64().map(|m| m as usize);
            if let Err(m) = mc::catch(|| size_case(kind, v, max)).unwrap_or_else(|p| Err(format!("upgrade-stream-panic :: {p}"))) {
                errs.push(m);
            }
        }
        Some("bytes") => {
            let bytes: Vec<u8> = serde_json::from_value(case["bytes"].clone()).unwrap_or_default();
            if let Err(m) = hostile_case(&mut cx, case["req_side"].as_bool().unwrap_or(true), &bytes) {
                errs.push(m);
            }
        }
        _ => errs.push("bad replay case".into()),
    }
    for m in errs {
        out.violation(mc::bfs::signature_of(&m), m, case.clone());
    }
}
