//! `mc` — engines and deterministic runtime shared by every check (DESIGN §2).
pub mod bfs;
pub mod choice;
pub mod enumerate;
pub mod report;
pub mod shim;

pub use report::{main_dispatch, workers, Budget, CheckFn, Ctx, Meta, Outcome, Tier};
pub use serde_json::{json, Value};
pub use shim::{catch, entropy, isolated, vclock};
