//! E2 — explicit-state breadth-first search over action histories of the real code.
//! A state is represented by the history that reaches it; successors are produced either by
//! cloning the live object (`Clone` subjects) or by replaying the history on a fresh object.
//!
//! Violations do not stop the search: the offending path is not extended, the (shortest)
//! history per *signature* is kept, and the search goes on so that a known finding cannot hide
//! a different violation. Convention: an error message `"SIG :: details"` has signature `SIG`.

use crate::report::Outcome;
use serde::{de::DeserializeOwned, Serialize};
use serde_json::{json, Value};
use std::collections::HashSet;
use std::hash::{Hash, Hasher};

pub trait System {
    type Action: Clone + std::fmt::Debug + Serialize + DeserializeOwned;
    /// enabled actions in this state (finite menu)
    fn actions(&self) -> Vec<Self::Action>;
    /// apply the action on the real code; check step-level oracles; Err = violation
    fn step(&mut self, a: &Self::Action) -> Result<(), String>;
    /// canonical key: complete reference-model state + every observable projection of the impl
    fn canon(&self) -> Vec<u8>;
    /// state invariant, evaluated in every reached state
    fn invariant(&self) -> Result<(), String> {
        Ok(())
    }
    /// is this state "interesting" (non-trivial) for the vacuity guard? default: every state
    fn nontrivial(&self) -> bool {
        true
    }
}

#[derive(Clone, Debug, Default)]
pub struct BfsStats {
    pub states: u64,
    pub transitions: u64,
    pub depth_completed: usize,
    pub max_frontier: usize,
    pub capped: bool,
    pub samples: Vec<String>,
    pub nontrivial_states: u64,
    /// fingerprints of the distinct non-trivial states (bounded)
    pub nontrivial_keys: Vec<u64>,
}

#[derive(Clone, Debug)]
pub struct Violation<A> {
    pub history: Vec<A>,
    pub message: String,
}

pub fn signature_of(msg: &str) -> String {
    match msg.split_once(" :: ") {
        Some((s, _)) => s.to_string(),
        None => msg.chars().take(160).collect(),
    }
}

struct Collector<A> {
    v: Vec<Violation<A>>,
    sigs: HashSet<String>,
}
impl<A> Collector<A> {
    fn new() -> Self {
        Collector { v: Vec::new(), sigs: HashSet::new() }
    }
    fn add(&mut self, history: Vec<A>, message: String) {
        if self.sigs.insert(signature_of(&message)) && self.v.len() < 64 {
            self.v.push(Violation { history, message });
        }
    }
    fn full(&self) -> bool {
        self.v.len() >= 64
    }
}

pub fn h128(b: &[u8]) -> u128 {
    let mut h1 = std::collections::hash_map::DefaultHasher::new();
    b.hash(&mut h1);
    let mut h2 = std::collections::hash_map::DefaultHasher::new();
    0xa5a5u16.hash(&mut h2);
    b.hash(&mut h2);
    ((h1.finish() as u128) << 64) | h2.finish() as u128
}

fn guarded<S: System>(s: &mut S, a: &S::Action) -> Result<(), String> {
    match crate::shim::catch(|| s.step(a)) {
        Ok(r) => r,
        Err(p) => Err(format!("panic at {} :: {p}", crate::shim::last_panic_loc().unwrap_or_default())),
    }
}

/// BFS by replay: `make()` builds a fresh initial system; a state is rebuilt by replaying its
/// history. `max_states` caps the number of distinct states (0 = no cap).
pub fn bfs_replay<S, M>(make: M, depth: usize, max_states: u64) -> (BfsStats, Vec<Violation<S::Action>>)
where
    S: System,
    M: Fn() -> S,
{
    let mut st = BfsStats::default();
    let mut col = Collector::new();
    let mut seen: HashSet<u128> = HashSet::new();
    let s0 = make();
    if let Err(m) = s0.invariant() {
        col.add(vec![], m);
        return (st, col.v);
    }
    seen.insert(h128(&s0.canon()));
    st.states = 1;
    let mut frontier: Vec<Vec<S::Action>> = vec![vec![]];
    'outer: for d in 0..depth {
        let mut next: Vec<Vec<S::Action>> = Vec::new();
        st.max_frontier = st.max_frontier.max(frontier.len());
        for hist in frontier {
            let rebuild = |st_: &mut Collector<S::Action>| -> Option<S> {
                let mut s = make();
                for (i, a) in hist.iter().enumerate() {
                    if let Err(m) = guarded(&mut s, a) {
                        st_.add(hist[..=i].to_vec(), format!("NONDETERMINISM replay diverged :: {m}"));
                        return None;
                    }
                }
                Some(s)
            };
            let Some(base) = rebuild(&mut col) else { continue };
            let acts = base.actions();
            let mut base = Some(base);
            for (ai, a) in acts.iter().enumerate() {
                let s = if ai == 0 { base.take() } else { rebuild(&mut col) };
                let Some(mut s) = s else { continue };
                st.transitions += 1;
                let mut h2 = hist.clone();
                h2.push(a.clone());
                if let Err(m) = guarded(&mut s, a) {
                    col.add(h2, m);
                    continue;
                }
                if let Err(m) = s.invariant() {
                    col.add(h2, m);
                    continue;
                }
                let hk = h128(&s.canon());
                if seen.insert(hk) {
                    st.states += 1;
                    if s.nontrivial() {
                        st.nontrivial_states += 1;
                        if st.nontrivial_keys.len() < 200_000 {
                            st.nontrivial_keys.push(hk as u64);
                        }
                    }
                    if st.samples.len() < 4 && (st.states % 97 == 3 || d + 1 == depth) {
                        st.samples.push(format!("{:?}", h2));
                    }
                    next.push(h2);
                    if max_states != 0 && st.states >= max_states {
                        st.capped = true;
                        break 'outer;
                    }
                }
            }
            if col.full() {
                st.capped = true;
                break 'outer;
            }
        }
        st.depth_completed = d + 1;
        frontier = next;
        if frontier.is_empty() {
            break;
        }
    }
    (st, col.v)
}

/// BFS for `Clone` systems (no replay).
pub fn bfs_clone<S>(s0: S, depth: usize, max_states: u64) -> (BfsStats, Vec<Violation<S::Action>>)
where
    S: System + Clone,
{
    let mut st = BfsStats::default();
    let mut col = Collector::new();
    let mut seen: HashSet<u128> = HashSet::new();
    if let Err(m) = s0.invariant() {
        col.add(vec![], m);
        return (st, col.v);
    }
    seen.insert(h128(&s0.canon()));
    st.states = 1;
    let mut frontier: Vec<(S, Vec<S::Action>)> = vec![(s0, vec![])];
    'outer: for d in 0..depth {
        let mut next = Vec::new();
        st.max_frontier = st.max_frontier.max(frontier.len());
        for (base, hist) in frontier {
            for a in base.actions() {
                let mut s = base.clone();
                st.transitions += 1;
                let mut h2 = hist.clone();
                h2.push(a.clone());
                if let Err(m) = guarded(&mut s, &a) {
                    col.add(h2, m);
                    continue;
                }
                if let Err(m) = s.invariant() {
                    col.add(h2, m);
                    continue;
                }
                let hk = h128(&s.canon());
                if seen.insert(hk) {
                    st.states += 1;
                    if s.nontrivial() {
                        st.nontrivial_states += 1;
                        if st.nontrivial_keys.len() < 200_000 {
                            st.nontrivial_keys.push(hk as u64);
                        }
                    }
                    if st.samples.len() < 4 && (st.states % 97 == 3 || d + 1 == depth) {
                        st.samples.push(format!("{:?}", h2));
                    }
                    next.push((s, h2));
                    if max_states != 0 && st.states >= max_states {
                        st.capped = true;
                        break 'outer;
                    }
                }
            }
            if col.full() {
                st.capped = true;
                break 'outer;
            }
        }
        st.depth_completed = d + 1;
        frontier = next;
        if frontier.is_empty() {
            break;
        }
    }
    (st, col.v)
}

/// Un-deduplicated DFS companion: every action sequence up to `depth`, no merging, invariant
/// and step oracles checked on every path (covers paths the BFS pruned after merging states,
/// bounding the risk of an unsound canonical key). Returns (#sequences, capped, violations).
pub fn dfs_all<S, M>(make: M, depth: usize, cap: u64) -> (u64, bool, Vec<Violation<S::Action>>)
where
    S: System,
    M: Fn() -> S,
{
    let mut count = 0u64;
    let mut col = Collector::new();
    let mut stack: Vec<Vec<S::Action>> = vec![vec![]];
    'outer: while let Some(hist) = stack.pop() {
        let mut s = make();
        for (i, a) in hist.iter().enumerate() {
            if let Err(m) = guarded(&mut s, a) {
                col.add(hist[..=i].to_vec(), m);
                continue 'outer;
            }
        }
        if let Err(m) = s.invariant() {
            col.add(hist, m);
            continue;
        }
        count += 1;
        if (cap != 0 && count >= cap) || col.full() {
            return (count, true, col.v);
        }
        if hist.len() < depth {
            for a in s.actions().into_iter().rev() {
                let mut h2 = hist.clone();
                h2.push(a);
                stack.push(h2);
            }
        }
    }
    (count, false, col.v)
}

/// Fold a BFS (+ optional DFS companion) result into an `Outcome`. `cfg` is stored in each
/// violation's replay case next to the history.
pub fn record<A: Serialize + std::fmt::Debug>(out: &mut Outcome, cfg: &Value, st: &BfsStats, viols: &[Violation<A>]) {
    out.add_bfs(st);
    let salt = crate::report::hash_str(&cfg.to_string());
    for k in &st.nontrivial_keys {
        out.nontrivial_h(k ^ salt);
    }
    out.count("nontrivial_states", st.nontrivial_states);
    for v in viols {
        let sig = signature_of(&v.message);
        if sig.starts_with("NONDETERMINISM") {
            out.machinery(format!("{} (history {:?})", v.message, v.history));
            continue;
        }
        out.violation(sig, format!("{} after history {:?}", v.message, v.history), json!({"cfg": cfg, "history": v.history}));
    }
}

/// Replay a recorded history on a fresh system; returns the violation message if it reproduces.
pub fn replay_history<S: System>(mut s: S, case: &Value) -> Result<(), String> {
    let hist: Vec<S::Action> = serde_json::from_value(case["history"].clone()).map_err(|e| format!("bad history in replay file: {e}"))?;
    s.invariant()?;
    for a in &hist {
        guarded(&mut s, a)?;
        s.invariant()?;
    }
    Ok(())
}


/// BFS by replay where every rebuild runs as one *isolated execution* (fresh OS thread, entropy
/// stream and virtual clock reset): needed when the subject's observable behaviour depends on
/// hash-map iteration order or on randomness. `make` must also reset any process-global state
/// of the subject (id allocators, timer registries).
pub fn bfs_replay_iso<S, M>(seed: u64, make: M, depth: usize, max_states: u64) -> (BfsStats, Vec<Violation<S::Action>>)
where
    S: System,
    S::Action: Send + Sync,
    M: Fn() -> S + Sync,
{
    struct Node<A> {
        canon: u128,
        nontrivial: bool,
        actions: Vec<A>,
    }
    // run history `h`; Err = violation message, with the index of the failing step
    let eval = |h: &[S::Action]| -> Result<Node<S::Action>, (usize, String)> {
        let r = crate::shim::isolated_scoped(seed, || {
            let mut s = make();
            if h.is_empty() {
                s.invariant().map_err(|m| (0usize, m))?;
            }
            for (i, a) in h.iter().enumerate() {
                let last = i + 1 == h.len();
                s.step(a).map_err(|m| (i, if last { m } else { format!("NONDETERMINISM replay diverged :: {m}") }))?;
                if last {
                    s.invariant().map_err(|m| (i, m))?;
                }
            }
            Ok(Node { canon: h128(&s.canon()), nontrivial: s.nontrivial(), actions: s.actions() })
        });
        match r {
            Ok(v) => v,
            Err(p) => Err((h.len().saturating_sub(1), format!("panic :: {p}"))),
        }
    };
    let mut st = BfsStats::default();
    let mut col = Collector::new();
    let mut seen: HashSet<u128> = HashSet::new();
    let root = match eval(&[]) {
        Ok(n) => n,
        Err((_, m)) => {
            col.add(vec![], m);
            return (st, col.v);
        }
    };
    seen.insert(root.canon);
    st.states = 1;
    let mut frontier: Vec<(Vec<S::Action>, Vec<S::Action>)> = vec![(vec![], root.actions)];
    'outer: for d in 0..depth {
        let mut next = Vec::new();
        st.max_frontier = st.max_frontier.max(frontier.len());
        for (hist, acts) in frontier {
            for a in acts {
                st.transitions += 1;
                let mut h2 = hist.clone();
                h2.push(a);
                match eval(&h2) {
                    Err((i, m)) => col.add(h2[..=i.min(h2.len() - 1)].to_vec(), m),
                    Ok(n) => {
                        if seen.insert(n.canon) {
                            st.states += 1;
                            if n.nontrivial {
                                st.nontrivial_states += 1;
                                if st.nontrivial_keys.len() < 200_000 {
                                    st.nontrivial_keys.push(n.canon as u64);
                                }
                            }
                            if st.samples.len() < 4 && (st.states % 97 == 3 || d + 1 == depth) {
                                st.samples.push(format!("{:?}", h2));
                            }
                            next.push((h2, n.actions));
                            if max_states != 0 && st.states >= max_states {
                                st.capped = true;
                                break 'outer;
                            }
                        }
                    }
                }
            }
            if col.full() {
                st.capped = true;
                break 'outer;
            }
        }
        st.depth_completed = d + 1;
        frontier = next;
        if frontier.is_empty() {
            break;
        }
    }
    (st, col.v)
}

/// Replay a recorded history as one isolated execution.
pub fn replay_history_iso<S: System, M: Fn() -> S + Sync>(seed: u64, make: M, case: &Value) -> Result<(), String>
where
    S::Action: Send + Sync,
{
    let hist: Vec<S::Action> = serde_json::from_value(case["history"].clone()).map_err(|e| format!("bad history in replay file: {e}"))?;
    crate::shim::isolated_scoped(seed, || {
        let mut s = make();
        s.invariant()?;
        for a in &hist {
            s.step(a)?;
            s.invariant()?;
        }
        Ok(())
    })
    .unwrap_or_else(|p| Err(format!("panic :: {p}")))
}
