//! Link-time interposition of `clock_gettime` and `getrandom` so that the harness owns
//! time and entropy (DESIGN §2.2). The symbols are defined in the final executable and
//! therefore win over libc's for every caller in the process (std, getrandom crate, ...).
//!
//! The shims are *armed* only when `arm()` has been called; before that they forward to the
//! kernel, so build scripts / unrelated tooling that happen to link `mc` are unaffected.

use std::sync::atomic::{AtomicBool, AtomicU64, Ordering::SeqCst};

static ARMED: AtomicBool = AtomicBool::new(false);
/// virtual monotonic time in nanoseconds
static VNOW: AtomicU64 = AtomicU64::new(BASE_NS);
/// entropy stream state: (seed, counter)
static ESEED: AtomicU64 = AtomicU64::new(0);
static ECTR: AtomicU64 = AtomicU64::new(0);
/// number of bytes served by the entropy shim (diagnostics)
static ESERVED: AtomicU64 = AtomicU64::new(0);

/// Virtual time starts far from zero so that `Instant - Duration` never underflows.
pub const BASE_NS: u64 = 1_000_000 * 1_000_000_000;

pub fn arm() {
    ARMED.store(true, SeqCst);
}
pub fn is_armed() -> bool {
    ARMED.load(SeqCst)
}

pub mod vclock {
    use super::*;
    use std::time::Duration;
    pub fn reset() {
        VNOW.store(BASE_NS, SeqCst);
    }
    pub fn now_ns() -> u64 {
        VNOW.load(SeqCst)
    }
    /// elapsed virtual time since `reset`
    pub fn elapsed() -> Duration {
        Duration::from_nanos(now_ns() - BASE_NS)
    }
    pub fn advance(d: Duration) {
        VNOW.fetch_add(d.as_nanos() as u64, SeqCst);
    }
    pub fn set_ns(ns: u64) {
        VNOW.store(ns, SeqCst);
    }
}

pub mod entropy {
    use super::*;
    pub fn reset(seed: u64) {
        ESEED.store(seed, SeqCst);
        ECTR.store(0, SeqCst);
    }
    pub fn served() -> u64 {
        ESERVED.load(SeqCst)
    }
}

fn splitmix(mut z: u64) -> u64 {
    z = z.wrapping_add(0x9e3779b97f4a7c15);
    z = (z ^ (z >> 30)).wrapping_mul(0xbf58476d1ce4e5b9);
    z = (z ^ (z >> 27)).wrapping_mul(0x94d049bb133111eb);
    z ^ (z >> 31)
}

fn fill(buf: *mut u8, len: usize) {
    let seed = ESEED.load(SeqCst);
    let mut i = 0usize;
    while i < len {
        let c = ECTR.fetch_add(1, SeqCst);
        let w = splitmix(seed ^ splitmix(c)).to_le_bytes();
        let n = (len - i).min(8);
        unsafe { std::ptr::copy_nonoverlapping(w.as_ptr(), buf.add(i), n) };
        i += n;
    }
    ESERVED.fetch_add(len as u64, SeqCst);
}

#[no_mangle]
pub unsafe extern "C" fn clock_gettime(clk: libc::clockid_t, ts: *mut libc::timespec) -> libc::c_int {
    if ARMED.load(SeqCst) && (clk == libc::CLOCK_MONOTONIC || clk == libc::CLOCK_BOOTTIME || clk == libc::CLOCK_MONOTONIC_RAW || clk == libc::CLOCK_MONOTONIC_COARSE) {
        let now = VNOW.load(SeqCst);
        (*ts).tv_sec = (now / 1_000_000_000) as libc::time_t;
        (*ts).tv_nsec = (now % 1_000_000_000) as _;
        return 0;
    }
    libc::syscall(libc::SYS_clock_gettime, clk as libc::c_long, ts) as libc::c_int
}

#[no_mangle]
pub unsafe extern "C" fn getrandom(buf: *mut libc::c_void, len: libc::size_t, flags: libc::c_uint) -> libc::ssize_t {
    if ARMED.load(SeqCst) {
        fill(buf as *mut u8, len);
        return len as libc::ssize_t;
    }
    libc::syscall(libc::SYS_getrandom, buf, len, flags) as libc::ssize_t
}

/// Some crates (getrandom 0.1/0.2 fallbacks, ring) may use `getentropy`.
#[no_mangle]
pub unsafe extern "C" fn getentropy(buf: *mut libc::c_void, len: libc::size_t) -> libc::c_int {
    if ARMED.load(SeqCst) {
        fill(buf as *mut u8, len);
        return 0;
    }
    let r = libc::syscall(libc::SYS_getrandom, buf, len, 0);
    if r < 0 { -1 } else { 0 }
}

/// Run `f` as one *execution*: on a fresh OS thread (fresh `RandomState` keys and `ThreadRng`),
/// with the entropy counter and the virtual clock reset first. Panics in `f` are returned as Err.
pub fn isolated<T: Send + 'static>(seed: u64, f: impl FnOnce() -> T + Send + 'static) -> Result<T, String> {
    arm();
    entropy::reset(seed);
    vclock::reset();
    let h = std::thread::Builder::new()
        .stack_size(16 << 20)
        .spawn(move || std::panic::catch_unwind(std::panic::AssertUnwindSafe(f)))
        .expect("spawn");
    match h.join() {
        Ok(Ok(v)) => Ok(v),
        Ok(Err(p)) | Err(p) => Err(panic_msg(&p)),
    }
}

/// As `isolated`, for closures that borrow from the caller (scoped thread).
pub fn isolated_scoped<T: Send>(seed: u64, f: impl FnOnce() -> T + Send) -> Result<T, String> {
    arm();
    entropy::reset(seed);
    vclock::reset();
    std::thread::scope(|s| {
        let h = std::thread::Builder::new()
            .stack_size(16 << 20)
            .spawn_scoped(s, move || {
                let r = std::panic::catch_unwind(std::panic::AssertUnwindSafe(f));
                // carry the panic location across the thread boundary
                (r, last_panic_loc())
            })
            .expect("spawn");
        match h.join() {
            Ok((Ok(v), _)) => Ok(v),
            Ok((Err(p), loc)) => Err(format!("{} at {}", panic_msg(&p), loc.unwrap_or_default())),
            Err(p) => Err(panic_msg(&p)),
        }
    })
}

pub fn panic_msg(p: &Box<dyn std::any::Any + Send>) -> String {
    if let Some(s) = p.downcast_ref::<&str>() {
        s.to_string()
    } else if let Some(s) = p.downcast_ref::<String>() {
        s.clone()
    } else {
        "<non-string panic>".to_string()
    }
}

/// catch_unwind wrapper returning the panic message
pub fn catch<T>(f: impl FnOnce() -> T) -> Result<T, String> {
    std::panic::catch_unwind(std::panic::AssertUnwindSafe(f)).map_err(|p| panic_msg(&p))
}

thread_local! {
    pub static LAST_PANIC_LOC: std::cell::RefCell<Option<String>> = const { std::cell::RefCell::new(None) };
}

/// Install a quiet panic hook that records `file:line` of the last panic per thread
/// (used for violation signatures) and prints nothing unless VERIF_VERBOSE is set.
pub fn quiet_panics() {
    let verbose = std::env::var_os("VERIF_VERBOSE").is_some();
    std::panic::set_hook(Box::new(move |info| {
        let loc = info.location().map(|l| format!("{}:{}", l.file(), l.line()));
        LAST_PANIC_LOC.with(|c| *c.borrow_mut() = loc.clone());
        if verbose {
            eprintln!("panic: {info}");
        }
    }));
}

pub fn last_panic_loc() -> Option<String> {
    LAST_PANIC_LOC.with(|c| c.borrow().clone())
}
