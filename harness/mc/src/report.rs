//! Outcome collection, evidence files, violation / known-finding reporting, worker processes.

use serde::{Deserialize, Serialize};
use serde_json::{json, Value};
use std::collections::{BTreeMap, BTreeSet};
use std::time::Instant;

#[derive(Clone, Copy, Debug, PartialEq, Eq)]
pub enum Tier {
    Quick,
    Thorough,
}
impl Tier {
    pub fn pick<T>(self, q: T, t: T) -> T {
        match self {
            Tier::Quick => q,
            Tier::Thorough => t,
        }
    }
    pub fn name(self) -> &'static str {
        self.pick("quick", "thorough")
    }
}

#[derive(Clone, Debug)]
pub struct Ctx {
    pub id: String,
    pub tier: Tier,
    pub seed: u64,
    /// Some((i, n)) when this process is worker i of n
    pub worker: Option<(usize, usize)>,
    /// Some(case) when replaying a recorded violation
    pub replay: Option<Value>,
}
impl Ctx {
    pub fn quick(&self) -> bool {
        self.tier == Tier::Quick
    }
    /// does index `i` of a striped enumeration belong to this worker?
    pub fn mine(&self, i: u64) -> bool {
        match self.worker {
            None => true,
            Some((w, n)) => (i % n as u64) as usize == w,
        }
    }
}

#[derive(Clone, Debug, Serialize, Deserialize)]
pub struct Violation {
    /// stable identification of *what* fails (input / call site / canonical history)
    pub signature: String,
    pub message: String,
    /// everything `--replay` needs to re-execute exactly this case
    pub case: Value,
}

#[derive(Clone, Debug, Default, Serialize, Deserialize)]
pub struct Outcome {
    pub evaluations: u64,
    pub states: u64,
    pub transitions: u64,
    /// executions of the real implementation (each explored trace is an implementation trace)
    pub traces: u64,
    /// hashes of distinct non-trivial cases (bounded; see `nontrivial_overflow`)
    pub nontrivial: BTreeSet<u64>,
    pub nontrivial_overflow: u64,
    pub samples: Vec<Value>,
    pub violations: Vec<Violation>,
    pub counters: BTreeMap<String, u64>,
    pub caps: Vec<String>,
    pub not_exhaustive: bool,
    pub notes: Vec<String>,
    pub machinery_errors: Vec<String>,
}

const NONTRIVIAL_CAP: usize = 2_000_000;

pub fn hash_str(s: &str) -> u64 {
    let mut h: u64 = 0xcbf29ce484222325;
    for b in s.as_bytes() {
        h ^= *b as u64;
        h = h.wrapping_mul(0x100000001b3);
    }
    h
}

impl Outcome {
    pub fn count(&mut self, k: &str, n: u64) {
        *self.counters.entry(k.to_string()).or_insert(0) += n;
    }
    pub fn max(&mut self, k: &str, n: u64) {
        let e = self.counters.entry(k.to_string()).or_insert(0);
        *e = (*e).max(n);
    }
    pub fn get(&self, k: &str) -> u64 {
        self.counters.get(k).copied().unwrap_or(0)
    }
    /// record a distinct non-trivial case by a string that identifies it
    pub fn nontrivial(&mut self, key: &str) {
        self.nontrivial_h(hash_str(key));
    }
    pub fn nontrivial_h(&mut self, h: u64) {
        if self.nontrivial.len() < NONTRIVIAL_CAP {
            self.nontrivial.insert(h);
        } else if !self.nontrivial.contains(&h) {
            self.nontrivial_overflow += 1; // conservative: not added to the distinct count
        }
    }
    pub fn sample(&mut self, v: Value) {
        if self.samples.len() < 5 {
            self.samples.push(v);
        }
    }
    /// record a violation (first case per signature is kept; at most 64 signatures)
    pub fn violation(&mut self, signature: impl Into<String>, message: impl Into<String>, case: Value) {
        let signature = signature.into();
        if self.violations.iter().any(|v| v.signature == signature) {
            return;
        }
        if self.violations.len() < 64 {
            self.violations.push(Violation { signature, message: message.into(), case });
        }
    }
    pub fn machinery(&mut self, m: impl Into<String>) {
        let m = m.into();
        if self.machinery_errors.len() < 16 && !self.machinery_errors.contains(&m) {
            self.machinery_errors.push(m);
        }
    }
    pub fn merge(&mut self, o: Outcome) {
        self.evaluations += o.evaluations;
        self.states += o.states;
        self.transitions += o.transitions;
        self.traces += o.traces;
        for h in o.nontrivial {
            self.nontrivial_h(h);
        }
        self.nontrivial_overflow += o.nontrivial_overflow;
        for s in o.samples {
            self.sample(s);
        }
        for v in o.violations {
            self.violation(v.signature, v.message, v.case);
        }
        for (k, n) in o.counters {
            if k.starts_with("max_") {
                self.max(&k, n);
            } else {
                self.count(&k, n);
            }
        }
        for c in o.caps {
            if !self.caps.contains(&c) {
                self.caps.push(c);
            }
        }
        self.not_exhaustive |= o.not_exhaustive;
        for n in o.notes {
            if !self.notes.contains(&n) {
                self.notes.push(n);
            }
        }
        for m in o.machinery_errors {
            self.machinery(m);
        }
    }
    /// fold E1 explorer statistics in
    pub fn add_explore(&mut self, st: &crate::choice::ExploreStats) {
        self.evaluations += st.executions;
        self.traces += st.executions;
        self.states += st.choice_points.max(1);
        self.transitions += st.choice_points.max(1);
        self.count("executions", st.executions);
        self.count("choice_points", st.choice_points);
        self.max("max_trace_len", st.max_trace_len as u64);
        self.max("max_deviation_bound_completed", st.bound as u64);
        self.count("selftest_reexecutions", st.selftested);
        if st.capped {
            self.caps.push(format!("execution cap hit at deviation bound {}", st.bound));
            self.not_exhaustive = true;
        }
    }
    pub fn add_bfs(&mut self, st: &crate::bfs::BfsStats) {
        self.states += st.states;
        self.transitions += st.transitions;
        self.evaluations += st.transitions;
        self.traces += st.transitions;
        self.max("max_depth_completed", st.depth_completed as u64);
        self.max("max_frontier", st.max_frontier as u64);
        for s in &st.samples {
            self.sample(json!(s));
        }
        if st.capped {
            self.caps.push(format!("state cap hit after completing depth {}", st.depth_completed));
            self.not_exhaustive = true;
        }
    }
}

pub struct Meta {
    pub level: &'static str,
    pub rule: &'static str,
    pub explanation: &'static str,
    pub assumptions: &'static [&'static str],
}

#[derive(Deserialize, Default)]
struct KnownFile {
    #[serde(default)]
    findings: Vec<KnownFinding>,
}
#[derive(Deserialize)]
struct KnownFinding {
    property: String,
    signature: String,
    what: String,
}

fn verif_root() -> std::path::PathBuf {
    std::env::var_os("VERIF_ROOT").map(Into::into).unwrap_or_else(|| "/verif".into())
}

/// Run `f(i, n)` in `n` worker processes (re-executing the current binary with the same
/// arguments and `VH_WORKER=i/n`) and merge their outcomes. In a worker process this function
/// runs `f` for its own index, prints the outcome and exits.
pub fn workers(ctx: &Ctx, n: usize, f: impl Fn(&Ctx) -> Outcome) -> Outcome {
    if ctx.replay.is_some() || n <= 1 {
        return f(ctx);
    }
    // A check may call `workers` several times (phases). The parent tags the workers of its k-th
    // call with VH_PHASE=k; a worker skips the calls before its phase (they belong to other
    // worker sets) and runs + exits at its own.
    static CALLS: std::sync::atomic::AtomicUsize = std::sync::atomic::AtomicUsize::new(0);
    let phase = CALLS.fetch_add(1, std::sync::atomic::Ordering::SeqCst);
    if ctx.worker.is_some() {
        let mine: usize = std::env::var("VH_PHASE").ok().and_then(|v| v.parse().ok()).unwrap_or(0);
        if phase != mine {
            return Outcome::default();
        }
        let o = f(ctx);
        println!("@@OUTCOME {}", serde_json::to_string(&o).unwrap());
        std::process::exit(0);
    }
    let exe = std::env::current_exe().expect("current_exe");
    let args: Vec<String> = std::env::args().skip(1).collect();
    let mut kids = Vec::new();
    for i in 0..n {
        let child = std::process::Command::new(&exe)
            .args(&args)
            .env("VH_WORKER", format!("{i}/{n}"))
            .env("VH_PHASE", phase.to_string())
            .stdout(std::process::Stdio::piped())
            .stderr(std::process::Stdio::inherit())
            .spawn()
            .expect("spawn worker");
        kids.push(child);
    }
    let mut total = Outcome::default();
    for (i, k) in kids.into_iter().enumerate() {
        let out = k.wait_with_output().expect("wait worker");
        let text = String::from_utf8_lossy(&out.stdout);
        let line = text.lines().rev().find(|l| l.starts_with("@@OUTCOME "));
        match line {
            Some(l) if out.status.success() => match serde_json::from_str::<Outcome>(&l[10..]) {
                Ok(o) => total.merge(o),
                Err(e) => total.machinery(format!("worker {i}: unparsable outcome: {e}")),
            },
            _ => total.machinery(format!("worker {i} died: status {:?}; last output: {}", out.status, text.lines().last().unwrap_or(""))),
        }
    }
    total
}

/// Write the evidence file, print VIOLATION / KNOWN-FINDING lines, return the exit code.
pub fn finish(ctx: &Ctx, meta: &Meta, out: Outcome, t0: Instant, real_secs: f64) -> i32 {
    let root = verif_root();
    let known: KnownFile = std::fs::read_to_string(root.join("known_findings.json"))
        .ok()
        .and_then(|s| serde_json::from_str(&s).ok())
        .unwrap_or_default();
    let _ = t0;
    let mut new_violations = 0;
    let mut known_hits = Vec::new();
    let mut lines = Vec::new();
    for v in &out.violations {
        if let Some(k) = known.findings.iter().find(|k| k.property == ctx.id && k.signature == v.signature) {
            lines.push(format!("KNOWN-FINDING: property={} {} [{}]", ctx.id, k.what, v.signature));
            known_hits.push(v.signature.clone());
        } else {
            new_violations += 1;
            let dir = root.join("replays");
            let _ = std::fs::create_dir_all(&dir);
            let path = dir.join(format!("{}-{:016x}.json", ctx.id, hash_str(&v.signature)));
            let body = json!({"property": ctx.id, "signature": v.signature, "message": v.message, "case": v.case, "tier": ctx.tier.name(), "seed": ctx.seed});
            let _ = std::fs::write(&path, serde_json::to_string_pretty(&body).unwrap());
            lines.push(format!("VIOLATION property={} replay={}", ctx.id, path.display()));
            eprintln!("  violation [{}]: {}", v.signature, v.message);
        }
    }
    let distinct = out.nontrivial.len() as u64;
    let exhaustive = !out.not_exhaustive && out.caps.is_empty();
    let mut cov = serde_json::Map::new();
    cov.insert("evaluations".into(), json!(out.evaluations.max(out.traces)));
    cov.insert("distinct_nontrivial".into(), json!(distinct));
    cov.insert("rule".into(), json!(meta.rule));
    cov.insert("samples".into(), json!(out.samples));
    if meta.level == "model_checking" {
        cov.insert("states".into(), json!(out.states));
        cov.insert("transitions".into(), json!(out.transitions));
        cov.insert("traces_validated_against_impl".into(), json!(out.traces));
    }
    cov.insert("explanation".into(), json!(meta.explanation));
    cov.insert("exhaustive".into(), json!(exhaustive));
    cov.insert("caps_hit".into(), json!(out.caps));
    cov.insert("counters".into(), json!(out.counters));
    cov.insert("notes".into(), json!(out.notes));
    cov.insert("known_findings_reproduced".into(), json!(known_hits));
    if out.nontrivial_overflow > 0 {
        cov.insert("distinct_nontrivial_note".into(), json!(format!("distinct set capped at {NONTRIVIAL_CAP}; {} further (possibly repeated) non-trivial cases not counted", out.nontrivial_overflow)));
    }
    let mut machinery = out.machinery_errors.clone();
    if ctx.replay.is_none() {
        if out.evaluations.max(out.traces) == 0 {
            machinery.push("vacuous: zero evaluations".into());
        }
        if distinct < 2 {
            machinery.push(format!("vacuity guard: only {distinct} distinct non-trivial cases"));
        }
        if out.samples.is_empty() {
            machinery.push("no samples recorded".into());
        }
    }
    let ev = json!({
        "property_id": ctx.id,
        "tier": ctx.tier.name(),
        "seed": ctx.seed,
        "level": meta.level,
        "coverage": Value::Object(cov),
        "assumptions": meta.assumptions,
        "wall_s": real_secs,
        "violations": new_violations,
        "machinery_errors": machinery,
    });
    if ctx.replay.is_none() {
        let dir = root.join("evidence");
        let _ = std::fs::create_dir_all(&dir);
        let path = dir.join(format!("{}.json", ctx.id));
        if let Err(e) = std::fs::write(&path, serde_json::to_string_pretty(&ev).unwrap()) {
            eprintln!("cannot write evidence {}: {e}", path.display());
            return 2;
        }
    }
    for l in &lines {
        println!("{l}");
    }
    println!(
        "{} {} seed={} evaluations={} states={} transitions={} distinct_nontrivial={} exhaustive={} violations={} known={} wall={:.1}s",
        ctx.id,
        ctx.tier.name(),
        ctx.seed,
        out.evaluations.max(out.traces),
        out.states,
        out.transitions,
        distinct,
        exhaustive,
        new_violations,
        known_hits.len(),
        real_secs
    );
    if new_violations > 0 {
        return 1;
    }
    if !machinery.is_empty() {
        for m in &machinery {
            eprintln!("MACHINERY-ERROR {}: {m}", ctx.id);
        }
        return 2;
    }
    0
}

pub type CheckFn = fn(&Ctx) -> Outcome;

/// `main` of a family binary: `<bin> <Cxx> <quick|thorough>` or `<bin> replay <file>`.
pub fn main_dispatch(checks: &[(&'static str, CheckFn, Meta)]) -> ! {
    // real wall clock must be measured before arming the shim
    let real0 = real_now();
    crate::shim::quiet_panics();
    let args: Vec<String> = std::env::args().collect();
    let seed: u64 = std::env::var("VERIF_SEED").ok().and_then(|s| s.parse().ok()).unwrap_or(0);
    let worker = std::env::var("VH_WORKER").ok().and_then(|s| {
        let (a, b) = s.split_once('/')?;
        Some((a.parse().ok()?, b.parse().ok()?))
    });
    let (id, tier, replay) = if args.get(1).map(|s| s.as_str()) == Some("replay") {
        let text = std::fs::read_to_string(&args[2]).expect("read replay file");
        let v: Value = serde_json::from_str(&text).expect("parse replay file");
        (v["property"].as_str().unwrap().to_string(), Tier::Quick, Some(v["case"].clone()))
    } else if args.len() >= 3 {
        let tier = match args[2].as_str() {
            "quick" => Tier::Quick,
            "thorough" => Tier::Thorough,
            t => {
                eprintln!("unknown tier {t}");
                std::process::exit(2)
            }
        };
        (args[1].clone(), tier, None)
    } else {
        eprintln!("usage: {} <Cxx> <quick|thorough> | replay <file>; checks: {:?}", args[0], checks.iter().map(|c| c.0).collect::<Vec<_>>());
        std::process::exit(2)
    };
    let Some((_, f, meta)) = checks.iter().find(|c| c.0 == id) else {
        eprintln!("unknown check {id}");
        std::process::exit(2)
    };
    let ctx = Ctx { id: id.clone(), tier, seed, worker, replay };
    // Watchdog on the *real* clock: a subject that livelocks (e.g. under a mutation) must not hang
    // the check for ever. Expiry is a machinery error (exit 2), never a verdict.
    {
        let limit: f64 = std::env::var("VERIF_TIMEOUT_S").ok().and_then(|v| v.parse().ok()).unwrap_or(match tier {
            Tier::Quick => 900.0,
            Tier::Thorough => 3.0 * 3600.0,
        });
        let idw = id.clone();
        std::thread::spawn(move || loop {
            unsafe { libc::usleep(500_000) };
            if real_now() - real0 > limit {
                eprintln!("MACHINERY-ERROR {idw}: wall-clock limit of {limit}s exceeded (livelock in the subject or the harness?)");
                unsafe { libc::_exit(2) };
            }
        });
    }
    crate::shim::arm();
    let t0 = Instant::now();
    let out = match crate::shim::catch(|| f(&ctx)) {
        Ok(o) => o,
        Err(p) => {
            let mut o = Outcome::default();
            o.machinery(format!("check body panicked: {p} at {:?}", crate::shim::last_panic_loc()));
            o
        }
    };
    if ctx.worker.is_some() {
        println!("@@OUTCOME {}", serde_json::to_string(&out).unwrap());
        std::process::exit(0);
    }
    let secs = real_now() - real0;
    if ctx.replay.is_some() {
        // replay: report the verdict for that one case
        if out.violations.is_empty() {
            println!("REPLAY property={id}: case passes (no violation)");
            std::process::exit(0);
        }
        for v in &out.violations {
            println!("REPLAY property={id}: VIOLATION reproduced [{}]: {}", v.signature, v.message);
        }
        std::process::exit(1);
    }
    std::process::exit(finish(&ctx, meta, out, t0, secs))
}

/// real (not virtual) wall clock in seconds, by raw syscall on CLOCK_REALTIME
pub fn real_now() -> f64 {
    let mut ts = libc::timespec { tv_sec: 0, tv_nsec: 0 };
    unsafe { libc::syscall(libc::SYS_clock_gettime, libc::CLOCK_REALTIME as libc::c_long, &mut ts) };
    ts.tv_sec as f64 + ts.tv_nsec as f64 * 1e-9
}

/// Deadline helper on the *real* clock (virtual time does not advance by itself).
pub struct Budget {
    end: f64,
}
impl Budget {
    pub fn secs(s: f64) -> Self {
        Budget { end: real_now() + s }
    }
    pub fn exceeded(&self) -> bool {
        real_now() > self.end
    }
}
