//! E1 — choice-sequence explorer: stateless, deviation-bounded depth-first search
//! (iterative context bounding à la CHESS). The harness body calls `ch.choose(n)` wherever the
//! environment / scheduler has a choice; `0` is the default answer. The explorer replays a
//! recorded prefix, answers `0` afterwards, and branches on every later choice point whose
//! accumulated deviation cost stays within the bound.

#[derive(Clone, Debug, Default)]
pub struct Chooser {
    prefix: Vec<u32>,
    /// (chosen, arity, cost-of-deviation)
    pub trace: Vec<(u32, u32, u32)>,
    /// hard error: replay of the prefix met a different arity than recorded
    pub diverged: Option<String>,
    expect_arity: Vec<u32>,
    pub labels: Vec<&'static str>,
    /// running digest of everything the body chose to `observe` (determinism self-test)
    pub obs_digest: u64,
}

impl Chooser {
    pub fn new(prefix: Vec<u32>) -> Self {
        Chooser { prefix, ..Default::default() }
    }
    pub fn with_expect(prefix: Vec<u32>, arity: Vec<u32>) -> Self {
        Chooser { prefix, expect_arity: arity, ..Default::default() }
    }
    /// choose one of `n` alternatives (n >= 1); alternative 0 is the default.
    pub fn choose(&mut self, n: usize) -> usize {
        self.choose_l(n, 1, "")
    }
    /// as `choose`, but a non-default answer costs `cost` deviations (0 = free branching)
    pub fn choose_l(&mut self, n: usize, cost: u32, label: &'static str) -> usize {
        assert!(n >= 1, "choose(0)");
        let i = self.trace.len();
        let c = if i < self.prefix.len() {
            let c = self.prefix[i];
            if let Some(&a) = self.expect_arity.get(i) {
                if a != n as u32 && self.diverged.is_none() {
                    self.diverged = Some(format!("choice {i}: arity {n} on replay, {a} recorded"));
                }
            }
            if c as usize >= n {
                if self.diverged.is_none() {
                    self.diverged = Some(format!("choice {i}: recorded {c} out of range {n}"));
                }
                0
            } else {
                c
            }
        } else {
            0
        };
        self.trace.push((c, n as u32, cost));
        self.labels.push(label);
        c as usize
    }
    /// feed an observation into the execution's digest (compared by the determinism self-test)
    pub fn observe(&mut self, s: &str) {
        let mut h = self.obs_digest ^ 0xcbf29ce484222325;
        for b in s.as_bytes() {
            h ^= *b as u64;
            h = h.wrapping_mul(0x100000001b3);
        }
        self.obs_digest = h.rotate_left(7);
    }
    pub fn flip(&mut self) -> bool {
        self.choose(2) == 1
    }
    pub fn choices(&self) -> Vec<u32> {
        self.trace.iter().map(|t| t.0).collect()
    }
    pub fn deviations(&self) -> u32 {
        self.trace.iter().map(|t| if t.0 != 0 { t.2 } else { 0 }).sum()
    }
}

#[derive(Clone, Debug, Default)]
pub struct ExploreStats {
    pub executions: u64,
    pub choice_points: u64,
    pub max_trace_len: usize,
    pub bound: u32,
    pub capped: bool,
    /// executions run twice by the determinism self-test
    pub selftested: u64,
    /// number of distinct observation digests seen (vacuity guard: 1 means nothing collided)
    pub distinct_obs: u64,
}

/// Explore all executions of `body` with at most `bound` deviations. `body` returns
/// `Ok(())` or an error string (a violation); exploration stops at the first violation and
/// returns it with the choice sequence. `cap` limits the number of executions (0 = none);
/// hitting it sets `capped`.
pub fn explore<F>(bound: u32, cap: u64, mut body: F) -> (ExploreStats, Option<(Vec<u32>, String)>)
where
    F: FnMut(&mut Chooser) -> Result<(), String>,
{
    let mut st = ExploreStats { bound, ..Default::default() };
    let selftest_k: u64 = std::env::var("VERIF_SELFTEST_K").ok().and_then(|v| v.parse().ok()).unwrap_or(32);
    let mut digests: std::collections::HashSet<u64> = std::collections::HashSet::new();
    // stack of (prefix, arities of prefix for divergence detection)
    let mut stack: Vec<(Vec<u32>, Vec<u32>)> = vec![(vec![], vec![])];
    while let Some((prefix, ar)) = stack.pop() {
        if cap != 0 && st.executions >= cap {
            st.capped = true;
            break;
        }
        let plen = prefix.len();
        let mut ch = Chooser::with_expect(prefix.clone(), ar.clone());
        let r = body(&mut ch);
        st.executions += 1;
        if digests.len() < 1_000_000 {
            digests.insert(ch.obs_digest);
            st.distinct_obs = digests.len() as u64;
        }
        if st.selftested < selftest_k {
            st.selftested += 1;
            let mut ch2 = Chooser::with_expect(prefix, ar);
            let r2 = body(&mut ch2);
            if ch2.trace != ch.trace || ch2.obs_digest != ch.obs_digest || r2.is_err() != r.is_err() {
                return (st, Some((ch.choices(), format!("NONDETERMINISM: re-running the same choice sequence gave a different trace/observation (len {} vs {}, digest {:x} vs {:x})", ch.trace.len(), ch2.trace.len(), ch.obs_digest, ch2.obs_digest))));
            }
        }
        st.choice_points += ch.trace.len() as u64;
        st.max_trace_len = st.max_trace_len.max(ch.trace.len());
        if let Some(d) = &ch.diverged {
            return (st, Some((ch.choices(), format!("NONDETERMINISM: {d}"))));
        }
        if let Err(e) = r {
            return (st, Some((ch.choices(), e)));
        }
        // cost of the prefix part
        let mut cost: u32 = ch.trace[..plen.min(ch.trace.len())].iter().map(|t| if t.0 != 0 { t.2 } else { 0 }).sum();
        // branch on later points; push in reverse so that earlier points are explored first
        let mut new: Vec<(Vec<u32>, Vec<u32>)> = Vec::new();
        for i in plen..ch.trace.len() {
            let (c, n, k) = ch.trace[i];
            debug_assert_eq!(c, 0);
            if cost + k <= bound {
                for alt in 1..n {
                    let mut p: Vec<u32> = ch.trace[..i].iter().map(|t| t.0).collect();
                    p.push(alt);
                    let mut a: Vec<u32> = ch.trace[..i].iter().map(|t| t.1).collect();
                    a.push(n);
                    new.push((p, a));
                }
            }
            if c != 0 {
                cost += k;
            }
        }
        new.reverse();
        stack.extend(new);
    }
    (st, None)
}

/// Replay one recorded choice sequence.
pub fn replay<F>(choices: &[u32], mut body: F) -> Result<(), String>
where
    F: FnMut(&mut Chooser) -> Result<(), String>,
{
    let mut ch = Chooser::new(choices.to_vec());
    let r = body(&mut ch);
    if let Some(d) = ch.diverged {
        return Err(format!("NONDETERMINISM: {d}"));
    }
    r
}


// ---------------------------------------------------------------------------------------------
// Thread-local "current chooser" so that deep harness components (pipes, schedulers, scripted
// transports) can ask the explorer without threading a reference through every future.

thread_local! {
    static CURRENT: std::cell::RefCell<Option<Chooser>> = const { std::cell::RefCell::new(None) };
}

/// Install `ch` as the thread's current chooser for the duration of `f`.
pub fn scoped<T>(ch: &mut Chooser, f: impl FnOnce() -> T) -> T {
    let prev = CURRENT.with(|c| c.borrow_mut().replace(std::mem::take(ch)));
    struct Restore<'a>(&'a mut Chooser, Option<Chooser>);
    impl Drop for Restore<'_> {
        fn drop(&mut self) {
            let cur = CURRENT.with(|c| std::mem::replace(&mut *c.borrow_mut(), self.1.take()));
            if let Some(cur) = cur {
                *self.0 = cur;
            }
        }
    }
    let _r = Restore(ch, prev);
    f()
}

/// Ask the current chooser (default 0 when none is installed).
pub fn choose(n: usize) -> usize {
    choose_l(n, 1, "")
}
pub fn choose_l(n: usize, cost: u32, label: &'static str) -> usize {
    CURRENT.with(|c| match c.borrow_mut().as_mut() {
        Some(ch) => ch.choose_l(n, cost, label),
        None => 0,
    })
}
pub fn observe(s: &str) {
    CURRENT.with(|c| {
        if let Some(ch) = c.borrow_mut().as_mut() {
            ch.observe(s)
        }
    })
}
