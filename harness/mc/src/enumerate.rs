//! E3 — product / fault enumerators.

/// all sequences over `0..n` of length exactly `len`, as an odometer; calls `f(&[usize])`.
pub fn sequences(n: usize, len: usize, mut f: impl FnMut(&[usize])) {
    if n == 0 && len > 0 {
        return;
    }
    let mut idx = vec![0usize; len];
    loop {
        f(&idx);
        let mut i = len;
        loop {
            if i == 0 {
                return;
            }
            i -= 1;
            idx[i] += 1;
            if idx[i] < n {
                break;
            }
            idx[i] = 0;
        }
    }
}

/// all sequences of length 0..=max_len
pub fn sequences_upto(n: usize, max_len: usize, mut f: impl FnMut(&[usize])) {
    for l in 0..=max_len {
        sequences(n, l, &mut f);
    }
}

/// all multisets (non-decreasing index sequences) of size exactly `k` over `0..n`
pub fn multisets(n: usize, k: usize, mut f: impl FnMut(&[usize])) {
    fn rec(n: usize, k: usize, start: usize, cur: &mut Vec<usize>, f: &mut dyn FnMut(&[usize])) {
        if cur.len() == k {
            f(cur);
            return;
        }
        for i in start..n {
            cur.push(i);
            rec(n, k, i, cur, f);
            cur.pop();
        }
    }
    rec(n, k, 0, &mut Vec::new(), &mut f);
}

/// all subsets of `0..n` as bitmasks
pub fn subsets(n: usize) -> impl Iterator<Item = u64> {
    0..(1u64 << n)
}

/// all permutations of `items` (Heap's algorithm)
pub fn permutations<T: Clone>(items: &[T], mut f: impl FnMut(&[T])) {
    let mut a = items.to_vec();
    let n = a.len();
    let mut c = vec![0usize; n];
    f(&a);
    let mut i = 0;
    while i < n {
        if c[i] < i {
            if i % 2 == 0 {
                a.swap(0, i);
            } else {
                a.swap(c[i], i);
            }
            f(&a);
            c[i] += 1;
            i = 0;
        } else {
            c[i] = 0;
            i += 1;
        }
    }
}

/// all ways to split `len` bytes into at most `k` non-empty consecutive chunks: yields the cut
/// positions (strictly increasing, in 1..len)
pub fn splits(len: usize, k: usize, mut f: impl FnMut(&[usize])) {
    fn rec(len: usize, k: usize, start: usize, cur: &mut Vec<usize>, f: &mut dyn FnMut(&[usize])) {
        f(cur);
        if cur.len() + 1 >= k {
            return;
        }
        for c in start..len {
            cur.push(c);
            rec(len, k, c + 1, cur, f);
            cur.pop();
        }
    }
    rec(len, k, 1, &mut Vec::new(), &mut f);
}

/// chunk `data` at the given cut positions
pub fn chunks_at<'a>(data: &'a [u8], cuts: &[usize]) -> Vec<&'a [u8]> {
    let mut out = Vec::new();
    let mut p = 0;
    for &c in cuts {
        out.push(&data[p..c]);
        p = c;
    }
    out.push(&data[p..]);
    out
}

/// every single-byte mutation: (position, new value) for the given xor masks
pub fn byte_flips(len: usize, masks: &[u8]) -> impl Iterator<Item = (usize, u8)> + '_ {
    (0..len).flat_map(move |p| masks.iter().map(move |m| (p, *m)))
}

pub const BIT_MASKS: [u8; 8] = [1, 2, 4, 8, 16, 32, 64, 128];
