//! C40 — XOR distance is a metric with consistent bucket indices (E3: complete enumeration of
//! all triples over a boundary key set; bucket index laws for every boundary distance).
//!
//! Everything expected is computed independently on `[u8; 32]` (kx.rs); key bytes are read
//! through the derived `Debug` of `KeyBytes`, not through `distance`/`for_distance`.

use crate::kx::{self, B};
use libp2p_kad::verif_kad::kb::{self, Distance, KeyBytes, NodeStatus, Table};
use mc::{json, Ctx, Meta, Outcome, Value};
use std::time::Duration;

pub const META: Meta = Meta {
    level: "exploration",
    rule: "keys = base ^ d for base in {sha256(peer0), 0, 2^256-1 (thorough: + sha256(peer1))} and d in {0,1,2,3, 2^k-1, 2^k, 2^k+1 for k in {7,8,63,64,255} (thorough: + k in {1,15,16,127,128,254}), 2^256-1}; every ordered triple (a,b,c) of the de-duplicated key set is evaluated (identity, symmetry, triangle, unidirectionality, for_distance inverse, Key<PeerId> forwarders); every boundary distance is evaluated for ilog2 / BucketIndex::new / BucketIndex::range / KBucketRef::{range,contains} / position in KBucketsTable::iter after a real insert; the membership predicate KBucketRef::contains of all 256 buckets for the zero distance, every one-bit distance, every two-bit distance (all i < j in 0..256) and three-bit distances with gaps around the 64-bit limb size (1, 63, 64, 65, 128; thorough more): true exactly for the bucket of the highest set bit. Non-trivial = triples of pairwise different keys, and non-zero distances for the bucket laws.",
    explanation: "Complete enumeration (E3) of all triples over the boundary key set and of all boundary distances; expected values are computed with independent 256-bit byte arithmetic.",
    assumptions: &["boundary-structured key set (small-scope): interior bit patterns are represented by sha256(peer) bases", "KeyBytes' derived Debug prints its 32 bytes (validated against Key::hashed_bytes at start)"],
};

fn d_set(thorough: bool) -> Vec<(String, B)> {
    let mut v: Vec<(String, B)> = vec![("0".into(), kx::ZERO), ("1".into(), kx::pow2(0)), ("2".into(), kx::pow2(1)), ("3".into(), kx::inc(&kx::pow2(1)))];
    let mut ks = vec![7usize, 8, 63, 64, 255];
    if thorough {
        ks.extend([15, 16, 127, 128, 254]);
    }
    ks.sort();
    for k in ks {
        let p = kx::pow2(k);
        v.push((format!("2^{k}-1"), kx::dec(&p)));
        v.push((format!("2^{k}"), p));
        v.push((format!("2^{k}+1"), kx::inc(&p)));
    }
    v.push(("MAX".into(), kx::MAX));
    v
}

fn bases(thorough: bool) -> Vec<(String, B)> {
    let mut v = vec![("H(peer0)".to_string(), kx::key_bytes(&kx::peer_keybytes(0))), ("zero".into(), kx::ZERO), ("ones".into(), kx::MAX)];
    if thorough {
        v.push(("H(peer1)".into(), kx::key_bytes(&kx::peer_keybytes(1))));
    }
    v
}

struct K {
    name: String,
    bytes: B,
    key: KeyBytes,
}

fn key_set(thorough: bool, out: &mut Outcome) -> Vec<K> {
    let mut keys: Vec<K> = Vec::new();
    for (bn, bb) in bases(thorough) {
        for (dn, db) in d_set(thorough) {
            let want = kx::xor(&bb, &db);
            if keys.iter().any(|k| k.bytes == want) {
                continue;
            }
            match kx::make_key(&want) {
                Ok(key) => keys.push(K { name: format!("{bn}^{dn}"), bytes: want, key }),
                Err(m) => out.violation(sig(&m), m, json!({"kind": "make", "want": want.to_vec()})),
            }
        }
    }
    keys
}

fn triple(a: &K, b: &K, c: &K) -> Result<(), String> {
    let dab = a.key.distance(&b.key);
    let dba = b.key.distance(&a.key);
    let dbc = b.key.distance(&c.key);
    let dac = a.key.distance(&c.key);
    let e_ab = kx::xor(&a.bytes, &b.bytes);
    let e_bc = kx::xor(&b.bytes, &c.bytes);
    let e_ac = kx::xor(&a.bytes, &c.bytes);
    // value: distance is the XOR of the key bytes read as a big-endian integer
    if kx::dist_bytes(&dab) != e_ab {
        return Err(format!("distance-value :: d({},{}) = {} expected {}", a.name, b.name, kx::hex(&kx::dist_bytes(&dab)), kx::hex(&e_ab)));
    }
    // identity
    let zero = dab == Distance::default();
    if zero != (a.bytes == b.bytes) {
        return Err(format!("identity :: d({},{}) zero={zero} but keys equal={}", a.name, b.name, a.bytes == b.bytes));
    }
    if (a.key == b.key) != (a.bytes == b.bytes) {
        return Err(format!("identity :: KeyBytes == disagrees with bytes for {} {}", a.name, b.name));
    }
    // symmetry
    if dab != dba {
        return Err(format!("symmetry :: d({},{}) != d({},{})", a.name, b.name, b.name, a.name));
    }
    // triangle inequality (33-byte sum, no overflow)
    let sum = kx::add33(&kx::dist_bytes(&dab), &kx::dist_bytes(&dbc));
    if kx::widen(&kx::dist_bytes(&dac)) > sum {
        return Err(format!("triangle :: d({0},{2}) > d({0},{1}) + d({1},{2})", a.name, b.name, c.name));
    }
    // the Ord of Distance is the integer order of the bytes (used by every "closest" sort)
    if dab.cmp(&dac) != e_ab.cmp(&e_ac) || dab.cmp(&dbc) != e_ab.cmp(&e_bc) {
        return Err(format!("distance-order :: Ord of Distance disagrees with integer order for {} {} {}", a.name, b.name, c.name));
    }
    // unidirectionality: d(a,b) == d(a,c) => b == c
    if (dab == dac) != (b.bytes == c.bytes) {
        return Err(format!("unidirectional :: d({0},{1}) == d({0},{2}) is {3} but {1} == {2} is {4}", a.name, b.name, c.name, dab == dac, b.bytes == c.bytes));
    }
    // for_distance inverts distance
    let back = a.key.for_distance(dab);
    if kx::key_bytes(&back) != b.bytes || back != b.key {
        return Err(format!("for_distance-inverse :: {0}.for_distance(d({0},{1})) = {2}", a.name, b.name, kx::hex(&kx::key_bytes(&back))));
    }
    // ... and distance inverts for_distance (c's bytes used as an arbitrary distance value)
    let dd = kx::dist_of(&c.bytes);
    let k2 = a.key.for_distance(dd);
    if a.key.distance(&k2) != dd || kx::key_bytes(&k2) != kx::xor(&a.bytes, &c.bytes) {
        return Err(format!("for_distance-inverse :: d({0}, {0}.for_distance(D)) != D for D = bytes of {1}", a.name, c.name));
    }
    Ok(())
}

/// Key<PeerId> forwarders agree with KeyBytes
fn forwarders(p: u8, other: &K) -> Result<(), String> {
    let pk = kx::peer_key(p);
    let pkb: KeyBytes = pk.into();
    let d1 = pk.distance(&other.key);
    let d2 = pkb.distance(&other.key);
    let mut hb = [0u8; 32];
    hb.copy_from_slice(pk.hashed_bytes());
    if d1 != d2 || kx::dist_bytes(&d1) != kx::xor(&hb, &other.bytes) {
        return Err(format!("key-forwarder :: Key<PeerId>::distance for peer {p} vs {}", other.name));
    }
    if pk.for_distance(d1) != other.key {
        return Err(format!("key-forwarder :: Key<PeerId>::for_distance for peer {p} vs {}", other.name));
    }
    Ok(())
}

/// bucket laws for one distance `d` from `base`
fn bucket_laws(base: &K, dn: &str, db: &B) -> Result<(), String> {
    let d = kx::dist_of(db);
    let hb = kx::high_bit(db);
    let il = d.ilog2().map(|x| x as usize);
    if il != hb {
        return Err(format!("ilog2 :: ilog2({dn}) = {il:?}, highest set bit = {hb:?}"));
    }
    let bi = kb::bucket_index(&d);
    if bi != hb {
        return Err(format!("bucket-index :: BucketIndex::new({dn}) = {bi:?}, highest set bit = {hb:?}"));
    }
    // exactly the bucket `hb` has a range containing d; ranges are [2^i, 2^(i+1)-1]
    for i in 0..256usize {
        let (lo, hi) = kb::bucket_range(i);
        let e_lo = kx::pow2(i);
        let e_hi = if i == 255 { kx::MAX } else { kx::dec(&kx::pow2(i + 1)) };
        if kx::dist_bytes(&lo) != e_lo || kx::dist_bytes(&hi) != e_hi {
            return Err(format!("bucket-range :: BucketIndex({i}).range() = [{}, {}]", kx::hex(&kx::dist_bytes(&lo)), kx::hex(&kx::dist_bytes(&hi))));
        }
        let inside = lo <= d && d <= hi;
        if inside != (Some(i) == hb) {
            return Err(format!("bucket-range :: distance {dn} inside range of bucket {i} = {inside}, highest set bit {hb:?}"));
        }
    }
    // through the table: the key at distance d from the local key
    let key = base.key.for_distance(d);
    let mut t = Table::new(base.key, 2, Duration::from_secs(1));
    let kind = t.entry_kind(&key);
    match hb {
        None => {
            if kind != kb::EntryKind::Local {
                return Err(format!("bucket-local :: entry(local key) = {kind:?}"));
            }
            if t.bucket(&key).is_some() {
                return Err("bucket-local :: bucket(local key) is Some".into());
            }
            if t.insert(&key, NodeStatus::Connected).is_ok() || !t.iter_buckets(false).is_empty() {
                return Err("bucket-local :: local key could be inserted".into());
            }
        }
        Some(h) => {
            if kind != kb::EntryKind::Absent {
                return Err(format!("bucket-table :: entry of fresh key = {kind:?}"));
            }
            let r = t.insert(&key, NodeStatus::Connected);
            if r != Ok(kb::Inserted::Inserted) {
                return Err(format!("bucket-table :: insert into empty table = {r:?}"));
            }
            let bs = t.iter_buckets(true);
            if bs.len() != 256 {
                return Err(format!("bucket-table :: iter() yields {} buckets", bs.len()));
            }
            for b in &bs {
                let holds = b.entries.iter().any(|(k, _)| *k == key);
                if holds != (b.position == h) {
                    return Err(format!("bucket-table :: key at distance {dn} (highest bit {h}) found={holds} in bucket position {}", b.position));
                }
                if b.position == h {
                    let (lo, hi) = b.range;
                    if !(lo <= d && d <= hi) || kx::dist_bytes(&lo) != kx::pow2(h) {
                        return Err(format!("bucket-table :: KBucketRef::range of bucket {h} does not contain {dn}"));
                    }
                    if b.num_entries != 1 || b.is_empty {
                        return Err(format!("bucket-table :: bucket {h} num_entries {}", b.num_entries));
                    }
                }
            }
            let via = t.bucket(&key).ok_or("bucket-table :: bucket(key) None for non-local key")?;
            if via.range != bs[h].range || !via.entries.iter().any(|(k, _)| *k == key) {
                return Err(format!("bucket-table :: bucket(key) for {dn} is not bucket {h}"));
            }
        }
    }
    Ok(())
}

/// membership predicate `KBucketRef::contains` of all 256 buckets for the distance with exactly
/// the given bits set: true for the bucket of the highest set bit and for no other bucket
fn membership(table: &mut Table, bits: &[usize]) -> Result<(), String> {
    let mut d = [0u8; 32];
    for b in bits {
        d[31 - b / 8] |= 1 << (b % 8);
    }
    let hb = kx::high_bit(&d);
    let got = table.buckets_contain(&kx::dist_of(&d));
    if got.len() != 256 {
        return Err(format!("contains :: iter() yields {} buckets", got.len()));
    }
    for (i, c) in got.iter().enumerate() {
        if *c != (Some(i) == hb) {
            return Err(format!("contains :: bucket {i}.contains(distance with bits {bits:?} set) = {c}, highest set bit = {hb:?}"));
        }
    }
    Ok(())
}

/// bit sets for the membership check: every single bit, every pair i < j, and triples around
/// the 64-bit limb boundaries / word-size offsets
fn membership_sets(thorough: bool) -> Vec<Vec<usize>> {
    let mut v: Vec<Vec<usize>> = vec![vec![]];
    for i in 0..256 {
        v.push(vec![i]);
        for j in i + 1..256 {
            v.push(vec![i, j]);
        }
    }
    let offs: &[usize] = if thorough { &[1, 2, 31, 32, 33, 62, 63, 64, 65, 66, 127, 128, 129, 191, 192, 193] } else { &[1, 63, 64, 65, 128] };
    for i in 0..256 {
        for a in offs {
            for b in offs {
                let (j, k) = (i + a, i + a + b);
                if k < 256 {
                    v.push(vec![i, j, k]);
                }
            }
        }
    }
    v
}

fn sig(m: &str) -> String {
    mc::bfs::signature_of(m)
}

pub fn run(ctx: &Ctx) -> Outcome {
    let mut out = Outcome::default();
    if let Err(m) = kx::selftest_key_bytes() {
        out.machinery(m);
        return out;
    }
    kx::watchdog(&ctx.id, std::env::var("VERIF_WATCHDOG_S").ok().and_then(|s| s.parse().ok()).unwrap_or(ctx.tier.pick(120, 900)));
    let thorough = ctx.replay.as_ref().map(|c| c["thorough"].as_bool().unwrap_or(false)).unwrap_or(!ctx.quick());
    let keys = key_set(thorough, &mut out);
    let ds = d_set(thorough);
    if let Some(case) = &ctx.replay {
        replay(case, &keys, &ds, &mut out);
        return out;
    }
    let n = keys.len();
    let mut outcomes = [0u64; 4];
    for (ia, a) in keys.iter().enumerate() {
        for (ib, b) in keys.iter().enumerate() {
            for (ic, c) in keys.iter().enumerate() {
                out.evaluations += 1;
                let r = mc::catch(|| triple(a, b, c)).unwrap_or_else(|p| Err(format!("panic :: {p}")));
                if let Err(m) = r {
                    out.violation(sig(&m), m, json!({"kind": "triple", "thorough": thorough, "a": ia, "b": ib, "c": ic}));
                }
                let distinct = ia != ib && ib != ic && ia != ic;
                if distinct {
                    out.nontrivial_h(((ia * n + ib) * n + ic) as u64);
                }
                // outcome classes seen (vacuity): equal pair / distinct, triangle tight / strict
                outcomes[0] += (ia == ib) as u64;
                outcomes[1] += distinct as u64;
                let tight = kx::widen(&kx::xor(&a.bytes, &c.bytes)) == kx::add33(&kx::xor(&a.bytes, &b.bytes), &kx::xor(&b.bytes, &c.bytes));
                outcomes[2] += tight as u64;
                outcomes[3] += (!tight) as u64;
            }
        }
    }
    out.count("triples", (n * n * n) as u64);
    out.count("keys", n as u64);
    out.count("triangle_tight", outcomes[2]);
    out.count("triangle_strict", outcomes[3]);
    if outcomes.iter().any(|c| *c == 0) {
        out.machinery(format!("vacuity: an outcome class was never seen {outcomes:?}"));
    }
    for p in 0..2u8 {
        for (ik, k) in keys.iter().enumerate() {
            out.evaluations += 1;
            if let Err(m) = mc::catch(|| forwarders(p, k)).unwrap_or_else(|p| Err(format!("panic :: {p}"))) {
                out.violation(sig(&m), m, json!({"kind": "fwd", "thorough": thorough, "p": p, "k": ik}));
            }
        }
    }
    // bucket membership predicate (KBucketRef::contains) over all two-bit distances etc.
    {
        let mut t = Table::new(keys[0].key, 2, Duration::from_secs(1));
        let sets = membership_sets(thorough);
        let mut far_pairs = 0u64;
        for bits in &sets {
            out.evaluations += 1;
            if let Err(m) = mc::catch(|| membership(&mut t, bits)).unwrap_or_else(|p| Err(format!("panic :: {p}"))) {
                let class = match bits.len() {
                    0 | 1 => "one bit or zero".to_string(),
                    _ => format!("second-highest relevant gap {} 64", if bits[1] - bits[0] >= 64 { ">=" } else { "<" }),
                };
                out.violation(format!("contains [{} bits set, {class}]", bits.len()), m, json!({"kind": "contains", "thorough": thorough, "bits": bits}));
            }
            if bits.len() == 2 {
                out.nontrivial_h(0x4000_0000 + (bits[0] * 256 + bits[1]) as u64);
                if bits[1] - bits[0] >= 64 {
                    far_pairs += 1;
                }
            }
        }
        out.count("contains_distances", sets.len() as u64);
        out.count("contains_two_bit_distances_with_gap_of_64_or_more", far_pairs);
        if far_pairs == 0 {
            out.machinery("vacuity: no two-bit distance with the bits 64 or more apart");
        }
    }
    // bucket laws: every boundary distance from every base key
    let base_idx: Vec<usize> = keys.iter().enumerate().filter(|(_, k)| k.name.ends_with("^0")).map(|(i, _)| i).collect();
    let mut zero_seen = 0u64;
    let mut buckets_seen = std::collections::BTreeSet::new();
    for &bi in &base_idx {
        for (di, (dn, db)) in ds.iter().enumerate() {
            out.evaluations += 1;
            let r = mc::catch(|| bucket_laws(&keys[bi], dn, db)).unwrap_or_else(|p| Err(format!("panic :: {p}")));
            if let Err(m) = r {
                out.violation(format!("{} [d={dn}]", sig(&m)), m, json!({"kind": "bucket", "thorough": thorough, "base": bi, "d": di}));
            }
            match kx::high_bit(db) {
                None => zero_seen += 1,
                Some(h) => {
                    buckets_seen.insert(h);
                    out.nontrivial(&format!("bucket {bi} {dn}"));
                }
            }
        }
    }
    out.count("bucket_law_cases", (base_idx.len() * ds.len()) as u64);
    out.count("distinct_bucket_indices", buckets_seen.len() as u64);
    if zero_seen == 0 || !buckets_seen.contains(&0) || !buckets_seen.contains(&255) || base_idx.is_empty() {
        out.machinery("vacuity: zero distance / bucket 0 / bucket 255 not exercised");
    }
    out.sample(json!({"keys": keys.iter().take(6).map(|k| format!("{} = {}", k.name, kx::hex(&k.bytes))).collect::<Vec<_>>()}));
    out.sample(json!({"triple": [keys[1].name, keys[5].name, keys[n - 1].name], "d_ab": kx::hex(&kx::xor(&keys[1].bytes, &keys[5].bytes)), "d_bc": kx::hex(&kx::xor(&keys[5].bytes, &keys[n - 1].bytes)), "d_ac": kx::hex(&kx::xor(&keys[1].bytes, &keys[n - 1].bytes))}));
    out.sample(json!({"bucket_law": {"d": ds[6].0, "ilog2": kx::high_bit(&ds[6].1), "range": [kx::hex(&kx::pow2(kx::high_bit(&ds[6].1).unwrap())), kx::hex(&kx::dec(&kx::pow2(kx::high_bit(&ds[6].1).unwrap() + 1)))]}}));
    out.notes.push(format!("{} keys, {} boundary distances, {} bases", n, ds.len(), base_idx.len()));
    out
}

fn replay(case: &Value, keys: &[K], ds: &[(String, B)], out: &mut Outcome) {
    out.evaluations = 1;
    let g = |f: &str| case[f].as_u64().unwrap_or(0) as usize;
    let r = match case["kind"].as_str().unwrap_or("") {
        "triple" => mc::catch(|| triple(&keys[g("a")], &keys[g("b")], &keys[g("c")])),
        "fwd" => mc::catch(|| forwarders(g("p") as u8, &keys[g("k")])),
        "contains" => {
            let bits: Vec<usize> = case["bits"].as_array().cloned().unwrap_or_default().iter().map(|v| v.as_u64().unwrap_or(0) as usize).collect();
            let mut t = Table::new(keys[0].key, 2, Duration::from_secs(1));
            mc::catch(|| membership(&mut t, &bits))
        }
        "bucket" => mc::catch(|| bucket_laws(&keys[g("base")], &ds[g("d")].0, &ds[g("d")].1)),
        "make" => {
            let mut w = [0u8; 32];
            for (i, v) in case["want"].as_array().cloned().unwrap_or_default().iter().enumerate().take(32) {
                w[i] = v.as_u64().unwrap_or(0) as u8;
            }
            mc::catch(|| kx::make_key(&w).map(|_| ()))
        }
        k => Ok(Err(format!("bad replay kind {k}"))),
    };
    let r = r.unwrap_or_else(|p| Err(format!("panic :: {p}")));
    if let Err(m) = r {
        let s = if case["kind"] == "contains" {
            let bits: Vec<u64> = case["bits"].as_array().cloned().unwrap_or_default().iter().map(|v| v.as_u64().unwrap_or(0)).collect();
            let class = match bits.len() {
                0 | 1 => "one bit or zero".to_string(),
                _ => format!("second-highest relevant gap {} 64", if bits[1] - bits[0] >= 64 { ">=" } else { "<" }),
            };
            format!("contains [{} bits set, {class}]", bits.len())
        } else if case["kind"] == "bucket" { format!("{} [d={}]", sig(&m), ds[g("d")].0) } else { sig(&m) };
        out.violation(s, m, case.clone());
    }
}
