//! C37 — k-bucket routing table keeps its structural invariants (E2: explicit-state BFS over
//! insert / update / remove / advance-time / iterate histories of the real `KBucketsTable`
//! against a reference model, + un-deduplicated DFS companion).
//!
//! Reading of the statement used by the oracle:
//!  * `inv-*` signatures are the statement's invariants, checked directly on what the table
//!    shows (no model involved): capacity, uniqueness, log-distance bucket, local key never
//!    stored, disconnected entries before connected ones, least-recently-updated order inside
//!    each class (an entry's "update" is its insert, its status update, or the application of
//!    its pending insertion), and for every applied pending entry: the bucket was full, the
//!    evicted entry was the first (least-recently-disconnected) one, it was still disconnected,
//!    and the pending entry's timeout had elapsed (`now >= created + pending_timeout`).
//!  * `model-*` signatures: step-by-step agreement with a deterministic reference model of the
//!    documented behaviour (per bucket: ordered disconnected list, ordered connected list,
//!    optional pending entry with deadline; pending entries are applied lazily on access once
//!    `now >= deadline`; a pending entry is dropped when the head entry reports `Connected`).
//!    The model is what tells *which* states are reached; a `model-*` mismatch on the unchanged
//!    tree would have to be triaged against the statement before being called a defect.

use crate::kx::{self, B};
use libp2p_kad::verif_kad::kb::{EntryKind, Inserted, KeyBytes, NodeStatus, Table};
use mc::bfs::{self, System};
use mc::{json, Ctx, Meta, Outcome, Value};
use serde::{Deserialize, Serialize};
use std::time::Duration;

pub const META: Meta = Meta {
    level: "model_checking",
    rule: "BFS over all histories of Insert(k,status) / Update(k,status) / Remove(k) for k in the key alphabet (distances from the local key 2^255, 2^255+1, 2^255+2 [three keys sharing bucket 255], 1 [bucket 0], 2 [bucket 1], thorough adds 3 [bucket 1]) and the local key itself, Advance(500 ms), Advance(1 s) on the virtual clock and Iterate (KBucketsTable::iter, applies every due pending entry), on a real KBucketsTable with bucket_size 1 and 2 and pending_timeout 1 s; states deduplicated on (reference model, raw bucket contents + pending entry + remaining time read from the table). Non-trivial = states with at least one stored or pending entry.",
    explanation: "Every step is compared with a reference model (results of insert/update/remove, AppliedPending events, raw bucket contents, pending entry and its deadline) and the statement's structural invariants are checked directly on the table in every reached state; an un-deduplicated DFS to a smaller depth re-checks all paths without merging.",
    assumptions: &["key alphabet of 5 (quick) / 6 (thorough) keys over buckets 0, 1, 255 and bucket sizes 1, 2 (small-scope)", "time advances only in steps of 500 ms / 1 s against a 1 s pending timeout (deadline reached early, exactly, late)"],
};

const TIMEOUT_NS: u64 = 1_000_000_000;
const BUCKETS: [usize; 3] = [0, 1, 255];

// situations met by the exploration (vacuity guards; process-global, single-threaded use)
use std::sync::atomic::{AtomicU64, Ordering::Relaxed};
static EVICTIONS: AtomicU64 = AtomicU64::new(0);
static APPLIED_WITHOUT_EVICTION: AtomicU64 = AtomicU64::new(0);
static PENDING_CREATED: AtomicU64 = AtomicU64::new(0);
static PENDING_DROPPED_FULL_CONNECTED: AtomicU64 = AtomicU64::new(0);
static PENDING_DROPPED_BY_UPDATE: AtomicU64 = AtomicU64::new(0);
static APPLY_AT_EXACT_DEADLINE: AtomicU64 = AtomicU64::new(0);
static APPLY_LATE: AtomicU64 = AtomicU64::new(0);

#[derive(Clone, Debug, Serialize, Deserialize, PartialEq)]
pub enum Act {
    /// key index (n = the local key), connected?
    Insert(u8, bool),
    Update(u8, bool),
    Remove(u8),
    AdvanceMs(u32),
    Iterate,
}

#[derive(Clone, Debug, PartialEq, Eq, Default)]
struct MBucket {
    /// least-recently-disconnected first
    disc: Vec<u8>,
    /// least-recently-connected first
    conn: Vec<u8>,
    /// (key, connected?, deadline ns)
    pending: Option<(u8, bool, u64)>,
}
impl MBucket {
    fn len(&self) -> usize {
        self.disc.len() + self.conn.len()
    }
    fn contains(&self, k: u8) -> bool {
        self.disc.contains(&k) || self.conn.contains(&k)
    }
    fn head(&self) -> Option<u8> {
        self.disc.first().or(self.conn.first()).copied()
    }
    fn entries(&self) -> Vec<(u8, bool)> {
        self.disc.iter().map(|k| (*k, false)).chain(self.conn.iter().map(|k| (*k, true))).collect()
    }
}

#[derive(Clone)]
pub struct Sys {
    cap: usize,
    nkeys: u8,
    local: B,
    keys: Vec<(B, KeyBytes, usize)>, // bytes, key, bucket index
    local_key: KeyBytes,
    table: Table,
    now: u64,
    // reference model: buckets 0, 1, 255 (positions as in BUCKETS)
    m: [MBucket; 3],
    /// independent "last updated" stamps per key (statement's least-recently-updated order)
    stamp: Vec<u64>,
    seq: u64,
}

fn st(c: bool) -> NodeStatus {
    if c {
        NodeStatus::Connected
    } else {
        NodeStatus::Disconnected
    }
}
fn is_c(s: NodeStatus) -> bool {
    s == NodeStatus::Connected
}

fn key_distances(n: u8) -> Vec<B> {
    let p = kx::pow2(255);
    let small = |x: u8| {
        let mut b = [0u8; 32];
        b[31] = x;
        b
    };
    let all = vec![p, kx::inc(&p), kx::xor(&p, &small(2)), small(1), small(2), small(3), kx::xor(&p, &small(3))];
    all[..n as usize].to_vec()
}

impl Sys {
    pub fn new(cap: usize, nkeys: u8) -> Self {
        mc::vclock::reset();
        let local = kx::key_bytes(&kx::peer_keybytes(0));
        let local_key = kx::make_key(&local).expect("local key");
        let keys = key_distances(nkeys)
            .iter()
            .map(|d| {
                let b = kx::xor(&local, d);
                (b, kx::make_key(&b).expect("alphabet key"), kx::high_bit(d).unwrap())
            })
            .collect();
        Sys {
            cap,
            nkeys,
            local,
            keys,
            local_key,
            table: Table::new(local_key, cap, Duration::from_nanos(TIMEOUT_NS)),
            now: mc::vclock::now_ns(),
            m: Default::default(),
            stamp: vec![0; nkeys as usize],
            seq: 0,
        }
    }
    fn sync(&self) {
        mc::vclock::set_ns(self.now);
    }
    fn kidx(&self, k: &KeyBytes) -> Option<u8> {
        self.keys.iter().position(|e| e.1 == *k).map(|i| i as u8)
    }
    fn mb(&self, k: u8) -> usize {
        let b = self.keys[k as usize].2;
        BUCKETS.iter().position(|x| *x == b).expect("alphabet bucket")
    }
    fn touch(&mut self, k: u8) {
        self.seq += 1;
        self.stamp[k as usize] = self.seq;
    }

    /// model: lazily apply the pending entry of model bucket `bi`; returns the expected
    /// AppliedPending event
    fn m_apply(&mut self, bi: usize) -> Option<(u8, Option<u8>)> {
        let now = self.now;
        let cap = self.cap;
        let (k, c, deadline) = self.m[bi].pending?;
        if deadline > now {
            return None;
        }
        if deadline == now {
            APPLY_AT_EXACT_DEADLINE.fetch_add(1, Relaxed);
        } else {
            APPLY_LATE.fetch_add(1, Relaxed);
        }
        let b = &mut self.m[bi];
        b.pending = None;
        let ev = if b.len() >= cap {
            if b.disc.is_empty() {
                PENDING_DROPPED_FULL_CONNECTED.fetch_add(1, Relaxed);
                return None; // full of connected entries: pending entry dropped
            }
            EVICTIONS.fetch_add(1, Relaxed);
            Some(b.disc.remove(0))
        } else {
            APPLIED_WITHOUT_EVICTION.fetch_add(1, Relaxed);
            None
        };
        if c {
            b.conn.push(k);
        } else {
            b.disc.push(k);
        }
        self.touch(k);
        Some((k, ev))
    }

    /// raw projection of the implementation: per alphabet bucket (entries, pending(key, conn,
    /// remaining ns clamped at 0))
    #[allow(clippy::type_complexity)]
    fn impl_view(&self) -> Result<Vec<(Vec<(u8, bool)>, Option<(u8, bool, u64)>)>, String> {
        self.sync();
        let used = self.table.peek_used_buckets();
        if let Some(x) = used.iter().find(|i| !BUCKETS.contains(i)) {
            return Err(format!("inv-wrong-bucket :: bucket {x} is in use although no alphabet key has that log-distance"));
        }
        let mut v = Vec::new();
        for bi in BUCKETS {
            let (entries, pending) = self.table.peek_bucket(bi);
            let mut es = Vec::new();
            for (k, s) in &entries {
                let Some(i) = self.kidx(k) else {
                    if *k == self.local_key {
                        return Err(format!("inv-local-key-stored :: the local key is an entry of bucket {bi}"));
                    }
                    return Err(format!("inv-unknown-key :: bucket {bi} holds a key that was never inserted: {}", kx::hex(&kx::key_bytes(k))));
                };
                es.push((i, is_c(*s)));
            }
            let p = match pending {
                None => None,
                Some((k, s, ready)) => {
                    let Some(i) = self.kidx(&k) else {
                        return Err(format!("inv-local-key-stored :: pending entry of bucket {bi} is not an alphabet key (local key: {})", k == self.local_key));
                    };
                    let dl = parse_deadline(&self.table.peek_bucket_debug(bi)).ok_or("machinery: cannot parse pending deadline from Debug")?;
                    if ready != (dl <= self.now) {
                        return Err(format!("model-pending-ready :: is_ready() = {ready} but deadline {dl} vs now {}", self.now));
                    }
                    Some((i, is_c(s), dl.saturating_sub(self.now)))
                }
            };
            v.push((es, p));
        }
        Ok(v)
    }

    /// the statement's structural invariants, judged on the implementation's raw view only
    fn structural(&self, view: &[(Vec<(u8, bool)>, Option<(u8, bool, u64)>)]) -> Result<(), String> {
        let mut seen = vec![0u32; self.nkeys as usize];
        for (pos, (es, p)) in view.iter().enumerate() {
            let bi = BUCKETS[pos];
            if es.len() > self.cap {
                return Err(format!("inv-capacity :: bucket {bi} holds {} entries, capacity {}", es.len(), self.cap));
            }
            let mut seen_conn = false;
            let mut last: [u64; 2] = [0, 0];
            for (k, c) in es {
                seen[*k as usize] += 1;
                if self.keys[*k as usize].2 != bi {
                    return Err(format!("inv-wrong-bucket :: key {k} (log-distance {}) is stored in bucket {bi}", self.keys[*k as usize].2));
                }
                if *c {
                    seen_conn = true;
                } else if seen_conn {
                    return Err(format!("inv-disconnected-after-connected :: bucket {bi}: {es:?}"));
                }
                let s = self.stamp[*k as usize];
                if s <= last[*c as usize] {
                    return Err(format!("inv-lru-order :: bucket {bi}: entries {es:?} (key, connected) have last-update stamps {:?}", es.iter().map(|e| self.stamp[e.0 as usize]).collect::<Vec<_>>()));
                }
                last[*c as usize] = s;
            }
            if let Some((k, _, _)) = p {
                seen[*k as usize] += 1;
                if self.keys[*k as usize].2 != bi {
                    return Err(format!("inv-wrong-bucket :: pending key {k} (log-distance {}) waits at bucket {bi}", self.keys[*k as usize].2));
                }
            }
        }
        if let Some(k) = seen.iter().position(|n| *n > 1) {
            return Err(format!("inv-duplicate-key :: key {k} appears {} times in the table (entries + pending)", seen[k]));
        }
        Ok(())
    }

    fn compare(&self) -> Result<(), String> {
        let view = self.impl_view()?;
        self.structural(&view)?;
        for (pos, (es, p)) in view.iter().enumerate() {
            let bi = BUCKETS[pos];
            let want = self.m[pos].entries();
            if *es != want {
                return Err(format!("model-bucket-contents :: bucket {bi}: table {es:?} model {want:?} (key, connected)"));
            }
            let wp = self.m[pos].pending.map(|(k, c, d)| (k, c, d.saturating_sub(self.now)));
            if *p != wp {
                return Err(format!("model-pending :: bucket {bi}: table {p:?} model {wp:?} (key, connected, remaining ns)"));
            }
        }
        if self.table.peek_applied_pending_len() != 0 {
            return Err("machinery: applied_pending queue not drained".into());
        }
        Ok(())
    }

    /// check the AppliedPending events of this step against the pre-step raw view (statement:
    /// replaces only the least-recently-disconnected entry, only after its timeout, only if
    /// that entry is still disconnected) and against the model's expectation
    #[allow(clippy::type_complexity)]
    fn check_events(&mut self, pre: &[(Vec<(u8, bool)>, Option<(u8, bool, u64)>)], pre_deadlines: &[Option<u64>], expect: &[(u8, Option<u8>)]) -> Result<(), String> {
        let mut got = Vec::new();
        while let Some((ins, ev)) = self.table.take_applied_pending() {
            let i = self.kidx(&ins).ok_or("inv-unknown-key :: AppliedPending.inserted is not an alphabet key")?;
            let e = match ev {
                None => None,
                Some(k) => Some(self.kidx(&k).ok_or("inv-unknown-key :: AppliedPending.evicted is not an alphabet key")?),
            };
            got.push((i, e));
        }
        for (ins, ev) in &got {
            let pos = self.mb(*ins);
            let bi = BUCKETS[pos];
            let (es, p) = &pre[pos];
            match p {
                Some((pk, _, _)) if pk == ins => {}
                _ => return Err(format!("inv-apply-not-pending :: key {ins} was inserted as pending entry of bucket {bi} but the pending entry before the step was {p:?}")),
            }
            let dl = pre_deadlines[pos].unwrap_or(u64::MAX);
            if dl > self.now {
                return Err(format!("inv-apply-before-timeout :: pending key {ins} of bucket {bi} applied at {} ns, {} ns before its deadline", self.now, dl - self.now));
            }
            match ev {
                Some(e) => {
                    if es.len() < self.cap {
                        return Err(format!("inv-evict-not-full :: key {e} evicted from bucket {bi} holding {} < {} entries", es.len(), self.cap));
                    }
                    if es.first().map(|x| x.0) != Some(*e) {
                        return Err(format!("inv-evict-not-head :: key {e} evicted from bucket {bi} = {es:?}; the least-recently-disconnected entry is the first one"));
                    }
                    if es[0].1 {
                        return Err(format!("inv-evict-connected :: key {e} evicted from bucket {bi} = {es:?} although it is connected"));
                    }
                }
                None => {
                    if es.len() >= self.cap {
                        return Err(format!("inv-capacity :: pending key {ins} inserted without eviction into full bucket {bi} = {es:?}"));
                    }
                }
            }
        }
        if got != expect {
            return Err(format!("model-applied-events :: table reported {got:?}, model expects {expect:?} (inserted, evicted)"));
        }
        Ok(())
    }
}

/// parse `replace: Instant { tv_sec: S, tv_nsec: N }` out of a bucket's Debug rendering
fn parse_deadline(dbg: &str) -> Option<u64> {
    let i = dbg.find("replace:")?;
    let rest = &dbg[i..];
    let num_after = |tag: &str| -> Option<u64> {
        let j = rest.find(tag)? + tag.len();
        let digits: String = rest[j..].chars().skip_while(|c| !c.is_ascii_digit()).take_while(|c| c.is_ascii_digit()).collect();
        digits.parse().ok()
    };
    Some(num_after("tv_sec")? * 1_000_000_000 + num_after("tv_nsec")?)
}

impl System for Sys {
    type Action = Act;
    fn actions(&self) -> Vec<Act> {
        let mut v = Vec::new();
        for k in 0..=self.nkeys {
            for c in [true, false] {
                v.push(Act::Insert(k, c));
                v.push(Act::Update(k, c));
            }
            v.push(Act::Remove(k));
        }
        v.push(Act::AdvanceMs(500));
        v.push(Act::AdvanceMs(1000));
        v.push(Act::Iterate);
        v
    }

    fn step(&mut self, a: &Act) -> Result<(), String> {
        self.sync();
        let pre = self.impl_view()?;
        let pre_deadlines: Vec<Option<u64>> = self.m.iter().map(|b| b.pending.map(|p| p.2)).collect();
        let mut expect: Vec<(u8, Option<u8>)> = Vec::new();
        // a result mismatch is reported after the statement-level invariants had their say
        let mut deferred: Option<String> = None;
        let n = self.nkeys;
        match *a {
            Act::AdvanceMs(ms) => {
                self.now += ms as u64 * 1_000_000;
                self.sync();
            }
            Act::Iterate => {
                let views = self.table.iter_buckets(true);
                for pos in 0..3 {
                    if let Some(e) = self.m_apply(pos) {
                        expect.push(e);
                    }
                }
                if views.len() != 256 {
                    return Err(format!("model-iter :: iter() yields {} buckets", views.len()));
                }
                for v in &views {
                    let want: Vec<(u8, bool)> = BUCKETS.iter().position(|b| *b == v.position).map(|p| self.m[p].entries()).unwrap_or_default();
                    let mut got = Vec::new();
                    for (k, s) in &v.entries {
                        got.push((self.kidx(k).ok_or("inv-unknown-key :: iter() shows a key that is not in the alphabet")?, is_c(*s)));
                    }
                    if got != want || v.num_entries != want.len() {
                        return Err(format!("model-iter :: bucket {} seen through iter(): {got:?} (num_entries {}), model {want:?}", v.position, v.num_entries));
                    }
                    let hp = BUCKETS.iter().position(|b| *b == v.position).map(|p| self.m[p].pending.is_some()).unwrap_or(false);
                    if v.has_pending != hp {
                        return Err(format!("model-iter :: bucket {} has_pending {} model {hp}", v.position, v.has_pending));
                    }
                }
            }
            Act::Insert(k, c) if k == n => {
                let r = self.table.insert(&self.local_key.clone(), st(c));
                if r != Err(EntryKind::Local) {
                    return Err(format!("inv-local-key-stored :: insert(local key) answered {r:?}"));
                }
            }
            Act::Update(k, c) if k == n => {
                let r = self.table.update(&self.local_key.clone(), st(c));
                if r != EntryKind::Local {
                    return Err(format!("inv-local-key-stored :: entry(local key) is {r:?}"));
                }
            }
            Act::Remove(k) if k == n => {
                let r = self.table.remove(&self.local_key.clone());
                if r.0 != EntryKind::Local {
                    return Err(format!("inv-local-key-stored :: entry(local key) is {:?}", r.0));
                }
            }
            Act::Insert(k, c) => {
                let key = self.keys[k as usize].1;
                let got = self.table.insert(&key, st(c));
                let pos = self.mb(k);
                if let Some(e) = self.m_apply(pos) {
                    expect.push(e);
                }
                let cap = self.cap;
                let now = self.now;
                let present = self.m[pos].entries().iter().find(|e| e.0 == k).copied();
                let pend = self.m[pos].pending.filter(|p| p.0 == k);
                let want: Result<Inserted, EntryKind> = if let Some(e) = present {
                    Err(EntryKind::Present(st(e.1)))
                } else if let Some((_, pc, _)) = pend {
                    Err(EntryKind::Pending(st(pc)))
                } else if self.m[pos].len() >= cap {
                    if c && !self.m[pos].disc.is_empty() && self.m[pos].pending.is_none() {
                        self.m[pos].pending = Some((k, true, now + TIMEOUT_NS));
                        PENDING_CREATED.fetch_add(1, Relaxed);
                        Ok(Inserted::Pending { disconnected: self.keys[self.m[pos].disc[0] as usize].1 })
                    } else {
                        Ok(Inserted::Full)
                    }
                } else {
                    if c {
                        self.m[pos].conn.push(k);
                    } else {
                        self.m[pos].disc.push(k);
                    }
                    self.touch(k);
                    Ok(Inserted::Inserted)
                };
                if got != want {
                    deferred = Some(format!("model-insert-result :: {a:?}: table {got:?} model {want:?}"));
                }
            }
            Act::Update(k, c) => {
                let key = self.keys[k as usize].1;
                let got = self.table.update(&key, st(c));
                let pos = self.mb(k);
                if let Some(e) = self.m_apply(pos) {
                    expect.push(e);
                }
                let present = self.m[pos].entries().iter().find(|e| e.0 == k).copied();
                let want = if let Some(e) = present {
                    let b = &mut self.m[pos];
                    let was_head = b.head() == Some(k);
                    b.disc.retain(|x| *x != k);
                    b.conn.retain(|x| *x != k);
                    if was_head && c {
                        if b.pending.is_some() {
                            PENDING_DROPPED_BY_UPDATE.fetch_add(1, Relaxed);
                        }
                        b.pending = None;
                    }
                    if c {
                        b.conn.push(k);
                    } else {
                        b.disc.push(k);
                    }
                    self.touch(k);
                    EntryKind::Present(st(e.1))
                } else if let Some(p) = self.m[pos].pending.as_mut().filter(|p| p.0 == k) {
                    let old = p.1;
                    p.1 = c;
                    EntryKind::Pending(st(old))
                } else {
                    EntryKind::Absent
                };
                if got != want {
                    deferred = Some(format!("model-update-result :: {a:?}: table found {got:?} model {want:?}"));
                }
            }
            Act::Remove(k) => {
                let key = self.keys[k as usize].1;
                let got = self.table.remove(&key);
                let pos = self.mb(k);
                if let Some(e) = self.m_apply(pos) {
                    expect.push(e);
                }
                let b = &mut self.m[pos];
                let want = if let Some(e) = b.entries().iter().find(|e| e.0 == k).copied() {
                    b.disc.retain(|x| *x != k);
                    b.conn.retain(|x| *x != k);
                    (EntryKind::Present(st(e.1)), Some((key, st(e.1))))
                } else if let Some(p) = b.pending.filter(|p| p.0 == k) {
                    b.pending = None;
                    (EntryKind::Pending(st(p.1)), Some((key, st(p.1))))
                } else {
                    (EntryKind::Absent, None)
                };
                if got != want {
                    deferred = Some(format!("model-remove-result :: {a:?}: table {got:?} model {want:?}"));
                }
            }
        }
        let ev = self.check_events(&pre, &pre_deadlines, &expect);
        if let Err(m) = &ev {
            if m.starts_with("inv-") {
                return ev;
            }
        }
        let view = self.impl_view()?;
        self.structural(&view)?;
        ev?;
        if let Some(d) = deferred {
            return Err(d);
        }
        self.compare()
    }

    fn canon(&self) -> Vec<u8> {
        self.sync();
        // model (deadlines relative to now, clamped) + raw implementation projection
        // remaining time: exact while in the future, 0 = due exactly now, -1 = overdue (any amount)
        let m: Vec<_> = self.m.iter().map(|b| (b.disc.clone(), b.conn.clone(), b.pending.map(|(k, c, d)| (k, c, if d >= self.now { (d - self.now) as i64 } else { -1 })))).collect();
        let i = self.impl_view();
        format!("{m:?}|{i:?}").into_bytes()
    }

    fn invariant(&self) -> Result<(), String> {
        Ok(()) // everything is checked in step() (compare) so that the failing action is known
    }

    fn nontrivial(&self) -> bool {
        self.m.iter().any(|b| b.len() > 0 || b.pending.is_some())
    }
}

fn cfg_json(cap: usize, nkeys: u8) -> Value {
    json!({"bucket_size": cap, "keys": nkeys, "pending_timeout_ms": 1000})
}

pub fn run(ctx: &Ctx) -> Outcome {
    let mut out = Outcome::default();
    if let Err(m) = kx::selftest_key_bytes() {
        out.machinery(m);
        return out;
    }
    if let Some(case) = &ctx.replay {
        out.evaluations = 1;
        let cap = case["cfg"]["bucket_size"].as_u64().unwrap_or(2) as usize;
        let nkeys = case["cfg"]["keys"].as_u64().unwrap_or(5) as u8;
        if let Err(m) = bfs::replay_history(Sys::new(cap, nkeys), case) {
            out.violation(bfs::signature_of(&m), m, case.clone());
        }
        return out;
    }
    kx::watchdog(&ctx.id, std::env::var("VERIF_WATCHDOG_S").ok().and_then(|s| s.parse().ok()).unwrap_or(ctx.tier.pick(300, 1800)));
    let nkeys: u8 = std::env::var("C37_KEYS").ok().and_then(|s| s.parse().ok()).unwrap_or(ctx.tier.pick(5, 7));
    let depth = std::env::var("C37_DEPTH").ok().and_then(|s| s.parse().ok()).unwrap_or(ctx.tier.pick(32, 32));
    let ddepth = ctx.tier.pick(3, 4);
    let caps: &[usize] = ctx.tier.pick(&[1, 2], &[1, 2, 3]);
    for &cap in caps {
        let cfg = cfg_json(cap, nkeys);
        let (st, v) = bfs::bfs_clone(Sys::new(cap, nkeys), depth, ctx.tier.pick(400_000, 3_000_000));
        out.count(&format!("states_bucket_size_{cap}"), st.states);
        out.max(&format!("max_depth_bucket_size_{cap}"), st.depth_completed as u64);
        if st.depth_completed < depth && !st.capped {
            out.notes.push(format!("bucket_size {cap}: reachable state space exhausted (empty frontier) after depth {}: {} states", st.depth_completed, st.states));
        } else {
            out.notes.push(format!("bucket_size {cap}: depth bound {depth} reached with non-empty frontier ({} states)", st.states));
        }
        bfs::record(&mut out, &cfg, &st, &v);
        // thorough: depth 4 for bucket_size 2 (43^4 sequences), depth 3 otherwise
        let ddepth = if cap == 2 { ddepth } else { 3 };
        let (n, capped, v2) = bfs::dfs_all(|| Sys::new(cap, nkeys), ddepth, 5_000_000);
        out.count("dfs_companion_sequences", n);
        out.evaluations += n;
        out.traces += n;
        if capped {
            out.caps.push(format!("dfs companion capped at {n} sequences"));
        }
        bfs::record(&mut out, &cfg, &Default::default(), &v2);
    }
    let guards = [("evictions", &EVICTIONS), ("applied_without_eviction", &APPLIED_WITHOUT_EVICTION), ("pending_created", &PENDING_CREATED), ("pending_dropped_bucket_full_of_connected", &PENDING_DROPPED_FULL_CONNECTED), ("pending_dropped_by_head_update", &PENDING_DROPPED_BY_UPDATE), ("applied_at_exact_deadline", &APPLY_AT_EXACT_DEADLINE), ("applied_after_deadline", &APPLY_LATE)];
    for (n, g) in guards {
        let v = g.load(Relaxed);
        out.count(&format!("situation_{n}"), v);
        if v == 0 {
            out.machinery(format!("vacuity: situation '{n}' never occurred in any explored transition"));
        }
    }
    out.notes.push(format!("{nkeys} keys + local key, bucket sizes {caps:?}, bfs depth bound {depth}, dfs companion depth {ddepth} (bucket_size 2) / 3"));
    out
}
