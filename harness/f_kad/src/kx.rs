//! Shared helpers of the kbucket checks (C37, C38, C40): independent 256-bit big-endian
//! arithmetic on `[u8; 32]` and access to key bytes that does not go through the code under
//! test (`KeyBytes` has no byte accessor; its derived `Debug` is parsed instead and the parse is
//! validated against `Key::<PeerId>::hashed_bytes`).

use libp2p_kad::verif_kad::kb::{Distance, KeyBytes, U256};
use libp2p_kad::KBucketKey;

pub type B = [u8; 32];

pub const ZERO: B = [0u8; 32];
pub const MAX: B = [0xffu8; 32];

pub fn xor(a: &B, b: &B) -> B {
    let mut o = [0u8; 32];
    for i in 0..32 {
        o[i] = a[i] ^ b[i];
    }
    o
}
/// 2^k as big-endian bytes
pub fn pow2(k: usize) -> B {
    let mut o = [0u8; 32];
    o[31 - k / 8] = 1 << (k % 8);
    o
}
/// a + 1 (wrapping)
pub fn inc(a: &B) -> B {
    let mut o = *a;
    for i in (0..32).rev() {
        let (v, c) = o[i].overflowing_add(1);
        o[i] = v;
        if !c {
            break;
        }
    }
    o
}
/// a - 1 (wrapping)
pub fn dec(a: &B) -> B {
    let mut o = *a;
    for i in (0..32).rev() {
        let (v, c) = o[i].overflowing_sub(1);
        o[i] = v;
        if !c {
            break;
        }
    }
    o
}
/// a + b as 33 bytes (no overflow)
pub fn add33(a: &B, b: &B) -> [u8; 33] {
    let mut o = [0u8; 33];
    let mut carry = 0u16;
    for i in (0..32).rev() {
        let s = a[i] as u16 + b[i] as u16 + carry;
        o[i + 1] = s as u8;
        carry = s >> 8;
    }
    o[0] = carry as u8;
    o
}
pub fn widen(a: &B) -> [u8; 33] {
    let mut o = [0u8; 33];
    o[1..].copy_from_slice(a);
    o
}
/// position of the highest set bit (0 = least significant), None for zero
pub fn high_bit(a: &B) -> Option<usize> {
    for i in 0..32 {
        if a[i] != 0 {
            return Some((31 - i) * 8 + (7 - a[i].leading_zeros() as usize));
        }
    }
    None
}
pub fn bit(a: &B, k: usize) -> bool {
    a[31 - k / 8] & (1 << (k % 8)) != 0
}
pub fn hex(a: &B) -> String {
    // compact: strip leading zero bytes
    let s: String = a.iter().map(|b| format!("{b:02x}")).collect();
    let t = s.trim_start_matches('0');
    if t.is_empty() {
        "0".into()
    } else {
        format!("0x{t}")
    }
}

pub fn dist_of(b: &B) -> Distance {
    Distance(U256::from_big_endian(b))
}
pub fn dist_bytes(d: &Distance) -> B {
    d.0.to_big_endian()
}

/// bytes of a `KeyBytes`, read from its derived `Debug` rendering (independent of
/// `distance`/`for_distance`)
pub fn key_bytes(k: &KeyBytes) -> B {
    let s = format!("{k:?}");
    let mut out = [0u8; 32];
    let mut n = 0usize;
    let mut cur: Option<u32> = None;
    for ch in s.chars() {
        if let Some(d) = ch.to_digit(10) {
            cur = Some(cur.unwrap_or(0) * 10 + d);
        } else if let Some(v) = cur.take() {
            assert!(v <= 255 && n < 32, "unexpected KeyBytes Debug format: {s}");
            out[n] = v as u8;
            n += 1;
        }
    }
    if let Some(v) = cur {
        assert!(v <= 255 && n < 32, "unexpected KeyBytes Debug format: {s}");
        out[n] = v as u8;
        n += 1;
    }
    assert!(n == 32, "unexpected KeyBytes Debug format ({n} numbers): {s}");
    out
}

/// hashed key of fixed peer `i` (sha256 of the peer id, computed by `Key::from(PeerId)`)
pub fn peer_key(i: u8) -> KBucketKey<libp2p_identity::PeerId> {
    KBucketKey::from(kit::ids::peer(i))
}
pub fn peer_keybytes(i: u8) -> KeyBytes {
    peer_key(i).into()
}

/// Sanity of `key_bytes`: must agree with the public `hashed_bytes` accessor.
pub fn selftest_key_bytes() -> Result<(), String> {
    for i in 0..4u8 {
        let k = peer_key(i);
        let kb: KeyBytes = k.into();
        let parsed = key_bytes(&kb);
        if parsed[..] != *k.hashed_bytes() {
            return Err(format!("key_bytes parse disagrees with hashed_bytes for peer {i}"));
        }
    }
    Ok(())
}

/// Build the `KeyBytes` with the given raw bytes. `KeyBytes` has no byte constructor; the key
/// is obtained as `seed.for_distance(seed_bytes ^ want)` and then *verified* through
/// `key_bytes` (so a wrong `for_distance` cannot silently produce a different alphabet).
pub fn make_key(want: &B) -> Result<KeyBytes, String> {
    let seed = peer_keybytes(0);
    let sb = key_bytes(&seed);
    let k = seed.for_distance(dist_of(&xor(&sb, want)));
    let got = key_bytes(&k);
    if &got != want {
        return Err(format!("for_distance-inverse :: seed.for_distance(seed ^ {}) produced key {}", hex(want), hex(&got)));
    }
    Ok(k)
}

/// Real-time watchdog: a subject that never returns (e.g. an iterator that loops for ever)
/// must end as a machinery error (exit 2), not as a hung check. The sleep is a raw relative
/// `nanosleep` syscall and is not affected by the virtual clock.
pub fn watchdog(id: &str, secs: u64) {
    let id = id.to_string();
    std::thread::spawn(move || {
        // raw relative nanosleep: independent of the interposed clock_gettime
        let ts = libc::timespec { tv_sec: secs as libc::time_t, tv_nsec: 0 };
        let mut left = ts;
        while unsafe { libc::syscall(libc::SYS_nanosleep, &left as *const libc::timespec, &mut left as *mut libc::timespec) } != 0 {}
        eprintln!("MACHINERY-ERROR {id}: watchdog: no result after {secs} s of real time (subject does not terminate?)");
        std::process::exit(2);
    });
}
