//! C38 — closest-key enumeration is complete and sorted (E3: every subset of a crafted key set
//! x every target, through the real `KBucketsTable::closest_keys` and `closest`).
//!
//! Oracle (exactly the statement): the output is a permutation of the stored keys (each
//! exactly once) in non-decreasing XOR distance to the target; distances are computed with
//! independent byte arithmetic (kx.rs).

use crate::kx::{self, B};
use libp2p_kad::verif_kad::kb::{self, KeyBytes, NodeStatus, Table};
use mc::{json, Ctx, Meta, Outcome, Value};
use std::time::Duration;

pub const META: Meta = Meta {
    level: "exploration",
    rule: "tables = every subset of the crafted key alphabet (distances from the local key: 1 [bucket 0], 2, 3 [bucket 1], 2^255, 2^255+1, 2^255+2^254 [bucket 255]; thorough adds 2^7, 2^7+5 [bucket 7], 2^256-1 [bucket 255]) inserted with alternating connected/disconnected status into a real KBucketsTable; bucket-size dimension: 20 (= K_VALUE), 3/4 (bucket 255 exactly full), 1 and 2 (subsets that do not fit are skipped), and sizes above K_VALUE: 23/24 with 20 further fixed keys in bucket 255 inserted before resp. after the subset (bucket 255 holds up to 23/24 > K_VALUE entries), 21 with 19 fixed keys, thorough also 44 with 40 fixed keys; local key sha256(peer0) (thorough: also 0 and 2^256-1); targets = local key, every alphabet key, and local ^ d for d in {4,5,2^8,2^8+1,2^256-2,2^256-1,2^255+3,2^255+2} (thorough adds 6,7,2^255+2^100,2^255+2^100+1,2^254, sha256(peer1), sha256(peer2), sha256(peer3)); both closest_keys() and closest(). Plus tables with a pending entry (bucket size 2, 3; thorough 1-4; oldest entry disconnected, every connected/disconnected pattern of the others, optional keys in buckets 0 and 1, one connected key pending for bucket 255), virtual clock advanced by 500 / 1000 / 2500 ms against the 1 s pending timeout, then closest_keys / closest as the FIRST access for every target, compared with what KBucketsTable::iter shows right after the call. Non-trivial = distinct (local, bucket_size, subset, target, api) cases with at least 2 stored keys.",
    explanation: "Complete enumeration (E3) of subsets x targets; every output is compared with the stored key set (exactly once each) and checked for non-decreasing XOR distance computed independently.",
    assumptions: &["crafted key alphabet with buckets 0, 1, (7,) 255 occupied and >= 3 keys sharing bucket 255 (small-scope)", "pending entries: one pending entry in bucket 255 of a table with bucket size 2/3 (thorough 1-4), clock advanced 500 / 1000 / 2500 ms against a 1 s pending timeout"],
};

/// guard against a never-ending iterator (far above any table size here)
const LIMIT: usize = 128;

struct Cfg {
    local_name: &'static str,
    local: B,
    bucket_size: usize,
    /// number of extra keys put into bucket 255 (distances 2^255 + (j+1)*2^16), and whether
    /// they are inserted before (true) or after (false) the subset's keys
    prefill: usize,
    prefill_first: bool,
}

/// the 20 protocol-level K_VALUE; bucket sizes above it must not lose entries
const K: usize = 20;

fn alphabet(thorough: bool) -> Vec<(String, B)> {
    let p255 = kx::pow2(255);
    let mut v = vec![
        ("1".to_string(), kx::pow2(0)),
        ("2".into(), kx::pow2(1)),
        ("3".into(), kx::inc(&kx::pow2(1))),
        ("2^255".into(), p255),
        ("2^255+1".into(), kx::inc(&p255)),
        ("2^255+2^254".into(), kx::xor(&p255, &kx::pow2(254))),
    ];
    if thorough {
        v.push(("2^7".into(), kx::pow2(7)));
        v.push(("2^7+5".into(), kx::xor(&kx::pow2(7), &[&[0u8; 31][..], &[5u8][..]].concat().try_into().unwrap())));
        v.push(("MAX".into(), kx::MAX));
    }
    v
}

/// extra target distances (from the local key), with bit 0 set and clear
fn extra_targets(thorough: bool, local: &B) -> Vec<(String, B)> {
    let small = |x: u8| -> B {
        let mut b = [0u8; 32];
        b[31] = x;
        b
    };
    let mut v = vec![
        ("4".to_string(), small(4)),
        ("5".into(), small(5)),
        ("2^8".into(), kx::pow2(8)),
        ("2^8+1".into(), kx::inc(&kx::pow2(8))),
        ("MAX-1".into(), kx::dec(&kx::MAX)),
        // several set bits with an occupied bucket strictly between the highest and the lowest
        ("MAX'".into(), kx::MAX),
        ("2^255+3".into(), kx::xor(&kx::pow2(255), &small(3))),
        ("2^255+2".into(), kx::xor(&kx::pow2(255), &small(2))),
    ];
    if thorough {
        v.push(("6".into(), small(6)));
        v.push(("7".into(), small(7)));
        let x = kx::xor(&kx::pow2(255), &kx::pow2(100));
        v.push(("2^255+2^100".into(), x));
        v.push(("2^255+2^100+1".into(), kx::inc(&x)));
        v.push(("2^254".into(), kx::pow2(254)));
        for p in 1..=3u8 {
            // an unstructured target: distance = local ^ sha256(peer p)
            v.push((format!("H(peer{p})"), kx::xor(local, &kx::key_bytes(&kx::peer_keybytes(p)))));
        }
    }
    v
}

fn cfgs(thorough: bool) -> Vec<Cfg> {
    let h0 = kx::key_bytes(&kx::peer_keybytes(0));
    let c = |local_name: &'static str, local: B, bucket_size: usize, prefill: usize, prefill_first: bool| Cfg { local_name, local, bucket_size, prefill, prefill_first };
    // number of alphabet keys living in bucket 255
    let in255 = alphabet(thorough).iter().filter(|a| kx::high_bit(&a.1) == Some(255)).count();
    let mut v = vec![
        c("H(peer0)", h0, K, 0, true),
        // bucket 255 exactly full when all its alphabet keys are stored
        c("H(peer0)", h0, in255, 0, true),
        // small bucket sizes: subsets that do not fit are skipped (counted)
        c("H(peer0)", h0, 1, 0, true),
        c("H(peer0)", h0, 2, 0, true),
        // bucket size above K_VALUE with bucket 255 filled beyond 20 entries: 20 fixed keys +
        // every subset of the alphabet keys of bucket 255, inserted before / after them
        c("H(peer0)", h0, K + in255, K, true),
        c("H(peer0)", h0, K + in255, K, false),
        c("H(peer0)", h0, K + 1, K - 1, true),
    ];
    if thorough {
        v.push(c("zero", kx::ZERO, K, 0, true));
        v.push(c("ones", kx::MAX, K, 0, true));
        v.push(c("zero", kx::ZERO, K + in255, K, false));
        v.push(c("H(peer0)", h0, 2 * K + in255, 2 * K, true));
    }
    v
}

/// distance (from the local key) of prefill key j: 2^255 + (j+1) * 2^16 (bucket 255, disjoint
/// from the alphabet)
fn prefill_distance(j: usize) -> B {
    let mut b = kx::pow2(255);
    let v = (j as u32 + 1) << 16;
    b[28] = (v >> 24) as u8;
    b[29] = (v >> 16) as u8;
    b
}

struct Case<'a> {
    cfg: &'a Cfg,
    alpha: &'a [(String, B)],
    targets: &'a [(String, B)],
    subset: u64,
    target: usize,
}

/// classify the target distance (from the local key) for signatures
fn dclass(d: &B) -> &'static str {
    if *d == kx::ZERO {
        "zero"
    } else if kx::bit(d, 0) {
        "bit0 set"
    } else {
        "bit0 clear"
    }
}

/// run one case; returns violation messages ("signature :: details"), possibly several
fn run_case(c: &Case) -> Result<Vec<String>, String> {
    let local = kx::make_key(&c.cfg.local)?;
    let mut t = Table::new(local, c.cfg.bucket_size, Duration::from_secs(1));
    let mut stored: Vec<(String, B, KeyBytes)> = Vec::new();
    // insertion plan: (name, distance, connected?)
    let mut plan: Vec<(String, B, bool)> = Vec::new();
    for (i, (n, d)) in c.alpha.iter().enumerate() {
        if c.subset & (1 << i) != 0 {
            plan.push((n.clone(), *d, i % 2 == 0));
        }
    }
    let pre: Vec<(String, B, bool)> = (0..c.cfg.prefill).map(|j| (format!("p{j}"), prefill_distance(j), j % 3 != 0)).collect();
    if c.cfg.prefill_first {
        plan.splice(0..0, pre);
    } else {
        plan.extend(pre);
    }
    // subsets that do not fit the configured bucket size are not a case of this configuration
    for b in 0..256usize {
        if plan.iter().filter(|p| kx::high_bit(&p.1) == Some(b)).count() > c.cfg.bucket_size {
            return Ok(vec!["SKIP".into()]);
        }
    }
    for (n, d, conn) in &plan {
        let kbts = kx::xor(&c.cfg.local, d);
        let k = kx::make_key(&kbts)?;
        let st = if *conn { NodeStatus::Connected } else { NodeStatus::Disconnected };
        match t.insert(&k, st) {
            Ok(kb::Inserted::Inserted) => stored.push((n.clone(), kbts, k)),
            r => return Err(format!("setup: insert of key d={n} answered {r:?}")),
        }
    }
    let (tn, td) = &c.targets[c.target];
    let tb = kx::xor(&c.cfg.local, td);
    let target = kx::make_key(&tb)?;
    let cls = dclass(td);
    let name_of = |k: &KeyBytes| -> String {
        let b = kx::key_bytes(k);
        stored.iter().find(|s| s.1 == b).map(|s| s.0.clone()).unwrap_or_else(|| format!("?{}", kx::hex(&b)))
    };
    let mut viols = Vec::new();
    let outs: Vec<(&str, Vec<KeyBytes>)> = vec![
        ("closest_keys", t.clone().closest_keys(&target, LIMIT)),
        ("closest", t.clone().closest(&target, LIMIT).into_iter().map(|(k, _)| k).collect()),
    ];
    for (api, out) in outs {
        let names: Vec<String> = out.iter().map(name_of).collect();
        let order = kb::closest_buckets_order(kx::dist_of(td), 6);
        let ctx = format!("local={} bucket_size={} target=local^{tn} stored(d)={:?} output(d)={names:?}; bucket visiting order starts {:?}", c.cfg.local_name, c.cfg.bucket_size, stored.iter().map(|s| &s.0).collect::<Vec<_>>(), order);
        // (1) each stored key exactly once
        let bytes: Vec<B> = out.iter().map(kx::key_bytes).collect();
        for b in &bytes {
            if !stored.iter().any(|s| s.1 == *b) {
                viols.push(format!("{api}: key yielded that is not stored :: {ctx}"));
            }
        }
        for s in &stored {
            let pos: Vec<usize> = bytes.iter().enumerate().filter(|(_, b)| **b == s.1).map(|(i, _)| i).collect();
            let bucket = kx::high_bit(&kx::xor(&s.1, &c.cfg.local));
            match pos.len() {
                1 => {}
                0 => viols.push(format!("{api}: stored key missing from output (bucket {bucket:?}, target distance {cls}) :: missing d={}; {ctx}", s.0)),
                2 if bucket == Some(0) && pos[1] == pos[0] + 1 => viols.push(format!("{api}: bucket-0 key yielded twice (target distance {cls}) :: {ctx}")),
                n => viols.push(format!("{api}: key yielded {n} times (bucket {bucket:?}, target distance {cls}) :: key d={}; {ctx}", s.0)),
            }
        }
        // (2) non-decreasing distance to the target (judged on the complete output)
        let dists: Vec<B> = out.iter().map(|k| kx::xor(&kx::key_bytes(k), &tb)).collect();
        if dists.windows(2).any(|w| w[0] > w[1]) {
            viols.push(format!("{api}: output not in non-decreasing distance (target distance {cls}) :: {ctx}"));
        }
    }
    // closest() must also report the status each key was inserted with
    for (k, st) in t.clone().closest(&target, LIMIT) {
        let b = kx::key_bytes(&k);
        if let Some(p) = plan.iter().find(|p| kx::xor(&c.cfg.local, &p.1) == b) {
            let want = if p.2 { NodeStatus::Connected } else { NodeStatus::Disconnected };
            if st != want {
                viols.push(format!("closest: wrong status reported :: key d={} {st:?} expected {want:?}", p.0));
            }
        }
    }
    viols.dedup();
    Ok(viols)
}

fn case_json(thorough: bool, ci: usize, subset: u64, target: usize) -> Value {
    json!({"thorough": thorough, "cfg": ci, "subset": subset, "target": target})
}

// ---------------------------------------------------------------------------------------------
// tables with a pending entry: the enumeration is the FIRST access after the clock moved, so the
// iterator itself has to apply the due pending entry. Reference = what the table stores right
// after the call (KBucketsTable::iter), which must be exactly what was enumerated.

#[derive(Clone, Debug)]
struct PCase {
    size: usize,
    /// connected? of entries 1..size (entry 0 is disconnected = the eviction candidate)
    pattern: u32,
    adv_ms: u64,
    /// subset of the low keys d=1 (bucket 0), d=2 (bucket 1)
    low: u32,
    target: usize,
}

fn pcase_json(thorough: bool, c: &PCase) -> Value {
    json!({"kind": "pending", "thorough": thorough, "size": c.size, "pattern": c.pattern, "adv_ms": c.adv_ms, "low": c.low, "target": c.target})
}

/// returns (violations, pending entry applied during the call?)
fn run_pending_case(c: &PCase, local_b: &B, targets: &[(String, B)]) -> Result<(Vec<String>, bool), String> {
    mc::vclock::reset();
    let local = kx::make_key(local_b)?;
    let mut t = Table::new(local, c.size, Duration::from_secs(1));
    let mut names: Vec<(String, B)> = Vec::new();
    let mut mk = |name: String, d: B| -> Result<KeyBytes, String> {
        let b = kx::xor(local_b, &d);
        names.push((name, b));
        kx::make_key(&b)
    };
    for j in 0..c.size {
        let conn = j > 0 && c.pattern & (1 << (j - 1)) != 0;
        let k = mk(format!("e{j}{}", if conn { "c" } else { "d" }), prefill_distance(j))?;
        match t.insert(&k, if conn { NodeStatus::Connected } else { NodeStatus::Disconnected }) {
            Ok(kb::Inserted::Inserted) => {}
            r => return Err(format!("setup: insert of entry {j} answered {r:?}")),
        }
    }
    for (i, d) in [kx::pow2(0), kx::pow2(1)].iter().enumerate() {
        if c.low & (1 << i) != 0 {
            let k = mk(format!("low{}", i + 1), *d)?;
            match t.insert(&k, NodeStatus::Connected) {
                Ok(kb::Inserted::Inserted) => {}
                r => return Err(format!("setup: insert of low key answered {r:?}")),
            }
        }
    }
    let pk = mk("P".into(), prefill_distance(c.size))?;
    match t.insert(&pk, NodeStatus::Connected) {
        Ok(kb::Inserted::Pending { .. }) => {}
        r => return Err(format!("setup: insert of the pending key answered {r:?}")),
    }
    mc::vclock::advance(Duration::from_millis(c.adv_ms));
    let (tn, td) = &targets[c.target];
    let tb = kx::xor(local_b, td);
    let target = kx::make_key(&tb)?;
    let name_of = |b: &B| names.iter().find(|n| n.1 == *b).map(|n| n.0.clone()).unwrap_or_else(|| format!("?{}", kx::hex(b)));
    let mut viols = Vec::new();
    let mut applied_any = false;
    for api in ["closest_keys", "closest"] {
        let mut tc = t.clone();
        // first access to the table after the clock moved
        let out: Vec<B> = if api == "closest_keys" { tc.closest_keys(&target, LIMIT).iter().map(kx::key_bytes).collect() } else { tc.closest(&target, LIMIT).iter().map(|e| kx::key_bytes(&e.0)).collect() };
        let mut events = Vec::new();
        while let Some((ins, ev)) = tc.take_applied_pending() {
            events.push((name_of(&kx::key_bytes(&ins)), ev.map(|k| name_of(&kx::key_bytes(&k)))));
        }
        applied_any |= !events.is_empty();
        // what the table stores right after the call
        let stored: Vec<B> = tc.iter_buckets(false).iter().flat_map(|b| b.entries.iter().map(|e| kx::key_bytes(&e.0)).collect::<Vec<_>>()).collect();
        let ctx = format!("bucket_size={} entries(first = oldest, d/c = dis/connected)+pending: {:?}, clock advanced {} ms of 1000 ms pending timeout, target=local^{tn}; enumerated {:?}; stored right after the call {:?}; applied-pending events of the call {events:?}", c.size, names.iter().map(|n| &n.0).collect::<Vec<_>>(), c.adv_ms, out.iter().map(name_of).collect::<Vec<_>>(), stored.iter().map(name_of).collect::<Vec<_>>());
        let due = if c.adv_ms >= 1000 { "due" } else { "not yet due" };
        for b in &out {
            if !stored.contains(b) {
                viols.push(format!("{api}: key yielded that is not stored after the call (table with a {due} pending entry) :: yielded {}; {ctx}", name_of(b)));
                break;
            }
        }
        for sb in &stored {
            match out.iter().filter(|b| *b == sb).count() {
                1 => {}
                0 => {
                    viols.push(format!("{api}: stored key missing from output (table with a {due} pending entry) :: missing {}; {ctx}", name_of(sb)));
                    break;
                }
                n => {
                    viols.push(format!("{api}: key yielded {n} times (table with a {due} pending entry) :: {}; {ctx}", name_of(sb)));
                    break;
                }
            }
        }
        let dists: Vec<B> = out.iter().map(|b| kx::xor(b, &tb)).collect();
        if dists.windows(2).any(|w| w[0] > w[1]) {
            viols.push(format!("{api}: output not in non-decreasing distance (table with a {due} pending entry) :: {ctx}"));
        }
    }
    Ok((viols, applied_any))
}

fn pending_cases(thorough: bool, ntargets: usize) -> Vec<PCase> {
    let mut v = Vec::new();
    let sizes: &[usize] = if thorough { &[1, 2, 3, 4] } else { &[2, 3] };
    for &size in sizes {
        for pattern in 0..(1u32 << (size - 1)) {
            for adv_ms in [500u64, 1000, 2500] {
                for low in 0..4u32 {
                    for target in 0..ntargets {
                        v.push(PCase { size, pattern, adv_ms, low, target });
                    }
                }
            }
        }
    }
    v
}

pub fn run(ctx: &Ctx) -> Outcome {
    let mut out = Outcome::default();
    if let Err(m) = kx::selftest_key_bytes() {
        out.machinery(m);
        return out;
    }
    kx::watchdog(&ctx.id, std::env::var("VERIF_WATCHDOG_S").ok().and_then(|s| s.parse().ok()).unwrap_or(ctx.tier.pick(120, 900)));
    let thorough = ctx.replay.as_ref().map(|c| c["thorough"].as_bool().unwrap_or(false)).unwrap_or(!ctx.quick());
    let alpha = alphabet(thorough);
    let cfgs = cfgs(thorough);
    let mk_targets = |cfg: &Cfg| -> Vec<(String, B)> {
        let mut t = vec![("0".to_string(), kx::ZERO)];
        t.extend(alpha.iter().cloned());
        t.extend(extra_targets(thorough, &cfg.local));
        t
    };
    if let Some(case) = &ctx.replay {
        out.evaluations = 1;
        if case["kind"] == "pending" {
            let g = |f: &str| case[f].as_u64().unwrap_or(0);
            let pc = PCase { size: g("size") as usize, pattern: g("pattern") as u32, adv_ms: g("adv_ms"), low: g("low") as u32, target: g("target") as usize };
            let targets = mk_targets(&cfgs[0]);
            match mc::catch(|| run_pending_case(&pc, &cfgs[0].local, &targets)) {
                Ok(Ok((v, _))) => {
                    for m in v {
                        out.violation(mc::bfs::signature_of(&m), m, case.clone());
                    }
                }
                Ok(Err(m)) => out.machinery(m),
                Err(p) => out.violation("panic", format!("panic :: {p}"), case.clone()),
            }
            return out;
        }
        let ci = case["cfg"].as_u64().unwrap_or(0) as usize;
        let targets = mk_targets(&cfgs[ci]);
        let c = Case { cfg: &cfgs[ci], alpha: &alpha, targets: &targets, subset: case["subset"].as_u64().unwrap_or(0), target: case["target"].as_u64().unwrap_or(0) as usize };
        match mc::catch(|| run_case(&c)) {
            Ok(Ok(v)) => {
                for m in v.into_iter().filter(|m| m != "SKIP") {
                    out.violation(mc::bfs::signature_of(&m), m, case.clone());
                }
            }
            Ok(Err(m)) => out.machinery(m),
            Err(p) => out.violation("panic", format!("panic :: {p}"), case.clone()),
        }
        return out;
    }
    let mut classes = std::collections::BTreeMap::<&'static str, u64>::new();
    let mut b0_stored_cases = 0u64;
    let mut multi_in_bucket = 0u64;
    let (mut skipped, mut over_k_cases, mut small_bucket_cases) = (0u64, 0u64, 0u64);
    for (ci, cfg) in cfgs.iter().enumerate() {
        let targets = mk_targets(cfg);
        out.count("targets_per_table", targets.len() as u64);
        for subset in mc::enumerate::subsets(alpha.len()) {
            for ti in 0..targets.len() {
                let c = Case { cfg, alpha: &alpha, targets: &targets, subset, target: ti };
                let r = mc::catch(|| run_case(&c));
                if matches!(&r, Ok(Ok(v)) if v.len() == 1 && v[0] == "SKIP") {
                    skipped += 1;
                    continue;
                }
                out.evaluations += 1;
                let in255 = alpha.iter().enumerate().filter(|(i, a)| subset & (1 << i) != 0 && kx::high_bit(&a.1) == Some(255)).count() + cfg.prefill;
                if in255 > K {
                    over_k_cases += 1;
                }
                if cfg.bucket_size <= 2 && subset != 0 {
                    small_bucket_cases += 1;
                }
                match r {
                    Ok(Ok(v)) => {
                        for m in v {
                            out.violation(mc::bfs::signature_of(&m), m, case_json(thorough, ci, subset, ti));
                        }
                    }
                    Ok(Err(m)) => out.machinery(m),
                    Err(p) => out.violation(format!("panic at {}", mc::shim::last_panic_loc().unwrap_or_default()), format!("panic :: {p}"), case_json(thorough, ci, subset, ti)),
                }
                *classes.entry(dclass(&targets[ti].1)).or_default() += 1;
                if subset.count_ones() >= 2 {
                    out.nontrivial(&format!("{ci}/{subset}/{ti}"));
                }
                if subset & 1 != 0 {
                    b0_stored_cases += 1;
                }
                if (subset >> 3) & 7 == 7 {
                    multi_in_bucket += 1;
                }
                if out.samples.len() < 3 && subset == 0b101011 && ti % 5 == 1 {
                    out.sample(json!({"local": cfg.local_name, "stored_d": alpha.iter().enumerate().filter(|(i, _)| subset & (1 << i) != 0).map(|(_, a)| a.0.clone()).collect::<Vec<_>>(), "target": format!("local^{}", targets[ti].0), "bucket_order_prefix": kb::closest_buckets_order(kx::dist_of(&targets[ti].1), 4)}));
                }
            }
        }
    }
    // tables with a (not yet due / exactly due / overdue) pending entry
    {
        let targets = mk_targets(&cfgs[0]);
        let mut applied_cases = 0u64;
        let mut not_due_cases = 0u64;
        let pcs = pending_cases(thorough, targets.len());
        for pc in &pcs {
            out.evaluations += 1;
            match mc::catch(|| run_pending_case(pc, &cfgs[0].local, &targets)) {
                Ok(Ok((v, applied))) => {
                    if applied {
                        applied_cases += 1;
                    } else {
                        not_due_cases += 1;
                    }
                    for m in v {
                        out.violation(mc::bfs::signature_of(&m), m, pcase_json(thorough, pc));
                    }
                }
                Ok(Err(m)) => out.machinery(m),
                Err(p) => out.violation(format!("panic at {}", mc::shim::last_panic_loc().unwrap_or_default()), format!("panic :: {p}"), pcase_json(thorough, pc)),
            }
            out.nontrivial(&format!("pending {pc:?}"));
        }
        out.count("pending_cases", pcs.len() as u64);
        out.count("pending_cases_where_the_enumeration_applied_the_pending_entry", applied_cases);
        out.count("pending_cases_without_application", not_due_cases);
        if applied_cases == 0 || not_due_cases == 0 {
            out.machinery(format!("vacuity: pending entry applied by the enumeration in {applied_cases} cases, not applied in {not_due_cases}"));
        }
        if let Some(pc) = pcs.get(pcs.len() / 2) {
            out.sample(json!({"pending_case": format!("{pc:?}")}));
        }
    }
    for (k, n) in &classes {
        out.count(&format!("target_distance_{}", k.replace(' ', "_")), *n);
    }
    out.count("cases_with_bucket0_key_stored", b0_stored_cases);
    out.count("cases_with_3_keys_in_bucket_255", multi_in_bucket);
    out.count("cases_with_more_than_K_VALUE_entries_in_a_bucket", over_k_cases);
    out.count("cases_with_bucket_size_1_or_2", small_bucket_cases);
    out.count("subsets_not_fitting_the_bucket_size_skipped", skipped);
    if over_k_cases == 0 || small_bucket_cases == 0 {
        out.machinery(format!("vacuity: cases with a bucket holding more than K_VALUE entries {over_k_cases}, cases with bucket size 1/2 {small_bucket_cases}"));
    }
    if classes.len() < 3 || b0_stored_cases == 0 || multi_in_bucket == 0 {
        out.machinery(format!("vacuity: target classes {classes:?}, bucket-0 cases {b0_stored_cases}, 3-in-a-bucket cases {multi_in_bucket}"));
    }
    out.notes.push(format!("{} tables x targets over {} alphabet keys, {} (local, bucket_size) configurations", out.evaluations, alpha.len(), cfgs.len()));
    out
}
