//! C41 — MemoryStore behaves like a bounded map (E2: BFS over operation histories of the real
//! store against a reference model, + un-deduplicated DFS companion).

use kit::ids::{addr, peer};
use libp2p_kad::store::{Error, MemoryStore, MemoryStoreConfig, RecordStore};
use libp2p_kad::{ProviderRecord, Record, RecordKey};
use mc::bfs::{self, System};
use mc::{json, Ctx, Meta, Outcome};
use serde::{Deserialize, Serialize};
use std::collections::BTreeMap;

pub const META: Meta = Meta {
    level: "model_checking",
    rule: "BFS over all histories of put/get/remove (3 keys x value lengths {0,3,4}) and add_provider/remove_provider (2 keys x {local,P1,P2} x 2 address variants) on the real MemoryStore with limits max_records=2,max_value_bytes=4,max_providers_per_key=2,max_provided_keys=2; states deduplicated on (reference model, every getter of the store). Non-trivial = states with at least one stored record or provider.",
    explanation: "Every reached state is compared getter-by-getter with a reference map/list model after every step; an un-deduplicated DFS to a smaller depth re-checks all paths without merging.",
    assumptions: &["3 keys / 3 providers / tiny limits (small-scope hypothesis)", "record expiry fields are not interpreted by the store and fixed to None"],
};

#[derive(Clone, Debug, Serialize, Deserialize, PartialEq)]
pub enum Act {
    Put(u8, u8),          // key, value length
    Remove(u8),
    AddProv(u8, u8, u8),  // key, provider (0 = local), address variant
    RemProv(u8, u8),
}

const CFG: MemoryStoreConfig = MemoryStoreConfig { max_records: 2, max_value_bytes: 4, max_providers_per_key: 2, max_provided_keys: 2 };

fn key(k: u8) -> RecordKey {
    RecordKey::new(&[b'k', k])
}

pub struct Sys {
    store: MemoryStore,
    // reference model
    recs: BTreeMap<u8, Vec<u8>>,
    /// per key: ordered provider list (provider, addr variant)
    provs: BTreeMap<u8, Vec<(u8, u8)>>,
    seq: u8,
}

impl Sys {
    pub fn new() -> Self {
        Sys { store: MemoryStore::with_config(peer(0), CFG), recs: BTreeMap::new(), provs: BTreeMap::new(), seq: 0 }
    }
    fn compare(&self) -> Result<(), String> {
        for k in 0..3u8 {
            let got = self.store.get(&key(k)).map(|r| r.value.clone());
            if got.as_ref() != self.recs.get(&k) {
                return Err(format!("get-mismatch :: key {k}: store {:?} model {:?}", got, self.recs.get(&k)));
            }
        }
        let n = self.store.records().count();
        if n != self.recs.len() {
            return Err(format!("records-count :: store {n} model {}", self.recs.len()));
        }
        if n > CFG.max_records {
            return Err(format!("max-records-exceeded :: {n}"));
        }
        let mut provided_model: Vec<(u8, u8)> = Vec::new();
        for k in 0..2u8 {
            let got: Vec<(u8, u8)> = self.store.providers(&key(k)).iter().map(|p| (pidx(&p.provider), avar(&p.addresses))).collect();
            let want = self.provs.get(&k).cloned().unwrap_or_default();
            if got != want {
                return Err(format!("providers-mismatch :: key {k}: store {got:?} model {want:?}"));
            }
            if got.len() > CFG.max_providers_per_key {
                return Err(format!("max-providers-exceeded :: key {k}: {}", got.len()));
            }
            for (p, a) in want {
                if p == 0 {
                    provided_model.push((k, a));
                }
            }
        }
        let mut provided: Vec<(u8, u8)> = self.store.provided().map(|p| (kidx(&p.key), avar(&p.addresses))).collect();
        provided.sort();
        provided_model.sort();
        if provided != provided_model {
            return Err(format!("provided-mismatch :: store {provided:?} model {provided_model:?}"));
        }
        Ok(())
    }
}

fn pidx(p: &libp2p_identity::PeerId) -> u8 {
    (0..3u8).find(|i| &peer(*i) == p).unwrap_or(99)
}
fn kidx(k: &RecordKey) -> u8 {
    k.as_ref().get(1).copied().unwrap_or(99)
}
fn avar(a: &[multiaddr::Multiaddr]) -> u8 {
    match a.first() {
        None => 0,
        Some(m) if *m == addr("/ip4/1.1.1.1/tcp/1") => 1,
        Some(_) => 2,
    }
}
fn addrs(v: u8) -> Vec<multiaddr::Multiaddr> {
    match v {
        0 => vec![],
        1 => vec![addr("/ip4/1.1.1.1/tcp/1")],
        _ => vec![addr("/ip4/2.2.2.2/tcp/2")],
    }
}

impl System for Sys {
    type Action = Act;
    fn actions(&self) -> Vec<Act> {
        let mut v = Vec::new();
        for k in 0..3 {
            for l in [0u8, 3, 4] {
                v.push(Act::Put(k, l));
            }
            v.push(Act::Remove(k));
        }
        for k in 0..2 {
            for p in 0..3 {
                for a in 0..2 {
                    v.push(Act::AddProv(k, p, a));
                }
                v.push(Act::RemProv(k, p));
            }
        }
        v
    }
    fn step(&mut self, a: &Act) -> Result<(), String> {
        match a {
            Act::Put(k, l) => {
                self.seq = self.seq.wrapping_add(1);
                let value: Vec<u8> = (0..*l).map(|i| self.seq.wrapping_add(i)).collect();
                let r = self.store.put(Record { key: key(*k), value: value.clone(), publisher: None, expires: None });
                // reference
                let want: Result<(), &str> = if *l as usize >= CFG.max_value_bytes {
                    Err("ValueTooLarge")
                } else if !self.recs.contains_key(k) && self.recs.len() >= CFG.max_records {
                    Err("MaxRecords")
                } else {
                    self.recs.insert(*k, value);
                    Ok(())
                };
                let got = match &r {
                    Ok(()) => Ok(()),
                    Err(Error::ValueTooLarge) => Err("ValueTooLarge"),
                    Err(Error::MaxRecords) => Err("MaxRecords"),
                    Err(_) => Err("other"),
                };
                if got != want {
                    return Err(format!("put-result :: {a:?}: store {got:?} model {want:?}"));
                }
            }
            Act::Remove(k) => {
                self.store.remove(&key(*k));
                self.recs.remove(k);
            }
            Act::AddProv(k, p, av) => {
                let r = self.store.add_provider(ProviderRecord { key: key(*k), provider: peer(*p), expires: None, addresses: addrs(*av) });
                // The statement fixes: at most max_providers_per_key per key, re-adding updates
                // in place, provided() = local records. Whether a *new key* is refused
                // (MaxProvidedKeys) is left to the store; the model follows the store's answer
                // there and only requires that a refusal changes nothing.
                if r.is_ok() {
                    let list = self.provs.entry(*k).or_default();
                    if let Some(e) = list.iter_mut().find(|e| e.0 == *p) {
                        e.1 = *av;
                    } else if list.len() < CFG.max_providers_per_key {
                        list.push((*p, *av));
                    }
                    if list.is_empty() {
                        self.provs.remove(k);
                    }
                } else if self.provs.contains_key(k) {
                    return Err(format!("add-provider-refused-existing-key :: {a:?} refused although key already has providers"));
                }
            }
            Act::RemProv(k, p) => {
                self.store.remove_provider(&key(*k), &peer(*p));
                if let Some(list) = self.provs.get_mut(k) {
                    list.retain(|e| e.0 != *p);
                    if list.is_empty() {
                        self.provs.remove(k);
                    }
                }
            }
        }
        self.compare()
    }
    fn canon(&self) -> Vec<u8> {
        // model state + store projections (equal to the model by `compare`, so the model
        // suffices *after* compare passed); values are identified by content
        format!("{:?}|{:?}", self.recs, self.provs).into_bytes()
    }
    fn nontrivial(&self) -> bool {
        !self.recs.is_empty() || !self.provs.is_empty()
    }
}

pub fn run(ctx: &Ctx) -> Outcome {
    let mut out = Outcome::default();
    let cfg = json!({"limits": "2/4/2/2"});
    if let Some(case) = &ctx.replay {
        out.evaluations = 1;
        if let Err(m) = bfs::replay_history(Sys::new(), case) {
            out.violation(bfs::signature_of(&m), m, case.clone());
        }
        return out;
    }
    let depth = ctx.tier.pick(5, 7);
    let (st, v) = bfs::bfs_replay(Sys::new, depth, 3_000_000);
    bfs::record(&mut out, &cfg, &st, &v);
    let ddepth = ctx.tier.pick(3, 4);
    let (n, capped, v2) = bfs::dfs_all(Sys::new, ddepth, 5_000_000);
    out.count("dfs_companion_sequences", n);
    out.evaluations += n;
    out.traces += n;
    if capped {
        out.caps.push(format!("dfs companion capped at {n} sequences"));
    }
    bfs::record(&mut out, &cfg, &Default::default(), &v2);
    out.notes.push(format!("bfs depth {depth}, dfs companion depth {ddepth}"));
    out
}
