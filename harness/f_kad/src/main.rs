//! Family binary: Kademlia (C37–C44).
mod c41;

fn main() {
    mc::main_dispatch(&[("C41", c41::run, c41::META)]);
}
