//! Family binary: Kademlia (C37–C44).
mod c37;
mod c38;
mod c39;
mod c40;
mod c41;
mod kx;

fn main() {
    mc::main_dispatch(&[("C37", c37::run, c37::META), ("C38", c38::run, c38::META), ("C39", c39::run, c39::META), ("C40", c40::run, c40::META), ("C41", c41::run, c41::META)]);
}
