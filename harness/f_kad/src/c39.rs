//! C39 — iterative lookups are bounded, terminate and return the closest responders.
//! E2: complete state-graph exploration of the real `ClosestPeersIter` (Clone; states
//! deduplicated on its time-normalised `Debug` rendering + harness bookkeeping) over small peer
//! graphs with every pattern of success / failure / timeout / late answer; cycle detection for
//! termination. `FixedPeersIter` and `ClosestDisjointPeersIter` (not Clone, no Debug) are
//! explored by replay (mc::bfs) on smaller bounds.
//!
//! Reading of the statement used by the oracle (DESIGN §4 C39):
//!  * in-flight = requests handed out by `next`, not yet answered and not yet timed out
//!    (`now < handed_out + peer_timeout`), counted by the harness, not by the iterator;
//!  * in-flight <= max(num_results, parallelism) always; a *new* peer is handed out only while
//!    in-flight < parallelism, or < max(num_results, parallelism) while the iterator's own state
//!    (read from `Debug`) is `Stalled` (temporary over-parallelism after leaving `Stalled` is
//!    accepted as long as no new peer is handed out);
//!  * termination: the explored state graph has no cycle through distinct states, a `next` that
//!    changes nothing is only accepted while a request is in flight, so every maximal path
//!    ends `Finished`;
//!  * result: only peers that answered successfully, strictly increasing distance, at most
//!    num_results; when `next` itself reports `Finished`, no learned peer closer than the
//!    farthest returned one is un-contacted or in flight.

use libp2p_identity::PeerId;
use libp2p_kad::verif_kad::kb::KeyBytes;
use libp2p_kad::verif_kad::q::{ClosestPeersIter, ClosestPeersIterConfig, Disjoint, Fixed, Next, PeersIterState};
use libp2p_kad::KBucketKey;
use mc::bfs::{self, System};
use mc::{json, Ctx, Meta, Outcome};
use serde::{Deserialize, Serialize};
use std::collections::HashMap;
use std::num::NonZeroUsize;
use std::sync::atomic::{AtomicU64, Ordering::Relaxed};
use std::time::{Duration, Instant};

pub const META: Meta = Meta {
    level: "model_checking",
    rule: "ClosestPeersIter: for every configuration (peer graph, initially known set, parallelism in {1,2}, num_results in {1,2,3}) the complete state graph under the environment actions next / success(p) with p's fixed closer-peers answer / failure(p) / advance(timeout/2) / advance(timeout) (answers also after the timeout) is explored; graphs: all 64 answer functions on 3 peers x all 7 non-empty known sets, plus structured graphs (chain towards / away from the target, star, complete, silent, two chains, lure) on 5 (quick) / 6 (thorough) peers, thorough adds all 4096 answer functions on 4 peers x known set {closest} / {farthest} x (parallelism, num_results) in {(1,2),(2,3)}, and the structured graphs on 5 peers. FixedPeersIter: all peer lists of length <= 3 (thorough 4) over 3 peers incl. duplicates x parallelism {1,2}. ClosestDisjointPeersIter: structured graphs on 3 (thorough 4) peers, un-deduplicated histories. Non-trivial = configurations whose exploration reaches at least 10 states.",
    explanation: "Every transition executes the real iterator; in-flight bound, hand-out rule, result and closeness oracles are judged on every transition; termination by cycle detection on the explored graph and a no-progress rule for next.",
    assumptions: &["peer graphs on <= 5 (quick) / 6 (thorough) peers; each peer's answer is fixed per configuration (small-scope)", "time advances in steps of peer_timeout/2 and peer_timeout", "whether the iterator is Stalled is read from its Debug rendering"],
};

const T_NS: u64 = 10_000_000_000; // peer_timeout 10 s

static STALLED_HANDOUT: AtomicU64 = AtomicU64::new(0);
static TIMEOUTS_SEEN: AtomicU64 = AtomicU64::new(0);
static LATE_ANSWERS: AtomicU64 = AtomicU64::new(0);
static FINISHED_FULL: AtomicU64 = AtomicU64::new(0);
static FINISHED_SHORT: AtomicU64 = AtomicU64::new(0);
static OVER_PAR_INFLIGHT: AtomicU64 = AtomicU64::new(0);
static CLOSENESS_CHECKED: AtomicU64 = AtomicU64::new(0);

#[derive(Clone, Debug, Serialize, Deserialize, PartialEq)]
pub struct Cfg {
    pub n: u8,
    /// answers[i] = bitmask of peers (by rank) that peer i reports as closer peers
    pub answers: Vec<u8>,
    /// bitmask of initially known peers
    pub init: u8,
    pub par: usize,
    pub nr: usize,
    pub name: String,
}

#[derive(Clone, Debug, Serialize, Deserialize, PartialEq)]
pub enum Act {
    Next,
    Succ(u8),
    Fail(u8),
    AdvHalf,
    AdvFull,
}

#[derive(Clone, Copy, Debug, PartialEq)]
enum P {
    Unknown,
    Known,
    /// handed out; deadline (ns offset)
    Waiting(u64),
    Succ,
    Fail,
}

fn target() -> KBucketKey<PeerId> {
    KBucketKey::from(kit::ids::peer(100))
}

/// peers 1..=n sorted by distance to the target: rank -> PeerId
fn ranked(n: u8) -> Vec<PeerId> {
    let t = target();
    let mut v: Vec<PeerId> = (1..=n).map(kit::ids::peer).collect();
    v.sort_by_key(|p| KBucketKey::from(*p).distance(&t));
    v
}

#[derive(Clone)]
pub struct Sys {
    cfg: Cfg,
    peers: Vec<PeerId>,
    iter: ClosestPeersIter,
    t0: Instant,
    t0_ns: u64,
    now: u64,
    st: Vec<P>,
    finished: bool,
}

fn instant_ns(i: &Instant) -> u64 {
    parse_instants(&format!("{i:?}")).first().copied().unwrap_or(0)
}

/// all `Instant { tv_sec: S, tv_nsec: N }` occurrences as ns
fn parse_instants(s: &str) -> Vec<u64> {
    let mut out = Vec::new();
    let mut rest = s;
    while let Some(i) = rest.find("tv_sec:") {
        rest = &rest[i + 7..];
        let sec: String = rest.chars().skip_while(|c| !c.is_ascii_digit()).take_while(|c| c.is_ascii_digit()).collect();
        let Some(j) = rest.find("tv_nsec:") else { break };
        rest = &rest[j + 8..];
        let ns: String = rest.chars().skip_while(|c| !c.is_ascii_digit()).take_while(|c| c.is_ascii_digit()).collect();
        out.push(sec.parse::<u64>().unwrap_or(0) * 1_000_000_000 + ns.parse::<u64>().unwrap_or(0));
    }
    out
}

/// Debug rendering with every Instant replaced by its remaining time relative to `now_abs`
fn normalise(dbg: &str, now_abs: u64) -> String {
    let mut out = String::with_capacity(dbg.len());
    let mut rest = dbg;
    while let Some(i) = rest.find("Instant {") {
        out.push_str(&rest[..i]);
        let end = rest[i..].find('}').map(|e| i + e + 1).unwrap_or(rest.len());
        let abs = parse_instants(&rest[i..end]).first().copied().unwrap_or(0);
        if abs <= now_abs {
            out.push_str("<due>");
        } else {
            out.push_str(&format!("<in {}>", abs - now_abs));
        }
        rest = &rest[end..];
    }
    out.push_str(rest);
    out
}

impl Sys {
    pub fn new(cfg: &Cfg) -> Self {
        mc::vclock::reset();
        let peers = ranked(cfg.n);
        let t0 = Instant::now();
        let config = ClosestPeersIterConfig { parallelism: NonZeroUsize::new(cfg.par).unwrap(), num_results: NonZeroUsize::new(cfg.nr).unwrap(), peer_timeout: Duration::from_nanos(T_NS) };
        let known: Vec<KBucketKey<PeerId>> = (0..cfg.n).filter(|i| cfg.init & (1 << i) != 0).map(|i| KBucketKey::from(peers[i as usize])).collect();
        let tk: KeyBytes = target().into();
        let iter = ClosestPeersIter::with_config(config, tk, known);
        let st = (0..cfg.n).map(|i| if cfg.init & (1 << i) != 0 { P::Known } else { P::Unknown }).collect();
        Sys { cfg: cfg.clone(), peers, iter, t0, t0_ns: instant_ns(&t0), now: 0, st, finished: false }
    }
    fn inflight(&self) -> usize {
        self.st.iter().filter(|p| matches!(p, P::Waiting(d) if *d > self.now)).count()
    }
    fn bound(&self) -> usize {
        self.cfg.nr.max(self.cfg.par)
    }
    fn rank_of(&self, p: &PeerId) -> Option<u8> {
        self.peers.iter().position(|x| x == p).map(|i| i as u8)
    }
    pub fn canon(&self) -> String {
        let d = normalise(&format!("{:?}", self.iter), self.t0_ns + self.now);
        let m: Vec<String> = self
            .st
            .iter()
            .map(|p| match p {
                P::Waiting(d) if *d > self.now => format!("W{}", d - self.now),
                P::Waiting(_) => "X".into(),
                o => format!("{o:?}"),
            })
            .collect();
        format!("{d}|{m:?}|{}", self.finished)
    }
    pub fn actions(&self) -> Vec<Act> {
        if self.finished {
            return vec![];
        }
        let mut v = vec![Act::Next];
        for (i, p) in self.st.iter().enumerate() {
            if matches!(p, P::Waiting(_)) {
                v.push(Act::Succ(i as u8));
                v.push(Act::Fail(i as u8));
            }
        }
        if self.inflight() > 0 {
            v.push(Act::AdvHalf);
            v.push(Act::AdvFull);
        }
        v
    }
    fn check_result(&self, self_finished: bool) -> Result<(), String> {
        let res: Vec<PeerId> = self.iter.clone().into_result().collect();
        let mut ranks = Vec::new();
        for p in &res {
            let r = self.rank_of(p).ok_or("result-unknown-peer :: result contains a peer outside the graph")?;
            if self.st[r as usize] != P::Succ {
                return Err(format!("result-not-responded :: result contains peer rank {r} whose state is {:?}", self.st[r as usize]));
            }
            ranks.push(r);
        }
        if ranks.windows(2).any(|w| w[0] >= w[1]) {
            return Err(format!("result-not-ascending :: result ranks {ranks:?}"));
        }
        if ranks.len() > self.cfg.nr {
            return Err(format!("result-too-long :: {} results, num_results {}", ranks.len(), self.cfg.nr));
        }
        if ranks.len() == self.cfg.nr {
            FINISHED_FULL.fetch_add(1, Relaxed);
        } else {
            FINISHED_SHORT.fetch_add(1, Relaxed);
        }
        if self_finished {
            if let Some(far) = ranks.last() {
                CLOSENESS_CHECKED.fetch_add(1, Relaxed);
                for r in 0..*far {
                    match self.st[r as usize] {
                        P::Known => return Err(format!("finished-closer-peer-uncontacted :: finished with result ranks {ranks:?} but learned peer rank {r} was never contacted")),
                        P::Waiting(d) if d > self.now => return Err(format!("finished-closer-peer-in-flight :: finished with result ranks {ranks:?} while the request to closer peer rank {r} is still in flight")),
                        _ => {}
                    }
                }
            }
        }
        Ok(())
    }
    pub fn step(&mut self, a: &Act) -> Result<(), String> {
        match a {
            Act::Next => {
                let before = self.canon();
                let stalled = format!("{:?}", self.iter).contains("state: Stalled");
                let infl = self.inflight();
                let r: Next = match self.iter.next(self.t0 + Duration::from_nanos(self.now)) {
                    PeersIterState::Waiting(Some(p)) => Next::Peer(p.into_owned()),
                    PeersIterState::Waiting(None) => Next::WaitingNone,
                    PeersIterState::WaitingAtCapacity => Next::AtCapacity,
                    PeersIterState::Finished => Next::Finished,
                };
                match r {
                    Next::Peer(p) => {
                        let rk = self.rank_of(&p).ok_or("handout-unknown-peer :: next() handed out a peer outside the graph")?;
                        if self.st[rk as usize] != P::Known {
                            return Err(format!("handout-not-fresh :: next() handed out peer rank {rk} whose state is {:?}", self.st[rk as usize]));
                        }
                        let limit = if stalled { self.bound() } else { self.cfg.par };
                        if infl >= limit {
                            return Err(format!("handout-over-parallelism :: new peer rank {rk} handed out with {infl} requests in flight (parallelism {}, num_results {}, stalled {stalled})", self.cfg.par, self.cfg.nr));
                        }
                        if stalled && infl >= self.cfg.par {
                            STALLED_HANDOUT.fetch_add(1, Relaxed);
                        }
                        self.st[rk as usize] = P::Waiting(self.now + T_NS);
                    }
                    Next::Finished => {
                        self.finished = true;
                        self.check_result(true)?;
                    }
                    Next::WaitingNone | Next::AtCapacity => {
                        if infl == 0 && self.canon() == before {
                            // signature: what kind of stall (so that one known stall cannot hide another)
                            let expired = self.st.iter().any(|p| matches!(p, P::Waiting(_)));
                            let uncontacted = self.st.iter().any(|p| *p == P::Known);
                            return Err(format!("stuck ({r:?}, timed-out unanswered request: {expired}, un-contacted known peer: {uncontacted}) :: next() changes nothing although no request is in flight (peer states {:?})", self.st));
                        }
                    }
                }
            }
            Act::Succ(i) | Act::Fail(i) => {
                let i = *i as usize;
                let P::Waiting(d) = self.st[i] else { return Err("machinery: response for a peer that is not waiting".into()) };
                if d <= self.now {
                    LATE_ANSWERS.fetch_add(1, Relaxed);
                }
                let peer = self.peers[i];
                let ok = if matches!(a, Act::Succ(_)) {
                    let ans: Vec<PeerId> = (0..self.cfg.n).filter(|j| self.cfg.answers[i] & (1 << j) != 0).map(|j| self.peers[j as usize]).collect();
                    let ok = self.iter.on_success(&peer, ans);
                    if ok {
                        self.st[i] = P::Succ;
                        for j in 0..self.cfg.n as usize {
                            if self.cfg.answers[i] & (1 << j) != 0 && self.st[j] == P::Unknown {
                                self.st[j] = P::Known;
                            }
                        }
                    }
                    ok
                } else {
                    let ok = self.iter.on_failure(&peer);
                    if ok {
                        self.st[i] = P::Fail;
                    }
                    ok
                };
                if !ok {
                    return Err(format!("model-response-refused :: {a:?} for a contacted, unanswered peer returned false"));
                }
            }
            Act::AdvHalf | Act::AdvFull => {
                let before = self.inflight();
                self.now += if *a == Act::AdvHalf { T_NS / 2 } else { T_NS };
                if self.inflight() < before {
                    TIMEOUTS_SEEN.fetch_add(1, Relaxed);
                }
            }
        }
        let infl = self.inflight();
        if infl > self.bound() {
            return Err(format!("inflight-over-bound :: {infl} requests in flight, max(num_results, parallelism) = {}", self.bound()));
        }
        if infl > self.cfg.par {
            OVER_PAR_INFLIGHT.fetch_add(1, Relaxed);
        }
        if self.iter.is_finished() != self.finished && !self.finished {
            return Err("model-finished :: is_finished() true without next() reporting Finished".into());
        }
        Ok(())
    }
}

pub struct Explored {
    pub states: u64,
    pub transitions: u64,
    pub finished_states: u64,
    pub max_depth: usize,
    pub violations: Vec<(Vec<Act>, String, Option<usize>)>,
    pub capped: bool,
}

/// complete exploration of one configuration
pub fn explore(cfg: &Cfg, cap: usize) -> Explored {
    struct Node {
        parent: usize,
        act: Option<Act>,
        depth: usize,
    }
    let hist = |nodes: &Vec<Node>, mut i: usize| -> Vec<Act> {
        let mut h = Vec::new();
        while let Some(a) = &nodes[i].act {
            h.push(a.clone());
            i = nodes[i].parent;
        }
        h.reverse();
        h
    };
    let mut ex = Explored { states: 0, transitions: 0, finished_states: 0, max_depth: 0, violations: vec![], capped: false };
    let mut sigs = std::collections::HashSet::new();
    let s0 = Sys::new(cfg);
    let mut ids: HashMap<u128, usize> = HashMap::new();
    let mut nodes: Vec<Node> = vec![Node { parent: 0, act: None, depth: 0 }];
    let mut edges: Vec<Vec<usize>> = vec![vec![]];
    ids.insert(bfs::h128(s0.canon().as_bytes()), 0);
    let mut frontier = vec![(s0, 0usize)];
    'outer: while !frontier.is_empty() {
        let mut next = Vec::new();
        for (s, id) in frontier {
            if s.finished {
                ex.finished_states += 1;
            }
            for a in s.actions() {
                let mut s2 = s.clone();
                ex.transitions += 1;
                let r = mc::catch(|| s2.step(&a)).unwrap_or_else(|p| Err(format!("panic at {} :: {p}", mc::shim::last_panic_loc().unwrap_or_default())));
                if let Err(m) = r {
                    if sigs.insert(bfs::signature_of(&m)) {
                        let mut h = hist(&nodes, id);
                        h.push(a.clone());
                        ex.violations.push((h, m, None));
                    }
                    continue;
                }
                let k = bfs::h128(s2.canon().as_bytes());
                let to = match ids.get(&k) {
                    Some(t) => *t,
                    None => {
                        let t = nodes.len();
                        ids.insert(k, t);
                        nodes.push(Node { parent: id, act: Some(a.clone()), depth: nodes[id].depth + 1 });
                        edges.push(vec![]);
                        ex.max_depth = ex.max_depth.max(nodes[t].depth);
                        next.push((s2, t));
                        t
                    }
                };
                if to != id {
                    edges[id].push(to);
                }
                if nodes.len() >= cap {
                    ex.capped = true;
                    break 'outer;
                }
            }
        }
        frontier = next;
    }
    ex.states = nodes.len() as u64;
    // cycle detection (iterative 3-colour DFS)
    let n = nodes.len();
    let mut colour = vec![0u8; n];
    let mut stack: Vec<(usize, usize)> = vec![(0, 0)];
    colour[0] = 1;
    while let Some((v, ei)) = stack.pop() {
        if ei < edges[v].len() {
            stack.push((v, ei + 1));
            let w = edges[v][ei];
            if colour[w] == 0 {
                colour[w] = 1;
                stack.push((w, 0));
            } else if colour[w] == 1 {
                if sigs.insert("cycle".to_string()) {
                    // history: path to v, then the edge back to w
                    let h = hist(&nodes, v);
                    ex.violations.push((h, format!("cycle :: the state graph has a cycle: state at depth {} leads back to an ancestor state at depth {}", nodes[v].depth, nodes[w].depth), Some(nodes[w].depth)));
                }
            }
        } else {
            colour[v] = 2;
        }
    }
    ex
}

fn replay_closest(cfg: &Cfg, hist: &[Act]) -> Result<(), String> {
    let mut s = Sys::new(cfg);
    for a in hist {
        if !s.actions().contains(a) {
            return Err(format!("machinery: action {a:?} not enabled on replay"));
        }
        mc::catch(|| s.step(a)).unwrap_or_else(|p| Err(format!("panic at {} :: {p}", mc::shim::last_panic_loc().unwrap_or_default())))?;
    }
    Ok(())
}

// ---------------------------------------------------------------------------------------------
// configurations

fn structured(n: u8) -> Vec<(String, Vec<u8>, u8)> {
    let all: u8 = ((1u16 << n) - 1) as u8;
    let far = 1u8 << (n - 1);
    let mut v = Vec::new();
    // chain towards the target: the farthest is known, each peer reports the next closer one
    v.push(("chain-in".to_string(), (0..n).map(|i| if i > 0 { 1 << (i - 1) } else { 0 }).collect(), far));
    // chain away from the target: the closest is known, each reports the next farther one
    v.push(("chain-out".into(), (0..n).map(|i| if i + 1 < n { 1 << (i + 1) } else { 0 }).collect(), 1));
    // star: the farthest knows everybody else, nobody else knows anything
    v.push(("star".into(), (0..n).map(|i| if i == n - 1 { all & !far } else { 0 }).collect(), far));
    // complete: everybody reports everybody else; two known
    v.push(("complete".into(), (0..n).map(|i| all & !(1 << i)).collect(), far | 1));
    // silent: everybody known, nobody reports anything
    v.push(("silent".into(), vec![0; n as usize], all));
    // two chains (even / odd ranks), both ends known
    v.push(("two-chains".into(), (0..n).map(|i| if i >= 2 { 1 << (i - 2) } else { 0 }).collect(), far | (far >> 1)));
    // lure: known close peers report only farther peers
    v.push(("lure".into(), (0..n).map(|i| if i < 2 { all & !3 } else { 0 }).collect(), 3));
    v
}

fn configs(thorough: bool) -> Vec<Cfg> {
    let mut v = Vec::new();
    let pn: Vec<(usize, usize)> = [1usize, 2].iter().flat_map(|p| [1usize, 2, 3].iter().map(move |n| (*p, *n))).collect();
    // all answer functions on 3 peers x all non-empty known sets
    for g in 0..64u32 {
        let answers: Vec<u8> = (0..3).map(|i| {
            let two = ((g >> (2 * i)) & 3) as u8; // subset of the two *other* peers
            let others: Vec<u8> = (0..3u8).filter(|j| *j != i as u8).collect();
            (if two & 1 != 0 { 1 << others[0] } else { 0 }) | (if two & 2 != 0 { 1 << others[1] } else { 0 })
        }).collect();
        for init in 1..8u8 {
            for (par, nr) in &pn {
                v.push(Cfg { n: 3, answers: answers.clone(), init, par: *par, nr: *nr, name: format!("all3/{g}") });
            }
        }
    }
    let big = if thorough { 6 } else { 5 };
    for (name, answers, init) in structured(big) {
        for (par, nr) in &pn {
            v.push(Cfg { n: big, answers: answers.clone(), init, par: *par, nr: *nr, name: name.clone() });
        }
    }
    if thorough {
        for (name, answers, init) in structured(5) {
            for (par, nr) in &pn {
                v.push(Cfg { n: 5, answers: answers.clone(), init, par: *par, nr: *nr, name: name.clone() });
            }
        }
        // all answer functions on 4 peers x known sets of size 1 and 2
        for g in 0..4096u32 {
            let answers: Vec<u8> = (0..4).map(|i| {
                let three = ((g >> (3 * i)) & 7) as u8;
                let others: Vec<u8> = (0..4u8).filter(|j| *j != i as u8).collect();
                (0..3).map(|b| if three & (1 << b) != 0 { 1u8 << others[b] } else { 0 }).sum()
            }).collect();
            // known set: only the closest or only the farthest peer; (parallelism, num_results)
            // in {(1,2), (2,3)} (the full product does not fit the thorough budget)
            for init in [1u8, 8] {
                for (par, nr) in &[(1usize, 2usize), (2, 3)] {
                    v.push(Cfg { n: 4, answers: answers.clone(), init, par: *par, nr: *nr, name: format!("all4/{g}") });
                }
            }
        }
    }
    v
}

// ---------------------------------------------------------------------------------------------
// FixedPeersIter (replay-based BFS; the canonical key is the harness bookkeeping, which for this
// iterator determines everything: position in the list and per-peer state)

#[derive(Clone, Debug, Serialize, Deserialize, PartialEq)]
pub struct FCfg {
    list: Vec<u8>,
    par: usize,
}
pub struct FSys {
    cfg: FCfg,
    it: Option<Fixed>,
    /// per distinct peer: 0 not yet, 1 waiting, 2 succ, 3 fail
    st: [u8; 3],
    handed: Vec<u8>,
    finished: bool,
}
impl FSys {
    fn new(cfg: &FCfg) -> Self {
        let peers: Vec<PeerId> = cfg.list.iter().map(|i| kit::ids::peer(*i + 1)).collect();
        FSys { cfg: cfg.clone(), it: Some(Fixed::new(peers, NonZeroUsize::new(cfg.par).unwrap())), st: [0; 3], handed: vec![], finished: false }
    }
    fn waiting(&self) -> usize {
        self.st.iter().filter(|s| **s == 1).count()
    }
}
impl System for FSys {
    type Action = Act;
    fn actions(&self) -> Vec<Act> {
        if self.finished {
            return vec![];
        }
        let mut v = vec![Act::Next];
        for i in 0..3u8 {
            if self.st[i as usize] == 1 {
                v.push(Act::Succ(i));
                v.push(Act::Fail(i));
            }
        }
        v
    }
    fn step(&mut self, a: &Act) -> Result<(), String> {
        if self.finished {
            return Ok(()); // (replay of a history recorded on a different tree)
        }
        let it = self.it.as_mut().unwrap();
        match a {
            Act::Next => {
                let w = self.st.iter().filter(|s| **s == 1).count();
                match it.next() {
                    Next::Peer(p) => {
                        let i = (0..3u8).find(|i| kit::ids::peer(i + 1) == p).ok_or("fixed-handout-unknown-peer :: peer outside the list")?;
                        if self.st[i as usize] != 0 {
                            return Err(format!("fixed-handout-not-fresh :: peer {i} handed out twice"));
                        }
                        if w >= self.cfg.par {
                            return Err(format!("fixed-handout-over-parallelism :: new peer handed out with {w} in flight, parallelism {}", self.cfg.par));
                        }
                        // order: the first not yet handed-out peer of the list
                        let want = self.cfg.list.iter().find(|x| !self.handed.contains(x)).copied();
                        if want != Some(i) {
                            return Err(format!("fixed-handout-order :: handed out {i}, next distinct peer of the list is {want:?}"));
                        }
                        self.st[i as usize] = 1;
                        self.handed.push(i);
                    }
                    Next::Finished => {
                        self.finished = true;
                        if w > 0 {
                            return Err(format!("fixed-finished-while-waiting :: Finished with {w} requests in flight"));
                        }
                        if self.cfg.list.iter().any(|x| self.st[*x as usize] == 0) {
                            return Err("fixed-finished-uncontacted :: Finished although a listed peer was never contacted".into());
                        }
                        let mut res: Vec<u8> = self.it.take().unwrap().into_result().iter().map(|p| (0..3u8).find(|i| kit::ids::peer(i + 1) == *p).unwrap_or(9)).collect();
                        res.sort();
                        let want: Vec<u8> = (0..3u8).filter(|i| self.st[*i as usize] == 2).collect();
                        if res != want {
                            return Err(format!("fixed-result :: result {res:?}, peers that answered successfully {want:?}"));
                        }
                    }
                    r => {
                        if w == 0 {
                            return Err(format!("fixed-stuck :: next() = {r:?} with nothing in flight"));
                        }
                        let more = self.cfg.list.iter().any(|x| self.st[*x as usize] == 0);
                        if r == Next::AtCapacity && w < self.cfg.par {
                            return Err(format!("fixed-capacity :: AtCapacity with {w} < parallelism in flight"));
                        }
                        if r == Next::WaitingNone && more && w < self.cfg.par {
                            return Err("fixed-stuck :: Waiting(None) although an uncontacted peer remains and capacity is free".into());
                        }
                    }
                }
            }
            Act::Succ(i) | Act::Fail(i) => {
                let p = kit::ids::peer(*i + 1);
                let ok = if matches!(a, Act::Succ(_)) { it.on_success(&p) } else { it.on_failure(&p) };
                if !ok {
                    return Err(format!("fixed-response-refused :: {a:?} returned false for a waiting peer"));
                }
                self.st[*i as usize] = if matches!(a, Act::Succ(_)) { 2 } else { 3 };
            }
            _ => {}
        }
        if self.waiting() > self.cfg.par {
            return Err(format!("fixed-inflight-over-bound :: {} in flight, parallelism {}", self.waiting(), self.cfg.par));
        }
        Ok(())
    }
    fn canon(&self) -> Vec<u8> {
        format!("{:?}{:?}{}", self.st, self.handed, self.finished).into_bytes()
    }
    fn nontrivial(&self) -> bool {
        self.handed.len() >= 2
    }
}

fn fixed_cfgs(thorough: bool) -> Vec<FCfg> {
    let mut v = Vec::new();
    let maxlen = if thorough { 4 } else { 3 };
    mc::enumerate::sequences_upto(3, maxlen, |idx| {
        for par in [1usize, 2] {
            v.push(FCfg { list: idx.iter().map(|x| *x as u8).collect(), par });
        }
    });
    v
}

// ---------------------------------------------------------------------------------------------
// ClosestDisjointPeersIter (replay-based, un-deduplicated: the canonical key is the history)

pub struct DSys {
    cfg: Cfg,
    peers: Vec<PeerId>,
    it: Option<Disjoint>,
    t0: Instant,
    now: u64,
    st: Vec<P>,
    finished: bool,
    hist: Vec<u8>,
    noop_next: u8,
    /// (advance, fruitless next) rounds since the last hand-out or answer
    idle_adv: u8,
    last_adv: bool,
    /// an answer was delivered for which the composite returned `false` (the path that asked
    /// had already finished): another path may then keep waiting for that peer until its timeout
    orphaned: bool,
}
static D_MAX_INFLIGHT: AtomicU64 = AtomicU64::new(0);
static D_FINISHED: AtomicU64 = AtomicU64::new(0);
impl DSys {
    fn new(cfg: &Cfg) -> Self {
        mc::vclock::reset();
        let peers = ranked(cfg.n);
        let config = ClosestPeersIterConfig { parallelism: NonZeroUsize::new(cfg.par).unwrap(), num_results: NonZeroUsize::new(cfg.nr).unwrap(), peer_timeout: Duration::from_nanos(T_NS) };
        let known: Vec<KBucketKey<PeerId>> = (0..cfg.n).filter(|i| cfg.init & (1 << i) != 0).map(|i| KBucketKey::from(peers[i as usize])).collect();
        let st = (0..cfg.n).map(|i| if cfg.init & (1 << i) != 0 { P::Known } else { P::Unknown }).collect();
        DSys { cfg: cfg.clone(), peers, it: Some(Disjoint::with_config(config, target().into(), known)), t0: Instant::now(), now: 0, st, finished: false, hist: vec![], noop_next: 0, idle_adv: 0, last_adv: false, orphaned: false }
    }
    fn inflight(&self) -> usize {
        self.st.iter().filter(|p| matches!(p, P::Waiting(d) if *d > self.now)).count()
    }
}
impl System for DSys {
    type Action = Act;
    fn actions(&self) -> Vec<Act> {
        if self.finished {
            return vec![];
        }
        let mut v = vec![];
        // a next() that handed out nothing is not repeated without an intervening event
        let unanswered = self.st.iter().any(|p| matches!(p, P::Waiting(_)));
        if self.noop_next == 0 || (!unanswered && !self.orphaned && self.noop_next as usize <= self.cfg.par + 1) {
            v.push(Act::Next);
        }
        for (i, p) in self.st.iter().enumerate() {
            if matches!(p, P::Waiting(_)) {
                v.push(Act::Succ(i as u8));
                v.push(Act::Fail(i as u8));
            }
        }
        // time passes only between two next() calls (one timeout period per step). It may pass
        // even when every request was answered: a path that picks a peer whose answer arrived
        // after the path that first asked it had finished keeps waiting for it until the timeout
        if !self.last_adv {
            v.push(Act::AdvFull);
        }
        v
    }
    fn step(&mut self, a: &Act) -> Result<(), String> {
        self.hist.push(match a {
            Act::Next => 0,
            Act::Succ(i) => 10 + i,
            Act::Fail(i) => 20 + i,
            Act::AdvHalf => 1,
            Act::AdvFull => 2,
        });
        if self.finished {
            return Ok(()); // (replay of a history recorded on a different tree)
        }
        let it = self.it.as_mut().unwrap();
        match a {
            Act::Next => {
                let infl = self.st.iter().filter(|p| matches!(p, P::Waiting(d) if *d > self.now)).count();
                match it.next(self.t0 + Duration::from_nanos(self.now)) {
                    Next::Peer(p) => {
                        let rk = self.peers.iter().position(|x| *x == p).ok_or("disjoint-handout-unknown-peer :: peer outside the graph")?;
                        if self.st[rk] != P::Known {
                            return Err(format!("disjoint-handout-not-fresh :: peer rank {rk} handed out in state {:?}", self.st[rk]));
                        }
                        self.st[rk] = P::Waiting(self.now + T_NS);
                        self.noop_next = 0;
                        self.idle_adv = 0;
                    }
                    Next::Finished => {
                        self.finished = true;
                        D_FINISHED.fetch_add(1, Relaxed);
                        let res = self.it.take().unwrap().into_result();
                        let mut ranks = Vec::new();
                        for p in &res {
                            let rk = self.peers.iter().position(|x| x == p).ok_or("disjoint-result-unknown-peer :: result outside the graph")?;
                            if self.st[rk] != P::Succ {
                                return Err(format!("disjoint-result-not-responded :: result contains peer rank {rk} in state {:?}", self.st[rk]));
                            }
                            ranks.push(rk);
                        }
                        let mut d = ranks.clone();
                        d.sort();
                        d.dedup();
                        if d.len() != ranks.len() {
                            return Err(format!("disjoint-result-duplicate :: result ranks {ranks:?}"));
                        }
                    }
                    r => {
                        // a next() that hands out nothing may still have marked expired
                        // requests inside; with nothing in flight it must make progress within
                        // a few calls (one per path + 1)
                        // Every path restarts the timeout when it "re-contacts" a peer another
                        // path already asked, so a full timeout may have to pass once per path
                        // (+1) before the composite gives up on an unanswered peer. A round =
                        // advance(timeout) followed by a next() without progress.
                        let _ = infl;
                        self.noop_next += 1;
                        if self.last_adv {
                            self.idle_adv += 1;
                        }
                        let unanswered = self.st.iter().any(|p| matches!(p, P::Waiting(_)));
                        // Strict rule: every request was answered, every answer was accepted
                        // (returned true), yet next() keeps answering "waiting" at a fixed now:
                        // some path waits for a request that does not exist.
                        if !unanswered && !self.orphaned && self.noop_next as usize > self.cfg.par + 1 {
                            return Err(format!("disjoint-phantom-wait :: next() = {r:?} {} times in a row at a fixed time although every handed-out request has been answered and every answer was accepted (peer states {:?})", self.noop_next, self.st));
                        }
                        if self.idle_adv as usize > self.cfg.par + 1 {
                            return Err(format!("disjoint-stuck :: next() = {r:?} without progress ({} calls in a row); unanswered requests: {unanswered}, full timeouts elapsed since the last event: {} (peer states {:?})", self.noop_next, self.idle_adv, self.st));
                        }
                    }
                }
                self.last_adv = false;
            }
            Act::Succ(i) | Act::Fail(i) => {
                let i = *i as usize;
                let peer = self.peers[i];
                self.noop_next = 0;
                self.idle_adv = 0;
                self.last_adv = false;
                // The return value is not judged: when the path that first contacted the peer
                // has already finished, the composite returns false although the other paths
                // are told. The peer *has* answered, which is what the result oracle needs.
                if matches!(a, Act::Succ(_)) {
                    let ans: Vec<PeerId> = (0..self.cfg.n).filter(|j| self.cfg.answers[i] & (1 << j) != 0).map(|j| self.peers[j as usize]).collect();
                    if !it.on_success(&peer, ans) {
                        self.orphaned = true;
                    }
                    self.st[i] = P::Succ;
                    for j in 0..self.cfg.n as usize {
                        if self.cfg.answers[i] & (1 << j) != 0 && self.st[j] == P::Unknown {
                            self.st[j] = P::Known;
                        }
                    }
                } else {
                    if !it.on_failure(&peer) {
                        self.orphaned = true;
                    }
                    self.st[i] = P::Fail;
                }
            }
            Act::AdvHalf | Act::AdvFull => {
                self.now += T_NS;
                self.noop_next = 0;
                self.last_adv = true;
            }
        }
        D_MAX_INFLIGHT.fetch_max(self.inflight() as u64, Relaxed);
        Ok(())
    }
    fn canon(&self) -> Vec<u8> {
        self.hist.clone()
    }
    fn nontrivial(&self) -> bool {
        self.finished
    }
}

// ---------------------------------------------------------------------------------------------

pub fn run(ctx: &Ctx) -> Outcome {
    if let Some(case) = &ctx.replay {
        let mut out = Outcome::default();
        out.evaluations = 1;
        let kind = case["cfg"]["kind"].as_str().unwrap_or("closest").to_string();
        let r: Result<(), String> = (|| {
            match kind.as_str() {
                "closest" => {
                    let cfg: Cfg = serde_json::from_value(case["cfg"]["cfg"].clone()).map_err(|e| format!("machinery: bad cfg {e}"))?;
                    let hist: Vec<Act> = serde_json::from_value(case["history"].clone()).map_err(|e| format!("machinery: bad history {e}"))?;
                    if let Some(d) = case["cycle_back_to_depth"].as_u64() {
                        // re-run the exploration of this configuration and look for the cycle
                        let _ = (d, hist);
                        let ex = explore(&cfg, 2_000_000);
                        return match ex.violations.into_iter().find(|v| v.1.starts_with("cycle")) {
                            Some(v) => Err(v.1),
                            None => Ok(()),
                        };
                    }
                    replay_closest(&cfg, &hist)
                }
                "fixed" => {
                    let cfg: FCfg = serde_json::from_value(case["cfg"]["cfg"].clone()).map_err(|e| format!("machinery: bad cfg {e}"))?;
                    bfs::replay_history(FSys::new(&cfg), case)
                }
                _ => {
                    let cfg: Cfg = serde_json::from_value(case["cfg"]["cfg"].clone()).map_err(|e| format!("machinery: bad cfg {e}"))?;
                    bfs::replay_history(DSys::new(&cfg), case)
                }
            }
        })();
        if let Err(m) = r {
            out.violation(bfs::signature_of(&m), m, case.clone());
        }
        return out;
    }
    crate::kx::watchdog(&ctx.id, std::env::var("VERIF_WATCHDOG_S").ok().and_then(|s| s.parse().ok()).unwrap_or(ctx.tier.pick(300, 2400)));
    let thorough = !ctx.quick();
    let mut out = mc::workers(ctx, ctx.tier.pick(8, 16), |ctx| {
        let mut out = Outcome::default();
        let cfgs = configs(thorough);
        let mut biggest = (0u64, String::new());
        for (i, cfg) in cfgs.iter().enumerate() {
            if !ctx.mine(i as u64) {
                continue;
            }
            out.evaluations += 1;
            let ex = explore(cfg, 1_000_000);
            out.states += ex.states;
            out.transitions += ex.transitions;
            out.traces += ex.transitions;
            out.max("max_states_per_configuration", ex.states);
            out.max("max_depth", ex.max_depth as u64);
            out.count("closest_configurations", 1);
            out.count("closest_finished_states", ex.finished_states);
            if ex.finished_states == 0 {
                out.machinery(format!("configuration {cfg:?} never reaches Finished"));
            }
            if ex.capped {
                out.caps.push(format!("state cap hit in configuration {}", cfg.name));
                out.not_exhaustive = true;
            }
            if ex.states >= 10 {
                out.nontrivial(&format!("{cfg:?}"));
            }
            if ex.states > biggest.0 {
                biggest = (ex.states, format!("{} n={} init={:#b} par={} nr={}: {} states, {} transitions, depth {}", cfg.name, cfg.n, cfg.init, cfg.par, cfg.nr, ex.states, ex.transitions, ex.max_depth));
            }
            for (h, m, cyc) in ex.violations {
                let mut case = json!({"cfg": {"kind": "closest", "cfg": cfg}, "history": h});
                if let Some(d) = cyc {
                    case["cycle_back_to_depth"] = json!(d);
                }
                out.violation(bfs::signature_of(&m), format!("{m} [configuration {} n={} answers={:?} init={:#b} parallelism={} num_results={}] after history {h:?}", cfg.name, cfg.n, cfg.answers, cfg.init, cfg.par, cfg.nr), case);
            }
        }
        if !biggest.1.is_empty() {
            out.sample(json!({"largest_configuration_of_this_worker": biggest.1}));
        }
        for (n, g) in [("stalled_handout_beyond_parallelism", &STALLED_HANDOUT), ("timeouts", &TIMEOUTS_SEEN), ("late_answers", &LATE_ANSWERS), ("finished_with_num_results", &FINISHED_FULL), ("finished_with_fewer", &FINISHED_SHORT), ("inflight_above_parallelism", &OVER_PAR_INFLIGHT), ("closeness_oracle_evaluated", &CLOSENESS_CHECKED)] {
            out.count(&format!("situation_{n}"), g.load(Relaxed));
        }
        out
    });
    for n in ["stalled_handout_beyond_parallelism", "timeouts", "late_answers", "finished_with_num_results", "finished_with_fewer", "inflight_above_parallelism", "closeness_oracle_evaluated"] {
        if out.get(&format!("situation_{n}")) == 0 {
            out.machinery(format!("vacuity: situation '{n}' never occurred"));
        }
    }
    // FixedPeersIter
    for cfg in fixed_cfgs(thorough) {
        out.evaluations += 1;
        let c = cfg.clone();
        let (st, v) = bfs::bfs_replay(move || FSys::new(&c), 16, 200_000);
        if st.depth_completed >= 16 {
            out.violation("fixed-no-termination", format!("FixedPeersIter {cfg:?}: histories longer than 16 steps exist"), json!({"cfg": {"kind": "fixed", "cfg": cfg}, "history": []}));
        }
        out.count("fixed_configurations", 1);
        out.count("fixed_states", st.states);
        bfs::record(&mut out, &json!({"kind": "fixed", "cfg": cfg}), &st, &v);
    }
    // ClosestDisjointPeersIter (un-deduplicated histories)
    let dn = ctx.tier.pick(3, 4);
    let dcap = ctx.tier.pick(150_000, 1_500_000);
    for (name, answers, init) in structured(dn) {
        for (par, nr) in [(1usize, 1usize), (2, 1), (2, 2), (2, 3)] {
            let cfg = Cfg { n: dn, answers: answers.clone(), init, par, nr, name: name.clone() };
            out.evaluations += 1;
            let c = cfg.clone();
            let (st, v) = bfs::bfs_replay(move || DSys::new(&c), 40, dcap);
            out.count("disjoint_configurations", 1);
            out.count("disjoint_histories", st.states);
            if st.capped {
                out.notes.push(format!("disjoint {name} par={par} nr={nr}: history cap {dcap} hit at depth {}", st.depth_completed));
            } else if st.depth_completed >= 40 {
                out.violation("disjoint-no-termination", format!("ClosestDisjointPeersIter {cfg:?}: histories longer than 40 steps exist"), json!({"cfg": {"kind": "disjoint", "cfg": cfg}, "history": []}));
            }
            let mut st2 = st.clone();
            st2.capped = false; // a capped disjoint exploration is reported in notes + not_exhaustive below
            if st.capped {
                out.not_exhaustive = true;
                out.caps.push(format!("disjoint {name} par={par} nr={nr}: history cap"));
            }
            bfs::record(&mut out, &json!({"kind": "disjoint", "cfg": cfg}), &st2, &v);
        }
    }
    out.count("disjoint_max_inflight_observed", D_MAX_INFLIGHT.load(Relaxed));
    out.count("disjoint_finished_histories", D_FINISHED.load(Relaxed));
    if D_FINISHED.load(Relaxed) == 0 {
        out.machinery("vacuity: no disjoint history finished");
    }
    out.notes.push("ClosestDisjointPeersIter: termination, hand-out freshness, result = responded peers without duplicates are judged; its in-flight count is only measured (counter disjoint_max_inflight_observed): every path is a full ClosestPeersIter with the configured parallelism, so the composite can have up to parallelism^2 distinct requests in flight — see final report".to_string());
    out
}
