pub mod pipe; pub mod tasks; pub mod pb;
