pub mod ids; pub mod pb; pub mod pipe; pub mod tasks;
