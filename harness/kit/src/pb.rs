//! Minimal protobuf writer/reader (varint + length-delimited) so that hostile / independent
//! wire messages are built without the crates' private generated types; doubles as the
//! independent reference encoder in codec round-trip properties.

#[derive(Default, Clone, Debug)]
pub struct W(pub Vec<u8>);

pub fn varint(mut v: u64, out: &mut Vec<u8>) {
    loop {
        let b = (v & 0x7f) as u8;
        v >>= 7;
        if v == 0 {
            out.push(b);
            return;
        }
        out.push(b | 0x80);
    }
}

pub fn varint_vec(v: u64) -> Vec<u8> {
    let mut o = Vec::new();
    varint(v, &mut o);
    o
}

impl W {
    pub fn new() -> Self {
        W(Vec::new())
    }
    pub fn uint(mut self, field: u32, v: u64) -> Self {
        varint(((field as u64) << 3) | 0, &mut self.0);
        varint(v, &mut self.0);
        self
    }
    pub fn bytes(mut self, field: u32, b: &[u8]) -> Self {
        varint(((field as u64) << 3) | 2, &mut self.0);
        varint(b.len() as u64, &mut self.0);
        self.0.extend_from_slice(b);
        self
    }
    pub fn msg(self, field: u32, m: &W) -> Self {
        self.bytes(field, &m.0)
    }
    pub fn opt_bytes(self, field: u32, b: Option<&[u8]>) -> Self {
        match b {
            Some(b) => self.bytes(field, b),
            None => self,
        }
    }
    pub fn opt_uint(self, field: u32, v: Option<u64>) -> Self {
        match v {
            Some(v) => self.uint(field, v),
            None => self,
        }
    }
    pub fn finish(self) -> Vec<u8> {
        self.0
    }
    /// the message prefixed with its varint length (unsigned-varint framing)
    pub fn framed(&self) -> Vec<u8> {
        let mut o = Vec::new();
        varint(self.0.len() as u64, &mut o);
        o.extend_from_slice(&self.0);
        o
    }
}

pub fn frame(body: &[u8]) -> Vec<u8> {
    let mut o = Vec::new();
    varint(body.len() as u64, &mut o);
    o.extend_from_slice(body);
    o
}

/// Parsed field of a protobuf message (only wire types 0 and 2 are needed here).
#[derive(Clone, Debug, PartialEq, Eq)]
pub enum Field {
    Uint(u32, u64),
    Bytes(u32, Vec<u8>),
}

pub fn read_varint(b: &[u8]) -> Option<(u64, usize)> {
    let mut v: u64 = 0;
    for (i, x) in b.iter().enumerate().take(10) {
        v |= ((x & 0x7f) as u64) << (7 * i);
        if x & 0x80 == 0 {
            return Some((v, i + 1));
        }
    }
    None
}

pub fn parse(mut b: &[u8]) -> Option<Vec<Field>> {
    let mut out = Vec::new();
    while !b.is_empty() {
        let (key, n) = read_varint(b)?;
        b = &b[n..];
        let field = (key >> 3) as u32;
        match key & 7 {
            0 => {
                let (v, n) = read_varint(b)?;
                b = &b[n..];
                out.push(Field::Uint(field, v));
            }
            2 => {
                let (l, n) = read_varint(b)?;
                b = &b[n..];
                if (l as usize) > b.len() {
                    return None;
                }
                out.push(Field::Bytes(field, b[..l as usize].to_vec()));
                b = &b[l as usize..];
            }
            _ => return None,
        }
    }
    Some(out)
}
