//! A cooperative task set whose scheduling is decided by the explorer: the atomic step is one
//! `poll` of one task. `run` polls woken tasks until quiescence or the horizon.

use futures::future::{BoxFuture, LocalBoxFuture};
use futures::task::ArcWake;
use mc::choice;
use std::future::Future;
use std::pin::Pin;
use std::sync::atomic::{AtomicBool, Ordering::SeqCst};
use std::sync::Arc;
use std::task::{Context, Poll};

pub struct Flag(pub AtomicBool);
impl ArcWake for Flag {
    fn wake_by_ref(a: &Arc<Self>) {
        a.0.store(true, SeqCst);
    }
}

enum Fut {
    Local(LocalBoxFuture<'static, ()>),
    Send(BoxFuture<'static, ()>),
}

struct Task {
    fut: Option<Fut>,
    flag: Arc<Flag>,
    name: String,
    polls: u64,
}

#[derive(Default)]
pub struct Tasks {
    tasks: Vec<Task>,
    last: Option<usize>,
    pub total_polls: u64,
    /// preemptive scheduling choices offered? (false = deterministic round-robin only)
    pub explore_schedule: bool,
}

#[derive(Debug, PartialEq, Eq, Clone, Copy)]
pub enum RunEnd {
    /// no task is runnable
    Quiescent,
    /// horizon reached with runnable work left
    Horizon,
}

impl Tasks {
    pub fn new(explore_schedule: bool) -> Self {
        Tasks { explore_schedule, ..Default::default() }
    }
    pub fn spawn_local(&mut self, name: impl Into<String>, f: impl Future<Output = ()> + 'static) -> usize {
        self.push(name.into(), Fut::Local(Box::pin(f)))
    }
    pub fn spawn(&mut self, name: impl Into<String>, f: impl Future<Output = ()> + Send + 'static) -> usize {
        self.push(name.into(), Fut::Send(Box::pin(f)))
    }
    pub fn spawn_boxed(&mut self, name: impl Into<String>, f: BoxFuture<'static, ()>) -> usize {
        self.push(name.into(), Fut::Send(f))
    }
    fn push(&mut self, name: String, f: Fut) -> usize {
        self.tasks.push(Task { fut: Some(f), flag: Arc::new(Flag(AtomicBool::new(true))), name, polls: 0 });
        self.tasks.len() - 1
    }
    pub fn is_done(&self, id: usize) -> bool {
        self.tasks[id].fut.is_none()
    }
    pub fn all_done(&self) -> bool {
        self.tasks.iter().all(|t| t.fut.is_none())
    }
    pub fn live(&self) -> usize {
        self.tasks.iter().filter(|t| t.fut.is_some()).count()
    }
    pub fn wake(&self, id: usize) {
        self.tasks[id].flag.0.store(true, SeqCst);
    }
    pub fn wake_all(&self) {
        for t in &self.tasks {
            t.flag.0.store(true, SeqCst);
        }
    }
    pub fn runnable(&self) -> Vec<usize> {
        self.tasks.iter().enumerate().filter(|(_, t)| t.fut.is_some() && t.flag.0.load(SeqCst)).map(|(i, _)| i).collect()
    }
    pub fn name(&self, id: usize) -> &str {
        &self.tasks[id].name
    }
    /// drop a task (its future is dropped now)
    pub fn cancel(&mut self, id: usize) {
        self.tasks[id].fut = None;
    }
    /// poll one specific task once; returns true if it completed
    pub fn poll_one(&mut self, id: usize) -> bool {
        let t = &mut self.tasks[id];
        let Some(f) = t.fut.as_mut() else { return true };
        t.flag.0.store(false, SeqCst);
        let waker = futures::task::waker(t.flag.clone());
        let mut cx = Context::from_waker(&waker);
        t.polls += 1;
        self.total_polls += 1;
        let r = match f {
            Fut::Local(f) => Pin::new(f).poll(&mut cx),
            Fut::Send(f) => Pin::new(f).poll(&mut cx),
        };
        self.last = Some(id);
        if let Poll::Ready(()) = r {
            self.tasks[id].fut = None;
            true
        } else {
            false
        }
    }
    /// Default order: the task after the last polled one, round robin (fair). Any other
    /// runnable task is a deviation of cost 1.
    pub fn pick(&mut self) -> Option<usize> {
        let r = self.runnable();
        if r.is_empty() {
            return None;
        }
        let start = self.last.map(|l| l + 1).unwrap_or(0);
        let mut order: Vec<usize> = r.iter().copied().filter(|i| *i >= start).collect();
        order.extend(r.iter().copied().filter(|i| *i < start));
        let k = if self.explore_schedule && order.len() > 1 { choice::choose_l(order.len(), 1, "sched") } else { 0 };
        Some(order[k])
    }
    /// run until no task is runnable or `horizon` polls were spent
    pub fn run(&mut self, horizon: u64) -> RunEnd {
        let mut n = 0;
        while let Some(id) = self.pick() {
            if n >= horizon {
                return RunEnd::Horizon;
            }
            self.poll_one(id);
            n += 1;
        }
        RunEnd::Quiescent
    }
}

/// Poll a future once with a no-op waker.
pub fn poll_once<F: Future + Unpin>(f: &mut F) -> Poll<F::Output> {
    let w = futures::task::noop_waker();
    let mut cx = Context::from_waker(&w);
    Pin::new(f).poll(&mut cx)
}

/// Drive a future that never legitimately pends (all I/O immediately ready) to completion;
/// returns None if it is still pending after `max` polls.
pub fn run_ready<F: Future>(f: F, max: usize) -> Option<F::Output> {
    let mut f = Box::pin(f);
    let w = futures::task::noop_waker();
    let mut cx = Context::from_waker(&w);
    for _ in 0..max {
        if let Poll::Ready(v) = f.as_mut().poll(&mut cx) {
            return Some(v);
        }
    }
    None
}
