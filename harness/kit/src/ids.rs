//! Fixed identities (never generated from entropy): key pairs from constant seed bytes.
use libp2p_identity::{Keypair, PeerId};
use multiaddr::Multiaddr;

/// deterministic ed25519 key pair number `i`
pub fn keypair(i: u8) -> Keypair {
    let mut seed = [0u8; 32];
    seed[0] = i;
    seed[31] = 0x42;
    Keypair::ed25519_from_bytes(seed).expect("32 bytes")
}
pub fn peer(i: u8) -> PeerId {
    static CACHE: std::sync::OnceLock<Vec<PeerId>> = std::sync::OnceLock::new();
    CACHE.get_or_init(|| (0..=255u8).map(|i| keypair(i).public().to_peer_id()).collect())[i as usize]
}
/// short stable name for a peer id produced by `peer(i)` for i in 0..16 ("P3"), else the id's tail
pub fn pname(p: &PeerId) -> String {
    for i in 0..16u8 {
        if &peer(i) == p {
            return format!("P{i}");
        }
    }
    let s = p.to_string();
    format!("?{}", &s[s.len() - 6..])
}
/// index of a peer id produced by `peer(i)`
pub fn pidx(p: &PeerId) -> Option<u8> {
    (0..=255u8).find(|i| &peer(*i) == p)
}
pub fn addr(s: &str) -> Multiaddr {
    s.parse().expect("valid multiaddr")
}
/// /memory/<n>
pub fn maddr(n: u64) -> Multiaddr {
    format!("/memory/{n}").parse().unwrap()
}
