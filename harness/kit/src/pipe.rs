//! In-memory duplex byte pipe whose chunking and readiness are decided by the explorer.
//!
//! Default answers ("everything, immediately") cost nothing; every departure (short read,
//! partial write, injected `Pending`) is a deviation. An injected `Pending` always wakes the
//! polling task again (`wake_by_ref`), so no wake-up is ever lost by construction: the task is
//! runnable and the scheduler decides when it is polled next.

use futures::io::{AsyncRead, AsyncWrite};
use mc::choice;
use std::cell::RefCell;
use std::collections::VecDeque;
use std::io;
use std::pin::Pin;
use std::rc::Rc;
use std::sync::{Arc, Mutex};
use std::task::{Context, Poll, Waker};

#[derive(Clone, Copy, Debug)]
pub struct PipeCfg {
    /// offer "1 byte only" as an alternative on reads that could return more
    pub short_reads: bool,
    /// offer "1 byte only" as an alternative on writes of more than one byte
    pub partial_writes: bool,
    /// offer an injected `Pending` (self-waking) on read / write / flush
    pub pendings: bool,
    /// maximum bytes a single read returns by default (0 = unlimited)
    pub max_read: usize,
    /// optional alternative chunk size offered besides 1 and all (0 = none)
    pub alt_chunk: usize,
}
impl Default for PipeCfg {
    fn default() -> Self {
        PipeCfg { short_reads: false, partial_writes: false, pendings: false, max_read: 0, alt_chunk: 0 }
    }
}
impl PipeCfg {
    pub fn adversarial() -> Self {
        PipeCfg { short_reads: true, partial_writes: true, pendings: true, max_read: 0, alt_chunk: 0 }
    }
}

#[derive(Default)]
struct Dir {
    buf: VecDeque<u8>,
    closed: bool,
    /// error to hand to the reader once the buffer is drained (fault injection)
    read_err: Option<io::ErrorKind>,
    reader: Option<Waker>,
    /// total bytes ever written / read in this direction
    written: u64,
    read: u64,
}

struct Shared {
    ab: Dir,
    ba: Dir,
}

/// One end of the pipe. `Send` so that it can be boxed into libp2p's `Send` bounds.
pub struct End {
    sh: Arc<Mutex<Shared>>,
    a_side: bool,
    pub cfg: PipeCfg,
    pub name: &'static str,
}

pub fn pair(cfg: PipeCfg) -> (End, End) {
    let sh = Arc::new(Mutex::new(Shared { ab: Dir::default(), ba: Dir::default() }));
    (End { sh: sh.clone(), a_side: true, cfg, name: "A" }, End { sh, a_side: false, cfg, name: "B" })
}

/// Harness-side handle on one pipe (inspection and fault injection).
#[derive(Clone)]
pub struct Handle {
    sh: Arc<Mutex<Shared>>,
}
impl End {
    pub fn handle(&self) -> Handle {
        Handle { sh: self.sh.clone() }
    }
}
impl Handle {
    /// bytes currently in flight A→B / B→A
    pub fn in_flight(&self) -> (usize, usize) {
        let s = self.sh.lock().unwrap();
        (s.ab.buf.len(), s.ba.buf.len())
    }
    pub fn totals(&self) -> (u64, u64) {
        let s = self.sh.lock().unwrap();
        (s.ab.written, s.ba.written)
    }
    /// xor `mask` into the in-flight byte at `pos` of direction A→B (true) or B→A
    pub fn corrupt(&self, a_to_b: bool, pos: usize, mask: u8) -> bool {
        let mut s = self.sh.lock().unwrap();
        let d = if a_to_b { &mut s.ab } else { &mut s.ba };
        match d.buf.get_mut(pos) {
            Some(b) => {
                *b ^= mask;
                true
            }
            None => false,
        }
    }
    pub fn take(&self, a_to_b: bool) -> Vec<u8> {
        let mut s = self.sh.lock().unwrap();
        let d = if a_to_b { &mut s.ab } else { &mut s.ba };
        d.buf.drain(..).collect()
    }
    pub fn inject(&self, a_to_b: bool, bytes: &[u8]) {
        let mut s = self.sh.lock().unwrap();
        let d = if a_to_b { &mut s.ab } else { &mut s.ba };
        d.buf.extend(bytes.iter().copied());
        d.written += bytes.len() as u64;
        if let Some(w) = d.reader.take() {
            w.wake();
        }
    }
    pub fn close(&self, a_to_b: bool) {
        let mut s = self.sh.lock().unwrap();
        let d = if a_to_b { &mut s.ab } else { &mut s.ba };
        d.closed = true;
        if let Some(w) = d.reader.take() {
            w.wake();
        }
    }
    pub fn fail_reads(&self, a_to_b: bool, kind: io::ErrorKind) {
        let mut s = self.sh.lock().unwrap();
        let d = if a_to_b { &mut s.ab } else { &mut s.ba };
        d.read_err = Some(kind);
        if let Some(w) = d.reader.take() {
            w.wake();
        }
    }
}

impl AsyncRead for End {
    fn poll_read(self: Pin<&mut Self>, cx: &mut Context<'_>, out: &mut [u8]) -> Poll<io::Result<usize>> {
        let cfg = self.cfg;
        let mut s = self.sh.lock().unwrap();
        let d = if self.a_side { &mut s.ba } else { &mut s.ab };
        if out.is_empty() {
            return Poll::Ready(Ok(0));
        }
        if d.buf.is_empty() {
            if let Some(k) = d.read_err {
                return Poll::Ready(Err(k.into()));
            }
            if d.closed {
                return Poll::Ready(Ok(0));
            }
            d.reader = Some(cx.waker().clone());
            return Poll::Pending;
        }
        let mut avail = d.buf.len().min(out.len());
        if cfg.max_read != 0 {
            avail = avail.min(cfg.max_read);
        }
        // alternatives: 0 = all; then (if enabled) 1 byte, alt chunk, Pending
        let mut alts: Vec<i64> = vec![avail as i64];
        if cfg.short_reads && avail > 1 {
            alts.push(1);
            if cfg.alt_chunk > 1 && cfg.alt_chunk < avail {
                alts.push(cfg.alt_chunk as i64);
            }
        }
        if cfg.pendings {
            alts.push(-1);
        }
        let pick = if alts.len() > 1 { alts[choice::choose_l(alts.len(), 1, "pipe.read")] } else { alts[0] };
        if pick < 0 {
            cx.waker().wake_by_ref();
            return Poll::Pending;
        }
        let n = pick as usize;
        for b in out.iter_mut().take(n) {
            *b = d.buf.pop_front().unwrap();
        }
        d.read += n as u64;
        Poll::Ready(Ok(n))
    }
}

impl AsyncWrite for End {
    fn poll_write(self: Pin<&mut Self>, cx: &mut Context<'_>, data: &[u8]) -> Poll<io::Result<usize>> {
        let cfg = self.cfg;
        let mut s = self.sh.lock().unwrap();
        let d = if self.a_side { &mut s.ab } else { &mut s.ba };
        if d.closed {
            return Poll::Ready(Err(io::ErrorKind::BrokenPipe.into()));
        }
        if data.is_empty() {
            return Poll::Ready(Ok(0));
        }
        let mut alts: Vec<i64> = vec![data.len() as i64];
        if cfg.partial_writes && data.len() > 1 {
            alts.push(1);
            if cfg.alt_chunk > 1 && cfg.alt_chunk < data.len() {
                alts.push(cfg.alt_chunk as i64);
            }
        }
        if cfg.pendings {
            alts.push(-1);
        }
        let pick = if alts.len() > 1 { alts[choice::choose_l(alts.len(), 1, "pipe.write")] } else { alts[0] };
        if pick < 0 {
            cx.waker().wake_by_ref();
            return Poll::Pending;
        }
        let n = pick as usize;
        d.buf.extend(data[..n].iter().copied());
        d.written += n as u64;
        if let Some(w) = d.reader.take() {
            w.wake();
        }
        Poll::Ready(Ok(n))
    }
    fn poll_flush(self: Pin<&mut Self>, cx: &mut Context<'_>) -> Poll<io::Result<()>> {
        if self.cfg.pendings && choice::choose_l(2, 1, "pipe.flush") == 1 {
            cx.waker().wake_by_ref();
            return Poll::Pending;
        }
        Poll::Ready(Ok(()))
    }
    fn poll_close(self: Pin<&mut Self>, _cx: &mut Context<'_>) -> Poll<io::Result<()>> {
        let mut s = self.sh.lock().unwrap();
        let d = if self.a_side { &mut s.ab } else { &mut s.ba };
        d.closed = true;
        if let Some(w) = d.reader.take() {
            w.wake();
        }
        Poll::Ready(Ok(()))
    }
}

impl Drop for End {
    fn drop(&mut self) {
        if let Ok(mut s) = self.sh.lock() {
            let d = if self.a_side { &mut s.ab } else { &mut s.ba };
            d.closed = true;
            if let Some(w) = d.reader.take() {
                w.wake();
            }
        }
    }
}

/// A plain scripted reader: yields the given chunks one per `poll_read` (never more than one
/// chunk per call), then EOF. For split-point enumerations of decoders.
pub struct ChunkReader {
    chunks: VecDeque<Vec<u8>>,
}
impl ChunkReader {
    pub fn new(chunks: Vec<Vec<u8>>) -> Self {
        ChunkReader { chunks: chunks.into_iter().filter(|c| !c.is_empty()).collect() }
    }
}
impl AsyncRead for ChunkReader {
    fn poll_read(mut self: Pin<&mut Self>, _cx: &mut Context<'_>, out: &mut [u8]) -> Poll<io::Result<usize>> {
        let Some(front) = self.chunks.front_mut() else { return Poll::Ready(Ok(0)) };
        let n = front.len().min(out.len());
        out[..n].copy_from_slice(&front[..n]);
        front.drain(..n);
        if front.is_empty() {
            self.chunks.pop_front();
        }
        Poll::Ready(Ok(n))
    }
}

/// A sink that records everything written to it (shared handle).
#[derive(Clone, Default)]
pub struct Recorder(pub Rc<RefCell<Vec<u8>>>);
impl AsyncWrite for Recorder {
    fn poll_write(self: Pin<&mut Self>, _cx: &mut Context<'_>, data: &[u8]) -> Poll<io::Result<usize>> {
        self.0.borrow_mut().extend_from_slice(data);
        Poll::Ready(Ok(data.len()))
    }
    fn poll_flush(self: Pin<&mut Self>, _cx: &mut Context<'_>) -> Poll<io::Result<()>> {
        Poll::Ready(Ok(()))
    }
    fn poll_close(self: Pin<&mut Self>, _cx: &mut Context<'_>) -> Poll<io::Result<()>> {
        Poll::Ready(Ok(()))
    }
}
