//! Family binary: transports (C22 global-only transport, C23 DNS transport).
mod c22;

fn main() {
    mc::main_dispatch(&[("C22", c22::run, c22::META)]);
}
