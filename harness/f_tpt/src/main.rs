//! Family binary: transports (C22 global-only transport, C23 DNS transport).
mod c22;
mod c23;

fn main() {
    mc::main_dispatch(&[("C22", c22::run, c22::META), ("C23", c23::run, c23::META)]);
}
