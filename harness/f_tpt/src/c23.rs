//! C23 — DNS transport: a single dial performs at most 32 lookups and at most 16 inner dial
//! attempts, never hands the inner transport an address with a DNS component, dials for a
//! /dnsaddr only resolved addresses ending with the original remaining suffix, and never panics
//! on empty / partial answers. Engine E3: complete enumeration of small record graphs x inner
//! transport behaviours through the production `dns::Transport` (hook
//! `libp2p_dns::verif_tpt::with_resolver`) with a scripted `Resolver` whose futures are
//! immediately ready and a recording inner transport.
//!
//! Readings settled on:
//! * "inner-transport dial attempts" = dials the inner transport accepted (returned a dial
//!   future for); synchronous refusals (`MultiaddrNotSupported`, `Other`) are counted separately
//!   and reported (`max_inner_calls`), not bounded by 16.
//! * "no foreign address": besides the suffix rule, every address handed to the inner transport
//!   must be derivable from the records (reference closure over the record graph).

use futures::future::BoxFuture;
use futures::FutureExt;
use hickory_resolver::lookup::Lookup;
use hickory_resolver::lookup_ip::LookupIp;
use hickory_resolver::proto::op::Query;
use hickory_resolver::proto::rr::rdata::{A, AAAA, CNAME, TXT};
use hickory_resolver::proto::rr::{Name, RData, Record, RecordType};
use libp2p_core::transport::{DialOpts, ListenerId, PortUse, TransportError, TransportEvent};
use libp2p_core::{Endpoint, Transport};
use libp2p_dns::{ResolveError, Resolver};
use mc::{json, Ctx, Meta, Outcome, Value};
use multiaddr::{Multiaddr, Protocol};
use std::collections::{BTreeMap, BTreeSet};
use std::net::{Ipv4Addr, Ipv6Addr};
use std::pin::Pin;
use std::sync::{Arc, Mutex};
use std::task::{Context, Poll};

pub const META: Meta = Meta {
    level: "exploration",
    rule: "record graphs: the TXT answer of each of the three /dnsaddr names a,b,c is chosen from {resolver error, empty answer, wrong record type, TXT without character-strings, every list of <=2 entries over the entry shapes {link to a/b/c with matching suffix, link with foreign suffix, terminal ip4 with matching / foreign / no suffix, /dns4/h entry, unparsable text, missing 'dnsaddr=' prefix, non-UTF-8}, fan-out 17 terminals, fan-out 17 self-links, fan-out 2 links to each other name}; the A/AAAA answer of host h from {1, 2, 20 records, error, empty, wrong type only, wrong type + right type}; x dial targets {/dnsaddr/a/p2p/P1, /dnsaddr/a, prefix + /dnsaddr/a/p2p/P1, /dns4/h, /dns6/h, /dns/h (each /tcp/1/p2p/P1), two DNS components, plain /ip4} x inner transport behaviours {every dial fails, every address unsupported, third dial succeeds, first succeeds, alternating unsupported/fail, synchronous Other error}. Name a: all 163 answers; names b,c: quick = 20 representative answers each, thorough = the 63 answers over 7 entry shapes each. Non-trivial = distinct (graph, target, behaviour) cases that performed >=1 lookup.",
    explanation: "Complete enumeration (E3) over the stated record graphs; every dial future is run to completion on the production Transport; oracle: no panic, future completes, lookups <= 32, accepted inner dials <= 16, no dns/dns4/dns6/dnsaddr component in any address handed to the inner transport, every such address ends with the original suffix (for /dnsaddr targets) and is derivable from the records.",
    assumptions: &["resolver and inner dial futures are immediately ready (no interleaving of lookups)", "names and hosts are represented by 3 + 2 symbols"],
};

// ---- scripted answers ---------------------------------------------------------------------------

fn p(i: u8) -> libp2p_identity::PeerId {
    kit::ids::peer(i)
}

/// one TXT entry shape
#[derive(Clone, Copy, Debug, PartialEq, Eq, PartialOrd, Ord)]
enum Ent {
    /// dnsaddr=/dnsaddr/<n>/p2p/P1
    Link(u8),
    /// dnsaddr=/dnsaddr/a/p2p/P2 (foreign suffix)
    LinkForeign,
    /// dnsaddr=/ip4/10.0.<k>.1/tcp/1/p2p/P1
    Term(u8),
    /// dnsaddr=/ip4/10.9.9.9/tcp/1/p2p/P2
    TermForeign,
    /// dnsaddr=/ip4/10.8.8.8/tcp/1
    TermNoSuffix,
    /// dnsaddr=/dns4/h/tcp/1/p2p/P1
    ViaDns4,
    /// dnsaddr=/nonsense/x
    Unparsable,
    /// /ip4/10.7.7.7/tcp/1/p2p/P1 without the dnsaddr= prefix
    NoPrefix,
    /// bytes that are not UTF-8
    NotUtf8,
}

const NAMES: [&str; 3] = ["a", "b", "c"];

impl Ent {
    fn text(self) -> Vec<u8> {
        static CACHE: std::sync::OnceLock<Mutex<BTreeMap<Ent, Vec<u8>>>> = std::sync::OnceLock::new();
        let m = CACHE.get_or_init(|| Mutex::new(BTreeMap::new()));
        m.lock().unwrap().entry(self).or_insert_with(|| self.text_uncached()).clone()
    }
    fn text_uncached(self) -> Vec<u8> {
        match self {
            Ent::Link(n) => format!("dnsaddr=/dnsaddr/{}/p2p/{}", NAMES[n as usize], p(1)).into_bytes(),
            Ent::LinkForeign => format!("dnsaddr=/dnsaddr/a/p2p/{}", p(2)).into_bytes(),
            Ent::Term(k) => format!("dnsaddr=/ip4/10.0.{k}.1/tcp/1/p2p/{}", p(1)).into_bytes(),
            Ent::TermForeign => format!("dnsaddr=/ip4/10.9.9.9/tcp/1/p2p/{}", p(2)).into_bytes(),
            Ent::TermNoSuffix => b"dnsaddr=/ip4/10.8.8.8/tcp/1".to_vec(),
            Ent::ViaDns4 => format!("dnsaddr=/dns4/h/tcp/1/p2p/{}", p(1)).into_bytes(),
            Ent::Unparsable => b"dnsaddr=/nonsense/x".to_vec(),
            Ent::NoPrefix => format!("/ip4/10.7.7.7/tcp/1/p2p/{}", p(1)).into_bytes(),
            Ent::NotUtf8 => vec![b'd', b'n', b's', 0xff, 0xfe],
        }
    }
}

/// answer to the TXT lookup of one /dnsaddr name
#[derive(Clone, Debug, PartialEq, Eq, PartialOrd, Ord)]
enum Txt {
    Error,
    Empty,
    WrongType,
    NoStrings,
    List(Vec<Ent>),
    Fan17Terms,
    Fan17Self,
    /// two links to each of the other two names (exponential growth)
    Fan2Others,
}

/// answer to an address lookup of host h (dns / dns4 / dns6)
#[derive(Clone, Copy, Debug, PartialEq, Eq, PartialOrd, Ord)]
enum Host {
    One,
    Two,
    Twenty,
    Error,
    Empty,
    WrongOnly,
    WrongThenRight,
}

#[derive(Clone, Debug)]
struct Graph {
    txt: [Txt; 3],
    host: Host,
}

fn txt_entries(name: usize, t: &Txt) -> Vec<Vec<u8>> {
    match t {
        Txt::List(es) => es.iter().map(|e| e.text()).collect(),
        Txt::Fan17Terms => (0..17).map(|k| Ent::Term(k).text()).collect(),
        Txt::Fan17Self => (0..17).map(|_| Ent::Link(name as u8).text()).collect(),
        Txt::Fan2Others => (0..3u8).filter(|n| *n as usize != name).flat_map(|n| [Ent::Link(n).text(), Ent::Link(n).text()]).collect(),
        _ => vec![],
    }
}

fn name_of(s: &str) -> Name {
    Name::from_ascii(s).unwrap_or_else(|_| Name::root())
}

fn lookup(name: &str, ty: RecordType, rdatas: Vec<RData>) -> Lookup {
    let n = name_of(name);
    let recs: Vec<Record> = rdatas.into_iter().map(|d| Record::from_rdata(n.clone(), 300, d)).collect();
    Lookup::new_with_max_ttl(Query::query(n, ty), recs)
}

fn host_rdatas(h: Host, want6: bool, both: bool) -> Result<Vec<RData>, ResolveError> {
    let right = |k: u8| -> RData {
        if want6 {
            RData::AAAA(AAAA(Ipv6Addr::new(0x2a00, 0, 0, 0, 0, 0, 1, k as u16)))
        } else {
            RData::A(A(Ipv4Addr::new(10, 1, 0, k)))
        }
    };
    // a record of a type the caller filters out (dns4: AAAA, dns6: A, dns: CNAME)
    let wrong = || -> RData {
        if both {
            RData::CNAME(CNAME(name_of("alias.example.")))
        } else if want6 {
            RData::A(A(Ipv4Addr::new(10, 2, 0, 1)))
        } else {
            RData::AAAA(AAAA(Ipv6Addr::new(0x2a00, 0, 0, 0, 0, 0, 2, 1)))
        }
    };
    Ok(match h {
        Host::One => vec![right(1)],
        Host::Two => vec![right(1), right(2)],
        Host::Twenty => (1..=20).map(right).collect(),
        Host::Error => return Err(ResolveError::from("scripted resolver error")),
        Host::Empty => vec![],
        Host::WrongOnly => vec![wrong()],
        Host::WrongThenRight => vec![wrong(), right(1)],
    })
}

#[derive(Clone)]
struct Script {
    g: Arc<Graph>,
    log: Arc<Mutex<Vec<String>>>,
}

impl Script {
    fn note(&self, kind: &str, name: &str) {
        self.log.lock().unwrap().push(format!("{kind} {name}"));
    }
}

impl Resolver for Script {
    fn lookup_ip(&self, name: String) -> impl std::future::Future<Output = Result<LookupIp, ResolveError>> + Send {
        self.note("dns", &name);
        let r = host_rdatas(self.g.host, false, true).map(|d| LookupIp::from(lookup(&name, RecordType::A, d)));
        async move { r }
    }
    fn ipv4_lookup(&self, name: String) -> impl std::future::Future<Output = Result<Lookup, ResolveError>> + Send {
        self.note("dns4", &name);
        let r = host_rdatas(self.g.host, false, false).map(|d| lookup(&name, RecordType::A, d));
        async move { r }
    }
    fn ipv6_lookup(&self, name: String) -> impl std::future::Future<Output = Result<Lookup, ResolveError>> + Send {
        self.note("dns6", &name);
        let r = host_rdatas(self.g.host, true, false).map(|d| lookup(&name, RecordType::AAAA, d));
        async move { r }
    }
    fn txt_lookup(&self, name: String) -> impl std::future::Future<Output = Result<Lookup, ResolveError>> + Send {
        self.note("txt", &name);
        let idx = NAMES.iter().position(|n| name == format!("_dnsaddr.{n}"));
        let r = match idx.map(|i| (i, &self.g.txt[i])) {
            None => Err(ResolveError::from("no such name")),
            Some((_, Txt::Error)) => Err(ResolveError::from("scripted resolver error")),
            Some((_, Txt::Empty)) => Ok(lookup(&name, RecordType::TXT, vec![])),
            Some((_, Txt::WrongType)) => Ok(lookup(&name, RecordType::TXT, vec![RData::A(A(Ipv4Addr::new(10, 3, 0, 1)))])),
            Some((_, Txt::NoStrings)) => Ok(lookup(&name, RecordType::TXT, vec![RData::TXT(TXT::from_bytes(vec![]))])),
            Some((i, t)) => Ok(lookup(&name, RecordType::TXT, txt_entries(i, t).into_iter().map(|e| RData::TXT(TXT::from_bytes(vec![&e[..]]))).collect())),
        };
        async move { r }
    }
}

// ---- recording inner transport ------------------------------------------------------------------

#[derive(Clone, Copy, Debug, PartialEq, Eq)]
enum Policy {
    AllFail,
    AllUnsupported,
    ThirdOk,
    FirstOk,
    Alternate,
    SyncOther,
}
const POLICIES: [Policy; 6] = [Policy::AllFail, Policy::AllUnsupported, Policy::ThirdOk, Policy::FirstOk, Policy::Alternate, Policy::SyncOther];

#[derive(Default)]
struct Rec {
    /// every address handed to `dial`, with whether a dial future was returned
    calls: Vec<(Multiaddr, bool)>,
}

struct Inner {
    rec: Arc<Mutex<Rec>>,
    policy: Policy,
}

impl Transport for Inner {
    type Output = u32;
    type Error = std::io::Error;
    type ListenerUpgrade = futures::future::Ready<Result<u32, std::io::Error>>;
    type Dial = BoxFuture<'static, Result<u32, std::io::Error>>;
    fn listen_on(&mut self, _id: ListenerId, addr: Multiaddr) -> Result<(), TransportError<Self::Error>> {
        Err(TransportError::MultiaddrNotSupported(addr))
    }
    fn remove_listener(&mut self, _id: ListenerId) -> bool {
        false
    }
    fn dial(&mut self, addr: Multiaddr, _opts: DialOpts) -> Result<Self::Dial, TransportError<Self::Error>> {
        let mut rec = self.rec.lock().unwrap();
        let k = rec.calls.len();
        let accepted_before = rec.calls.iter().filter(|c| c.1).count();
        let (accept, ok) = match self.policy {
            Policy::AllFail => (true, false),
            Policy::AllUnsupported => (false, false),
            Policy::ThirdOk => (true, accepted_before == 2),
            Policy::FirstOk => (true, true),
            Policy::Alternate => (k % 2 == 1, false),
            Policy::SyncOther => (false, false),
        };
        rec.calls.push((addr.clone(), accept));
        if !accept {
            return Err(if self.policy == Policy::SyncOther { TransportError::Other(std::io::Error::other("scripted sync error")) } else { TransportError::MultiaddrNotSupported(addr) });
        }
        let n = k as u32;
        Ok(async move { if ok { Ok(n) } else { Err(std::io::Error::other("scripted dial error")) } }.boxed())
    }
    fn poll(self: Pin<&mut Self>, _cx: &mut Context<'_>) -> Poll<TransportEvent<Self::ListenerUpgrade, Self::Error>> {
        Poll::Pending
    }
}

// ---- targets -------------------------------------------------------------------------------------

const TARGETS: usize = 8;
fn target(i: usize) -> Multiaddr {
    let p1 = p(1);
    match i {
        0 => format!("/dnsaddr/a/p2p/{p1}"),
        1 => "/dnsaddr/a".to_string(),
        2 => format!("/ip4/10.5.5.5/tcp/5/dnsaddr/a/p2p/{p1}"),
        3 => format!("/dns4/h/tcp/1/p2p/{p1}"),
        4 => format!("/dns6/h/tcp/1/p2p/{p1}"),
        5 => format!("/dns/h/tcp/1/p2p/{p1}"),
        6 => format!("/dns4/h/tcp/1/dns6/h/tcp/2/p2p/{p1}"),
        _ => format!("/ip4/10.6.6.6/tcp/1/p2p/{p1}"),
    }
    .parse()
    .expect("harness target")
}

fn is_dns(pr: &Protocol) -> bool {
    matches!(pr, Protocol::Dns(_) | Protocol::Dns4(_) | Protocol::Dns6(_) | Protocol::Dnsaddr(_))
}

// ---- reference closure: which fully resolved addresses can legitimately be derived ---------------

fn host_ips(h: Host, want6: bool, both: bool) -> Vec<Protocol<'static>> {
    host_rdatas(h, want6, both)
        .unwrap_or_default()
        .into_iter()
        .filter_map(|d| match d {
            RData::A(a) if !want6 || both => Some(Protocol::Ip4(a.0)),
            RData::AAAA(a) if want6 || both => Some(Protocol::Ip6(a.0)),
            _ => None,
        })
        .collect()
}

fn closure(g: &Graph, start: &Multiaddr) -> BTreeSet<Vec<u8>> {
    let mut done: BTreeSet<Vec<u8>> = BTreeSet::new();
    let mut seen: BTreeSet<Vec<u8>> = BTreeSet::new();
    let mut todo = vec![start.clone()];
    while let Some(a) = todo.pop() {
        if !seen.insert(a.to_vec()) || seen.len() > 20000 {
            continue;
        }
        let Some((i, comp)) = a.iter().enumerate().find(|(_, c)| is_dns(c)) else {
            done.insert(a.to_vec());
            continue;
        };
        match comp {
            Protocol::Dnsaddr(n) => {
                let Some(idx) = NAMES.iter().position(|x| *x == n.as_ref()) else { continue };
                let suffix: Multiaddr = a.iter().skip(i + 1).collect();
                let prefix: Multiaddr = a.iter().take(i).collect();
                for e in txt_entries(idx, &g.txt[idx]) {
                    let Some(r) = std::str::from_utf8(&e).ok().and_then(|s| s.strip_prefix("dnsaddr=")).and_then(|s| s.parse::<Multiaddr>().ok()) else { continue };
                    if r.ends_with(&suffix) {
                        todo.push(prefix.iter().chain(r.iter()).collect());
                    }
                }
            }
            other => {
                let (want6, both) = match other {
                    Protocol::Dns4(_) => (false, false),
                    Protocol::Dns6(_) => (true, false),
                    _ => (false, true),
                };
                for ip in host_ips(g.host, want6, both) {
                    if let Some(n) = a.replace(i, |_| Some(ip.clone())) {
                        todo.push(n);
                    }
                }
            }
        }
    }
    done
}

// ---- one case -------------------------------------------------------------------------------------

#[derive(Default, Debug)]
struct Obs {
    lookups: usize,
    accepted: usize,
    calls: usize,
    ok: bool,
}

fn one(g: &Arc<Graph>, legit: &BTreeSet<Vec<u8>>, target_i: usize, policy: Policy) -> Result<Obs, String> {
    let g = g.clone();
    let log = Arc::new(Mutex::new(Vec::new()));
    let rec = Arc::new(Mutex::new(Rec::default()));
    let mut t = libp2p_dns::verif_tpt::with_resolver(Inner { rec: rec.clone(), policy }, Script { g: g.clone(), log: log.clone() });
    let addr = target(target_i);
    let opts = DialOpts { role: Endpoint::Dialer, port_use: PortUse::Reuse };
    let res = mc::catch(|| {
        let fut = match t.dial(addr.clone(), opts) {
            Ok(f) => f,
            Err(e) => return Some(Err(format!("sync: {e:?}"))),
        };
        kit::tasks::run_ready(fut, 8).map(|r| r.map_err(|e| format!("{e}")))
    });
    let lookups = log.lock().unwrap().clone();
    let res = match res {
        Ok(r) => r,
        Err(pmsg) => {
            let last = lookups.last().map(|l| l.split(' ').next().unwrap_or("").to_string()).unwrap_or_else(|| "none".into());
            return Err(format!("panic-after-lookup {last} :: dial of {addr} panicked after {} lookups (last: {:?}): {pmsg} at {:?}", lookups.len(), lookups.last(), mc::shim::last_panic_loc()));
        }
    };
    let Some(res) = res else { return Err(format!("dial-pending :: dial future of {addr} still pending although every resolver / inner future is ready")) };
    let rec = rec.lock().unwrap();
    let accepted = rec.calls.iter().filter(|c| c.1).count();
    if lookups.len() > 32 {
        return Err(format!("too-many-lookups :: {} lookups in one dial of {addr}", lookups.len()));
    }
    if accepted > 16 {
        return Err(format!("too-many-dial-attempts :: {accepted} dial attempts accepted by the inner transport in one dial of {addr}"));
    }
    let first_dnsaddr = addr.iter().position(|c| matches!(c, Protocol::Dnsaddr(_)));
    let first_dns = addr.iter().position(|c| is_dns(&c));
    let suffix: Option<Multiaddr> = match (first_dnsaddr, first_dns) {
        (Some(i), Some(j)) if i == j => Some(addr.iter().skip(i + 1).collect()),
        _ => None,
    };
    for (a, _) in &rec.calls {
        if a.iter().any(|c| is_dns(&c)) {
            return Err(format!("dns-component-leaked :: inner transport was handed {a} (dial of {addr})"));
        }
        if let Some(s) = &suffix {
            if !a.ends_with(s) {
                return Err(format!("suffix-rule-broken :: inner transport was handed {a}, which does not end with {s} (dial of {addr})"));
            }
        }
        if !legit.contains(&a.to_vec()) {
            return Err(format!("foreign-address-dialed :: inner transport was handed {a}, which is not derivable from the records (dial of {addr})"));
        }
    }
    Ok(Obs { lookups: lookups.len(), accepted, calls: rec.calls.len(), ok: res.is_ok() })
}

// ---- enumeration ----------------------------------------------------------------------------------

/// 0 = small representative set (names b, c in the quick tier), 1 = reduced shapes, 2 = all shapes
fn txt_choices(level: u8) -> Vec<Txt> {
    use Ent::*;
    if level == 0 {
        let l = |v: &[Ent]| Txt::List(v.to_vec());
        return vec![
            Txt::Error, Txt::Empty, Txt::WrongType, Txt::Fan17Terms, Txt::Fan17Self, Txt::Fan2Others,
            l(&[Link(0)]), l(&[Link(1)]), l(&[Link(2)]), l(&[Term(1)]), l(&[TermForeign]), l(&[ViaDns4]),
            l(&[Link(0), Term(1)]), l(&[Link(1), Link(2)]), l(&[Link(2), Link(1)]), l(&[Term(1), TermForeign]),
            l(&[Link(0), Link(0)]), l(&[Unparsable, Term(2)]), l(&[Link(1), Term(1)]), l(&[Link(2), Term(2)]),
        ];
    }
    let ents: Vec<Ent> = if level == 2 {
        vec![Link(0), Link(1), Link(2), LinkForeign, Term(1), Term(2), TermForeign, TermNoSuffix, ViaDns4, Unparsable, NoPrefix, NotUtf8]
    } else {
        vec![Link(0), Link(1), Link(2), Term(1), TermForeign, ViaDns4, Unparsable]
    };
    let mut v = vec![Txt::Error, Txt::Empty, Txt::WrongType, Txt::NoStrings, Txt::Fan17Terms, Txt::Fan17Self, Txt::Fan2Others];
    mc::enumerate::sequences_upto(ents.len(), 2, |idx| {
        if !idx.is_empty() {
            v.push(Txt::List(idx.iter().map(|&i| ents[i]).collect()));
        }
    });
    v
}

const HOSTS: [Host; 7] = [Host::One, Host::Two, Host::Twenty, Host::Error, Host::Empty, Host::WrongOnly, Host::WrongThenRight];

fn case_json(g: &Graph, t: usize, pol: Policy) -> Value {
    json!({"txt": g.txt.iter().map(|t| format!("{t:?}")).collect::<Vec<_>>(), "host": format!("{:?}", g.host), "target": t, "policy": format!("{pol:?}")})
}

fn all_txt() -> BTreeMap<String, Txt> {
    txt_choices(2).into_iter().map(|t| (format!("{t:?}"), t)).collect()
}

pub fn run(ctx: &Ctx) -> Outcome {
    if let Some(case) = &ctx.replay {
        let mut out = Outcome::default();
        replay(case, &mut out);
        return out;
    }
    let thorough = !ctx.quick();
    let mut total = mc::workers(ctx, 16, |ctx| {
        let mut out = Outcome::default();
        let a_choices = txt_choices(2);
        let bc_choices = txt_choices(if thorough { 1 } else { 0 });
        let (a_choices, bc_choices) = (&a_choices, &bc_choices);
        let mut idx: u64 = 0;
        let run_case = |g: &Arc<Graph>, legit: &BTreeSet<Vec<u8>>, t: usize, pol: Policy, out: &mut Outcome| {
            out.evaluations += 1;
            match one(g, legit, t, pol) {
                Ok(o) => {
                    if o.lookups > 0 {
                        out.nontrivial(&format!("{:?}{:?}{t}{pol:?}", g.txt, g.host));
                    }
                    out.max("max_lookups", o.lookups as u64);
                    out.max("max_accepted_dials", o.accepted as u64);
                    out.max("max_inner_calls", o.calls as u64);
                    if o.lookups == 32 {
                        out.count("dials_that_hit_the_lookup_limit", 1);
                    }
                    if o.accepted == 16 {
                        out.count("dials_that_hit_the_attempt_limit", 1);
                    }
                    out.count(if o.ok { "dial_ok" } else { "dial_err" }, 1);
                    if out.evaluations % 50021 == 7 {
                        out.sample(json!({"case": case_json(g, t, pol), "lookups": o.lookups, "accepted_dials": o.accepted, "inner_calls": o.calls, "ok": o.ok}));
                    }
                }
                Err(m) => out.violation(mc::bfs::signature_of(&m), m, case_json(g, t, pol)),
            }
        };
        // host targets: every host answer x every behaviour (TXT answers irrelevant)
        if ctx.mine(0) {
            for h in HOSTS {
                let g = Arc::new(Graph { txt: [Txt::Empty, Txt::Empty, Txt::Empty], host: h });
                for t in 3..TARGETS {
                    let legit = closure(&g, &target(t));
                    for pol in POLICIES {
                        run_case(&g, &legit, t, pol, &mut out);
                    }
                }
            }
            out.sample(json!({"case": {"txt": ["Fan17Self", "Empty", "Empty"], "target": "/dnsaddr/a/p2p/P1", "policy": "AllFail"}, "expected": "exactly 32 lookups, then TooManyLookups errors"}));
        }
        // /dnsaddr targets: the full product of TXT answers; host answers matter only through
        // ViaDns4 entries: reduced host set there
        for ta in a_choices {
            for tb in bc_choices {
                idx += 1;
                if !ctx.mine(idx) {
                    continue;
                }
                for tc in bc_choices {
                    let uses_host = [ta, tb, tc].iter().any(|t| matches!(t, Txt::List(es) if es.contains(&Ent::ViaDns4)));
                    let hosts: &[Host] = if uses_host { &[Host::One, Host::Two, Host::Error, Host::Empty] } else { &[Host::One] };
                    for &h in hosts {
                        let g = Arc::new(Graph { txt: [ta.clone(), tb.clone(), tc.clone()], host: h });
                        for t in 0..3 {
                            let legit = closure(&g, &target(t));
                            for pol in POLICIES {
                                // the two extra /dnsaddr targets only with two behaviours (quick)
                                if !thorough && t > 0 && !matches!(pol, Policy::AllFail | Policy::ThirdOk) {
                                    continue;
                                }
                                run_case(&g, &legit, t, pol, &mut out);
                            }
                        }
                    }
                }
            }
        }
        out
    });
    for need in ["dials_that_hit_the_lookup_limit", "dials_that_hit_the_attempt_limit", "dial_ok", "dial_err"] {
        if total.get(need) == 0 {
            total.machinery(format!("vacuity: counter {need} is zero"));
        }
    }
    if total.get("max_lookups") != 32 && total.violations.iter().all(|v| !v.signature.starts_with("too-many-lookups")) {
        total.machinery(format!("vacuity: the lookup limit was never reached (max {})", total.get("max_lookups")));
    }
    total.notes.push("'dial attempts' = dials accepted by the inner transport; synchronous refusals are reported as max_inner_calls".into());
    total
}

fn replay(case: &Value, out: &mut Outcome) {
    out.evaluations = 1;
    let all = all_txt();
    let txt: Vec<Txt> = case["txt"].as_array().map(|a| a.iter().filter_map(|s| all.get(s.as_str().unwrap_or("")).cloned()).collect()).unwrap_or_default();
    let host = HOSTS.iter().copied().find(|h| Some(format!("{h:?}").as_str()) == case["host"].as_str());
    let pol = POLICIES.iter().copied().find(|p| Some(format!("{p:?}").as_str()) == case["policy"].as_str());
    let (Some(host), Some(pol), true) = (host, pol, txt.len() == 3) else {
        out.violation("bad-replay-case", "bad replay case", case.clone());
        return;
    };
    let g = Arc::new(Graph { txt: [txt[0].clone(), txt[1].clone(), txt[2].clone()], host });
    let t = case["target"].as_u64().unwrap_or(0) as usize;
    let legit = closure(&g, &target(t.min(TARGETS - 1)));
    if let Err(m) = one(&g, &legit, t, pol) {
        out.violation(mc::bfs::signature_of(&m), m, case.clone());
    }
}
