//! C22 — `global_only::Transport` refuses every non-IP address and every address whose leading
//! IP lies in a special-purpose block that the IANA registries mark "not globally reachable",
//! and hands every address outside every special-purpose block to the inner transport.
//! Engine E3: the whole IPv4 space (thorough) / every /24 x {first,last host} + boundaries
//! (quick); IPv6 boundary-structured. Public API only: `Transport::new(recorder).dial(..)`.
//!
//! Oracle = the two tables below, transcribed from the IANA IPv4 / IPv6 Special-Purpose Address
//! Registries (RFC 6890 and its updates), with the "Globally Reachable" column:
//!   False  => the address must be refused with MultiaddrNotSupported (inner not called)
//!   True / N/A (blank, e.g. deprecated entries, "uncertain") => either answer is accepted
//!   outside every entry => the address must reach the inner transport unchanged
//! The most specific entry containing an address decides (this is how the registry's footnote
//! on 2001::/23 and 192.0.0.0/24 reads: "unless allowed by a more specific allocation").
//! Multicast (224.0.0.0/4, ff00::/8) is not in the special-purpose registries; it is listed
//! here as "either" so that nothing is demanded for it.

use libp2p_core::transport::{global_only, DialOpts, ListenerId, PortUse, TransportError, TransportEvent};
use libp2p_core::{Endpoint, Transport};
use mc::{json, Ctx, Meta, Outcome, Value};
use multiaddr::{Multiaddr, Protocol};
use std::cell::Cell;
use std::net::{Ipv4Addr, Ipv6Addr};
use std::pin::Pin;
use std::rc::Rc;
use std::task::{Context, Poll};

pub const META: Meta = Meta {
    level: "exploration",
    rule: "IPv4: thorough = all 2^32 addresses as /ip4/a; quick = every /24 network x {first, last host} (2^25 addresses); both tiers: +-2 around both ends of every registry entry x 4 address suffixes. IPv6 (both tiers): for every registry entry the blocks {prefix-1, prefix, prefix+1} x 7 host patterns, every single-bit flip of the prefix x 3 host patterns, every value of each 16-bit segment covered by the prefix x 3 host patterns, and all 65536 values of the first segment x 4 patterns; thorough additionally all 2^32 values of the first 32 bits with a zero host part. Non-IP: 14 addresses whose first component is not ip4/ip6. Non-trivial = distinct (table interval, verdict) pairs plus every boundary / bit-flip address.",
    explanation: "Complete enumeration (E3) of the stated address sets through global_only::Transport::dial over a recording inner transport; oracle: an independent table of the IANA special-purpose registries (most specific entry decides; False => refused, outside every entry => inner transport called with the same address, True/N-A => either).",
    assumptions: &["the registry tables were transcribed by hand (registry state of 2025); entries whose flag the registry leaves blank (deprecated 192.88.99.0/24, 2001:10::/28) and multicast are not enforced", "IPv6 is boundary-structured, not exhaustive"],
};

#[derive(Clone, Copy, Debug, PartialEq, Eq)]
enum Flag {
    /// Globally reachable: False
    No,
    /// Globally reachable: True
    Yes,
    /// N/A, blank, or not part of the registry (multicast): nothing demanded
    Na,
}

struct E4 {
    net: [u8; 4],
    len: u8,
    flag: Flag,
    name: &'static str,
    /// allocation date in the registry
    date: &'static str,
}
struct E6 {
    net: &'static str,
    len: u8,
    flag: Flag,
    name: &'static str,
    date: &'static str,
}

use Flag::{Na, No, Yes};

const V4: &[E4] = &[
    E4 { net: [0, 0, 0, 0], len: 8, flag: No, name: "\"This network\" [RFC791]", date: "1981-09" },
    E4 { net: [0, 0, 0, 0], len: 32, flag: No, name: "\"This host on this network\" [RFC1122]", date: "1981-09" },
    E4 { net: [10, 0, 0, 0], len: 8, flag: No, name: "Private-Use [RFC1918]", date: "1996-02" },
    E4 { net: [100, 64, 0, 0], len: 10, flag: No, name: "Shared Address Space [RFC6598]", date: "2012-04" },
    E4 { net: [127, 0, 0, 0], len: 8, flag: No, name: "Loopback [RFC1122]", date: "1981-09" },
    E4 { net: [169, 254, 0, 0], len: 16, flag: No, name: "Link Local [RFC3927]", date: "2005-05" },
    E4 { net: [172, 16, 0, 0], len: 12, flag: No, name: "Private-Use [RFC1918]", date: "1996-02" },
    E4 { net: [192, 0, 0, 0], len: 24, flag: No, name: "IETF Protocol Assignments [RFC6890]", date: "2010-01" },
    E4 { net: [192, 0, 0, 0], len: 29, flag: No, name: "IPv4 Service Continuity Prefix [RFC7335]", date: "2011-06" },
    E4 { net: [192, 0, 0, 8], len: 32, flag: No, name: "IPv4 dummy address [RFC7600]", date: "2015-03" },
    E4 { net: [192, 0, 0, 9], len: 32, flag: Yes, name: "Port Control Protocol Anycast [RFC7723]", date: "2015-10" },
    E4 { net: [192, 0, 0, 10], len: 32, flag: Yes, name: "TURN Anycast [RFC8155]", date: "2017-02" },
    E4 { net: [192, 0, 0, 170], len: 32, flag: No, name: "NAT64/DNS64 Discovery [RFC7050]", date: "2013-02" },
    E4 { net: [192, 0, 0, 171], len: 32, flag: No, name: "NAT64/DNS64 Discovery [RFC7050]", date: "2013-02" },
    E4 { net: [192, 0, 2, 0], len: 24, flag: No, name: "Documentation (TEST-NET-1) [RFC5737]", date: "2010-01" },
    E4 { net: [192, 31, 196, 0], len: 24, flag: Yes, name: "AS112-v4 [RFC7535]", date: "2014-12" },
    E4 { net: [192, 52, 193, 0], len: 24, flag: Yes, name: "AMT [RFC7450]", date: "2014-12" },
    // deprecated by RFC 7526: the registry leaves the attribute columns blank
    E4 { net: [192, 88, 99, 0], len: 24, flag: Na, name: "Deprecated (6to4 Relay Anycast) [RFC7526]", date: "2001-06" },
    // transcriber's note: 192.88.99.2/32 (6a44 relay anycast, RFC 6751) — its flag could not
    // be confirmed offline, so nothing is demanded for it
    E4 { net: [192, 88, 99, 2], len: 32, flag: Na, name: "6a44-relay anycast address [RFC6751] (flag unconfirmed)", date: "2012-10" },
    E4 { net: [192, 168, 0, 0], len: 16, flag: No, name: "Private-Use [RFC1918]", date: "1996-02" },
    E4 { net: [192, 175, 48, 0], len: 24, flag: Yes, name: "Direct Delegation AS112 Service [RFC7534]", date: "1996-01" },
    E4 { net: [198, 18, 0, 0], len: 15, flag: No, name: "Benchmarking [RFC2544]", date: "1999-03" },
    E4 { net: [198, 51, 100, 0], len: 24, flag: No, name: "Documentation (TEST-NET-2) [RFC5737]", date: "2010-01" },
    E4 { net: [203, 0, 113, 0], len: 24, flag: No, name: "Documentation (TEST-NET-3) [RFC5737]", date: "2010-01" },
    // not a registry entry
    E4 { net: [224, 0, 0, 0], len: 4, flag: Na, name: "Multicast (not in the special-purpose registry)", date: "-" },
    E4 { net: [240, 0, 0, 0], len: 4, flag: No, name: "Reserved [RFC1112]", date: "1989-08" },
    E4 { net: [255, 255, 255, 255], len: 32, flag: No, name: "Limited Broadcast [RFC8190][RFC919]", date: "1984-10" },
];

const V6: &[E6] = &[
    E6 { net: "::1", len: 128, flag: No, name: "Loopback Address [RFC4291]", date: "2006-02" },
    E6 { net: "::", len: 128, flag: No, name: "Unspecified Address [RFC4291]", date: "2006-02" },
    E6 { net: "::ffff:0:0", len: 96, flag: No, name: "IPv4-mapped Address [RFC4291]", date: "2006-02" },
    E6 { net: "64:ff9b::", len: 96, flag: Yes, name: "IPv4-IPv6 Translat. [RFC6052]", date: "2010-10" },
    E6 { net: "64:ff9b:1::", len: 48, flag: No, name: "IPv4-IPv6 Translat. [RFC8215]", date: "2017-06" },
    E6 { net: "100::", len: 64, flag: No, name: "Discard-Only Address Block [RFC6666]", date: "2012-06" },
    E6 { net: "100:0:0:1::", len: 64, flag: No, name: "Dummy IPv6 Prefix [RFC9780]", date: "2025-04" },
    E6 { net: "2001::", len: 23, flag: No, name: "IETF Protocol Assignments [RFC2928]", date: "2000-09" },
    E6 { net: "2001::", len: 32, flag: Na, name: "TEREDO [RFC4380][RFC8190]", date: "2006-01" },
    E6 { net: "2001:1::1", len: 128, flag: Yes, name: "Port Control Protocol Anycast [RFC7723]", date: "2015-10" },
    E6 { net: "2001:1::2", len: 128, flag: Yes, name: "TURN Anycast [RFC8155]", date: "2017-02" },
    E6 { net: "2001:1::3", len: 128, flag: Yes, name: "DNS-SD SRP Anycast [RFC9665]", date: "2024-04" },
    E6 { net: "2001:2::", len: 48, flag: No, name: "Benchmarking [RFC5180][RFC Errata 1752]", date: "2008-04" },
    E6 { net: "2001:3::", len: 32, flag: Yes, name: "AMT [RFC7450]", date: "2014-12" },
    E6 { net: "2001:4:112::", len: 48, flag: Yes, name: "AS112-v6 [RFC7535]", date: "2014-12" },
    // deprecated: attribute columns blank
    E6 { net: "2001:10::", len: 28, flag: Na, name: "Deprecated (previously ORCHID) [RFC4843]", date: "2007-03" },
    E6 { net: "2001:20::", len: 28, flag: Yes, name: "ORCHIDv2 [RFC7343]", date: "2014-07" },
    E6 { net: "2001:30::", len: 28, flag: Yes, name: "Drone Remote ID Protocol Entity Tags (DETs) Prefix [RFC9374]", date: "2022-12" },
    E6 { net: "2001:db8::", len: 32, flag: No, name: "Documentation [RFC3849]", date: "2004-07" },
    E6 { net: "2002::", len: 16, flag: Na, name: "6to4 [RFC3056]", date: "2001-02" },
    E6 { net: "2620:4f:8000::", len: 48, flag: Yes, name: "Direct Delegation AS112 Service [RFC7534]", date: "2011-05" },
    E6 { net: "3fff::", len: 20, flag: No, name: "Documentation [RFC9637]", date: "2024-07" },
    E6 { net: "5f00::", len: 16, flag: No, name: "Segment Routing (SRv6) SIDs [RFC9602]", date: "2024-04" },
    E6 { net: "fc00::", len: 7, flag: No, name: "Unique-Local [RFC4193][RFC8190]", date: "2005-10" },
    E6 { net: "fe80::", len: 10, flag: No, name: "Link-Local Unicast [RFC4291]", date: "2006-02" },
    // not a registry entry
    E6 { net: "ff00::", len: 8, flag: Na, name: "Multicast (not in the special-purpose registry)", date: "-" },
];

#[derive(Clone, Copy, Debug, PartialEq, Eq)]
enum Want {
    Refuse,
    Pass,
    Either,
}

/// Elementary interval of the address space with the decision of the most specific entry.
#[derive(Clone, Debug)]
struct Iv {
    lo: u128,
    hi: u128,
    want: Want,
    /// "10.0.0.0/8 Private-Use ..." or "outside a-b"
    label: String,
}

fn mask(len: u8, bits: u8) -> u128 {
    if len == 0 {
        0
    } else {
        let full: u128 = if bits == 128 { u128::MAX } else { (1u128 << bits) - 1 };
        full & !((1u128 << (bits - len)).wrapping_sub(1))
    }
}

/// (lo, hi, flag, label) of every entry
fn entries(v6: bool) -> Vec<(u128, u128, u8, Flag, String)> {
    if v6 {
        V6.iter()
            .map(|e| {
                let a: Ipv6Addr = e.net.parse().expect("table address");
                let lo = u128::from(a);
                assert_eq!(lo & !mask(e.len, 128), 0, "host bits set in table entry {}", e.net);
                (lo, lo | !mask(e.len, 128), e.len, e.flag, format!("{}/{} {} ({})", e.net, e.len, e.name, e.date))
            })
            .collect()
    } else {
        V4.iter()
            .map(|e| {
                let lo = u32::from(Ipv4Addr::from(e.net)) as u128;
                assert_eq!(lo & !mask(e.len, 32), 0, "host bits set in table entry {:?}", e.net);
                (lo, lo | (!mask(e.len, 32) & 0xffff_ffff), e.len, e.flag, format!("{}/{} {} ({})", Ipv4Addr::from(e.net), e.len, e.name, e.date))
            })
            .collect()
    }
}

fn fmt_addr(v6: bool, a: u128) -> String {
    if v6 {
        Ipv6Addr::from(a).to_string()
    } else {
        Ipv4Addr::from(a as u32).to_string()
    }
}

fn intervals(v6: bool) -> Vec<Iv> {
    let es = entries(v6);
    let top: u128 = if v6 { u128::MAX } else { 0xffff_ffff };
    let mut cuts: Vec<u128> = vec![0];
    for e in &es {
        cuts.push(e.0);
        if e.1 < top {
            cuts.push(e.1 + 1);
        }
    }
    cuts.sort();
    cuts.dedup();
    let mut out: Vec<Iv> = Vec::new();
    for (i, &lo) in cuts.iter().enumerate() {
        let hi = if i + 1 < cuts.len() { cuts[i + 1] - 1 } else { top };
        // most specific entry containing the interval
        let best = es.iter().filter(|e| e.0 <= lo && hi <= e.1).max_by_key(|e| e.2);
        let (want, label) = match best {
            Some(e) => (
                match e.3 {
                    Flag::No => Want::Refuse,
                    _ => Want::Either,
                },
                e.4.clone(),
            ),
            None => (Want::Pass, String::new()),
        };
        out.push(Iv { lo, hi, want, label });
    }
    // merge adjacent "outside" intervals and label them by their range
    let mut merged: Vec<Iv> = Vec::new();
    for iv in out {
        if let Some(last) = merged.last_mut() {
            if last.want == Want::Pass && iv.want == Want::Pass {
                last.hi = iv.hi;
                continue;
            }
        }
        merged.push(iv);
    }
    for iv in merged.iter_mut() {
        if iv.want == Want::Pass {
            iv.label = format!("outside every entry: {} - {}", fmt_addr(v6, iv.lo), fmt_addr(v6, iv.hi));
        }
    }
    merged
}

fn find(ivs: &[Iv], a: u128) -> usize {
    ivs.partition_point(|iv| iv.hi < a)
}

// ---- the recording inner transport ---------------------------------------------------------------

#[derive(Default)]
struct Seen {
    calls: Cell<u64>,
    /// leading IP of the last dialed address (v4 in the low 32 bits) and its byte length
    ip: Cell<u128>,
    len: Cell<usize>,
    listen_calls: Cell<u64>,
}

struct Recorder(Rc<Seen>);

fn leading_ip(a: &Multiaddr) -> Option<u128> {
    match a.iter().next() {
        Some(Protocol::Ip4(x)) => Some(u32::from(x) as u128),
        Some(Protocol::Ip6(x)) => Some(u128::from(x)),
        _ => None,
    }
}

impl Transport for Recorder {
    type Output = ();
    type Error = std::io::Error;
    type ListenerUpgrade = futures::future::Ready<Result<(), std::io::Error>>;
    type Dial = futures::future::Ready<Result<(), std::io::Error>>;
    fn listen_on(&mut self, _id: ListenerId, _addr: Multiaddr) -> Result<(), TransportError<Self::Error>> {
        self.0.listen_calls.set(self.0.listen_calls.get() + 1);
        Ok(())
    }
    fn remove_listener(&mut self, _id: ListenerId) -> bool {
        false
    }
    fn dial(&mut self, addr: Multiaddr, _opts: DialOpts) -> Result<Self::Dial, TransportError<Self::Error>> {
        self.0.calls.set(self.0.calls.get() + 1);
        self.0.ip.set(leading_ip(&addr).unwrap_or(u128::MAX));
        self.0.len.set(addr.len());
        Ok(futures::future::ready(Ok(())))
    }
    fn poll(self: Pin<&mut Self>, _cx: &mut Context<'_>) -> Poll<TransportEvent<Self::ListenerUpgrade, Self::Error>> {
        Poll::Pending
    }
}

struct Subject {
    t: global_only::Transport<Recorder>,
    seen: Rc<Seen>,
}

fn subject() -> Subject {
    let seen = Rc::new(Seen::default());
    Subject { t: global_only::Transport::new(Recorder(seen.clone())), seen }
}

const OPTS: DialOpts = DialOpts { role: Endpoint::Dialer, port_use: PortUse::Reuse };

#[derive(Clone, Copy, PartialEq, Eq, Debug)]
enum Verdict {
    Passed,
    Refused,
}

/// dial one address; checks the mechanics (inner called exactly when Ok, with the same address;
/// refusal is MultiaddrNotSupported carrying the address)
fn dial(s: &mut Subject, addr: Multiaddr) -> Result<Verdict, String> {
    let before = s.seen.calls.get();
    let ip = leading_ip(&addr);
    let len = addr.len();
    match s.t.dial(addr, OPTS) {
        Ok(_) => {
            if s.seen.calls.get() != before + 1 {
                return Err(format!("dial-ok-without-inner :: dial returned Ok but the inner transport saw {} calls", s.seen.calls.get() - before));
            }
            if Some(s.seen.ip.get()) != ip || s.seen.len.get() != len {
                return Err("address-rewritten :: inner transport received a different address".to_string());
            }
            Ok(Verdict::Passed)
        }
        Err(TransportError::MultiaddrNotSupported(back)) => {
            if s.seen.calls.get() != before {
                return Err("refused-after-inner-dial :: MultiaddrNotSupported although the inner transport was called".to_string());
            }
            if leading_ip(&back) != ip || back.len() != len {
                return Err("refusal-carries-other-address :: MultiaddrNotSupported carries a different address".to_string());
            }
            Ok(Verdict::Refused)
        }
        Err(TransportError::Other(e)) => Err(format!("unexpected-error :: {e}")),
    }
}

fn ip_addr(v6: bool, a: u128, suffix: u8) -> Multiaddr {
    let first = if v6 { Protocol::Ip6(Ipv6Addr::from(a)) } else { Protocol::Ip4(Ipv4Addr::from(a as u32)) };
    let m = Multiaddr::empty().with(first);
    match suffix {
        0 => m,
        1 => m.with(Protocol::Tcp(4001)),
        2 => m.with(Protocol::Udp(4001)).with(Protocol::QuicV1),
        // a second, global, IP further down must not matter: only the leading IP counts
        _ => m.with(Protocol::Tcp(1)).with(Protocol::Ip4(Ipv4Addr::new(8, 8, 8, 8))),
    }
}

/// judge one IP address against the table; Err = violation text "signature :: details"
fn judge(v6: bool, ivs: &[Iv], idx: usize, a: u128, suffix: u8, s: &mut Subject) -> Result<Verdict, String> {
    let fam = if v6 { "ip6" } else { "ip4" };
    let v = mc::catch(|| dial(s, ip_addr(v6, a, suffix))).unwrap_or_else(|p| Err(format!("dial-panic :: {p}")))?;
    let iv = &ivs[idx];
    match (iv.want, v) {
        (Want::Refuse, Verdict::Passed) => Err(format!("non-global-dialed {fam} {} :: {} (suffix {suffix}) was handed to the inner transport; the registry marks {} as not globally reachable", iv.label.split(' ').next().unwrap_or(""), fmt_addr(v6, a), iv.label)),
        (Want::Pass, Verdict::Refused) => Err(format!("global-refused {fam} {} :: {} (suffix {suffix}) was refused although it lies outside every special-purpose block", iv.label, fmt_addr(v6, a))),
        _ => Ok(v),
    }
}

// ---- enumeration ----------------------------------------------------------------------------------

struct Tally {
    passed: Vec<u64>,
    refused: Vec<u64>,
}

fn run_ip(v6: bool, ivs: &[Iv], addrs: impl Iterator<Item = u128>, suffixes: &[u8], nontrivial: bool, tally: &mut Tally, s: &mut Subject, out: &mut Outcome) {
    let fam = if v6 { "ip6" } else { "ip4" };
    let mut idx = 0usize;
    for a in addrs {
        if !(ivs[idx].lo <= a && a <= ivs[idx].hi) {
            // sequential enumerations mostly move to the next interval
            idx = if idx + 1 < ivs.len() && ivs[idx + 1].lo <= a && a <= ivs[idx + 1].hi { idx + 1 } else { find(ivs, a) };
        }
        for &sfx in suffixes {
            out.evaluations += 1;
            match judge(v6, ivs, idx, a, sfx, s) {
                Ok(Verdict::Passed) => tally.passed[idx] += 1,
                Ok(Verdict::Refused) => tally.refused[idx] += 1,
                Err(m) => {
                    // count it as evaluated under its actual verdict for the totals
                    out.violation(mc::bfs::signature_of(&m), m, json!({"kind": fam, "addr": fmt_addr(v6, a), "suffix": sfx}));
                    out.count("violating_addresses", 1);
                }
            }
            if nontrivial {
                out.nontrivial(&format!("{fam} {a:x} {sfx}"));
            }
        }
    }
}

fn boundary_set(v6: bool) -> Vec<u128> {
    let top: u128 = if v6 { u128::MAX } else { 0xffff_ffff };
    let mut v = Vec::new();
    for e in entries(v6) {
        for d in 0..=2u128 {
            for base in [e.0, e.1] {
                if base >= d {
                    v.push(base - d);
                }
                if base <= top - d {
                    v.push(base + d);
                }
            }
        }
    }
    v.sort();
    v.dedup();
    v
}

fn host_patterns(hostbits: u8) -> Vec<u128> {
    if hostbits == 0 {
        return vec![0];
    }
    let all: u128 = if hostbits == 128 { u128::MAX } else { (1u128 << hostbits) - 1 };
    let mut v = vec![0, 1 & all, all, all - 1, 0x5555_5555_5555_5555_5555_5555_5555_5555 & all, 1u128 << (hostbits - 1), (1u128 << (hostbits - 1)) - 1];
    v.sort();
    v.dedup();
    v
}

/// structured IPv6 sample around one entry
fn v6_structured(lo: u128, len: u8) -> Vec<u128> {
    let mut v = Vec::new();
    let hostbits = 128 - len;
    let hp = host_patterns(hostbits);
    let block: u128 = if len == 0 { 0 } else if hostbits == 0 { lo } else { lo >> hostbits };
    let nblocks_max: u128 = if len == 128 { u128::MAX } else { (1u128 << len) - 1 };
    for b in [block.checked_sub(1), Some(block), if block < nblocks_max { Some(block + 1) } else { None }].into_iter().flatten() {
        for h in &hp {
            v.push(if hostbits == 0 { b } else { (b << hostbits) | h });
        }
    }
    // single-bit flips of the prefix
    let all: u128 = if hostbits == 0 { 0 } else { (1u128 << hostbits) - 1 };
    for i in 0..len {
        let flipped = lo ^ (1u128 << (127 - i));
        for h in [0, all, 0xaaaa_aaaa_aaaa_aaaa_aaaa_aaaa_aaaa_aaaa & all] {
            v.push((flipped & !all) | h);
        }
    }
    v
}

/// every value of 16-bit segment `k` of an address, other bits from `base`
fn seg_sweep(base: u128, k: u8) -> impl Iterator<Item = u128> {
    let shift = 112 - 16 * k as u32;
    (0..=0xffffu128).map(move |x| (base & !(0xffffu128 << shift)) | (x << shift))
}

fn non_ip_addresses() -> Vec<Multiaddr> {
    let peer = kit::ids::peer(1);
    [
        "".to_string(),
        "/dns/example.com/tcp/443".into(),
        "/dns4/example.com/tcp/443".into(),
        "/dns6/example.com/tcp/443".into(),
        "/dnsaddr/bootstrap.libp2p.io".into(),
        "/dns/8.8.8.8/tcp/1".into(),
        "/memory/1234".into(),
        "/unix/%2Ftmp%2Fsock".into(),
        "/tcp/80".into(),
        "/udp/4001/quic-v1".into(),
        format!("/p2p/{peer}"),
        format!("/p2p/{peer}/p2p-circuit"),
        "/ip6zone/eth0/ip6/2a00::1/tcp/1".into(),
        "/tcp/1/ip4/8.8.8.8".into(),
    ]
    .iter()
    .map(|s| s.parse::<Multiaddr>().unwrap_or_else(|e| panic!("harness address {s}: {e}")))
    .collect()
}

fn non_ip_case(i: usize, s: &mut Subject) -> Result<(), String> {
    let addrs = non_ip_addresses();
    let a = addrs[i].clone();
    let before = s.seen.calls.get();
    match mc::catch(|| s.t.dial(a.clone(), OPTS)).map_err(|p| format!("dial-panic :: {p} on {a}"))? {
        Err(TransportError::MultiaddrNotSupported(back)) if back == a && s.seen.calls.get() == before => Ok(()),
        Err(TransportError::MultiaddrNotSupported(_)) => Err(format!("non-ip-refusal-malformed :: {a:?}: refusal carries another address or the inner transport was called")),
        Ok(_) => Err(format!("non-ip-dialed :: address {a:?} does not start with an IP but was handed to the inner transport")),
        Err(TransportError::Other(e)) => Err(format!("unexpected-error :: {e}")),
    }
}

fn table_sanity(out: &mut Outcome) {
    // size of the refused part of IPv4 according to the table, by independent arithmetic
    let ivs = intervals(false);
    let must_refuse: u128 = ivs.iter().filter(|i| i.want == Want::Refuse).map(|i| i.hi - i.lo + 1).sum();
    // 0/8 + 10/8 + 127/8 (3 * 2^24) + 100.64/10 (2^22) + 169.254/16 + 192.168/16 (2 * 2^16) + 172.16/12 (2^20)
    // + 192.0.0.0/24 minus .9 .10 (254) + 3 documentation /24 (768) + 198.18/15 (2^17) + 240/4 (2^28)
    let expect: u128 = 3 * (1 << 24) + (1 << 22) + 2 * (1 << 16) + (1 << 20) + 254 + 768 + (1 << 17) + (1 << 28);
    if must_refuse != expect {
        out.machinery(format!("table sanity: IPv4 must-refuse size {must_refuse} != {expect}"));
    }
    let total: u128 = ivs.iter().map(|i| i.hi - i.lo + 1).sum();
    if total != 1 << 32 || ivs.windows(2).any(|w| w[0].hi + 1 != w[1].lo) {
        out.machinery("table sanity: IPv4 intervals do not partition the space");
    }
    let ivs6 = intervals(true);
    if ivs6.first().map(|i| i.lo) != Some(0) || ivs6.last().map(|i| i.hi) != Some(u128::MAX) || ivs6.windows(2).any(|w| w[0].hi + 1 != w[1].lo) {
        out.machinery("table sanity: IPv6 intervals do not partition the space");
    }
}

fn flush_tally(v6: bool, ivs: &[Iv], t: &Tally, out: &mut Outcome) {
    let fam = if v6 { "ip6" } else { "ip4" };
    for (i, iv) in ivs.iter().enumerate() {
        let short = if iv.want == Want::Pass { format!("outside {}-{}", fmt_addr(v6, iv.lo), fmt_addr(v6, iv.hi)) } else { iv.label.split(' ').next().unwrap_or("").to_string() };
        if t.passed[i] > 0 {
            out.count(&format!("{fam} passed  {short}"), t.passed[i]);
            out.nontrivial(&format!("{fam} {i} passed"));
        }
        if t.refused[i] > 0 {
            out.count(&format!("{fam} refused {short}"), t.refused[i]);
            out.nontrivial(&format!("{fam} {i} refused"));
        }
        match iv.want {
            Want::Refuse => out.count(&format!("{fam}_must_refuse_evaluated"), t.passed[i] + t.refused[i]),
            Want::Pass => out.count(&format!("{fam}_must_pass_evaluated"), t.passed[i] + t.refused[i]),
            Want::Either => out.count(&format!("{fam}_either_evaluated"), t.passed[i] + t.refused[i]),
        }
        out.count(&format!("{fam}_passed_total"), t.passed[i]);
        out.count(&format!("{fam}_refused_total"), t.refused[i]);
    }
}

pub fn run(ctx: &Ctx) -> Outcome {
    if let Some(case) = &ctx.replay {
        let mut out = Outcome::default();
        replay(case, &mut out);
        return out;
    }
    let thorough = !ctx.quick();
    let mut total = mc::workers(ctx, 16, |ctx| {
        let mut out = Outcome::default();
        let mut s = subject();
        // ---------------- IPv4
        let ivs4 = intervals(false);
        let mut t4 = Tally { passed: vec![0; ivs4.len()], refused: vec![0; ivs4.len()] };
        // striped by /16 block
        for block in 0..65536u64 {
            if !ctx.mine(block) {
                continue;
            }
            let base = (block as u128) << 16;
            if thorough {
                run_ip(false, &ivs4, (0..65536u128).map(|l| base | l), &[0], false, &mut t4, &mut s, &mut out);
            } else {
                run_ip(false, &ivs4, (0..256u128).flat_map(|c| [base | (c << 8), base | (c << 8) | 0xff]), &[0], false, &mut t4, &mut s, &mut out);
            }
        }
        // ---------------- IPv6: segment sweeps and (thorough) the first 32 bits, striped
        let ivs6 = intervals(true);
        let mut t6 = Tally { passed: vec![0; ivs6.len()], refused: vec![0; ivs6.len()] };
        let mut job = 0u64;
        let rest_patterns = |segs_fixed: u8| -> Vec<u128> {
            let hb = 128 - 16 * segs_fixed as u32;
            let all: u128 = if hb == 0 { 0 } else if hb == 128 { u128::MAX } else { (1u128 << hb) - 1 };
            let mut v = vec![0, all, 0x1234_5678_9abc_def0_0fed_cba9_8765_4321 & all];
            v.dedup();
            v
        };
        for e in entries(true) {
            let nseg = (e.2 + 15) / 16;
            for k in 0..nseg.max(1) {
                // bits after the prefix take 3 patterns; bits of the prefix other than segment k stay
                let hb = 128 - e.2;
                let all: u128 = if hb == 0 { 0 } else { (1u128 << hb) - 1 };
                for h in [0, all, 0x1234_5678_9abc_def0_0fed_cba9_8765_4321 & all] {
                    job += 1;
                    if !ctx.mine(job) {
                        continue;
                    }
                    run_ip(true, &ivs6, seg_sweep(e.0 | h, k), &[0], false, &mut t6, &mut s, &mut out);
                    out.count("ip6_segment_sweeps", 1);
                }
            }
        }
        for p in rest_patterns(1).into_iter().chain([1u128]) {
            job += 1;
            if ctx.mine(job) {
                run_ip(true, &ivs6, seg_sweep(p, 0), &[0], false, &mut t6, &mut s, &mut out);
                out.count("ip6_segment_sweeps", 1);
            }
        }
        if thorough {
            for seg0 in 0..65536u64 {
                if !ctx.mine(seg0) {
                    continue;
                }
                let base = (seg0 as u128) << 112;
                run_ip(true, &ivs6, (0..65536u128).map(|s1| base | (s1 << 96)), &[0], false, &mut t6, &mut s, &mut out);
            }
            out.count("ip6_first_32_bits_exhaustive", 1);
        }
        // ---------------- un-striped small parts run in worker 0 only
        if ctx.mine(0) {
            table_sanity(&mut out);
            let b4 = boundary_set(false);
            out.count("ip4_boundary_addresses", b4.len() as u64);
            run_ip(false, &ivs4, b4.into_iter(), &[0, 1, 2, 3], true, &mut t4, &mut s, &mut out);
            let mut b6 = boundary_set(true);
            for e in entries(true) {
                b6.extend(v6_structured(e.0, e.2));
            }
            b6.sort();
            b6.dedup();
            out.count("ip6_structured_addresses", b6.len() as u64);
            run_ip(true, &ivs6, b6.into_iter(), &[0, 1, 2, 3], true, &mut t6, &mut s, &mut out);
            for i in 0..non_ip_addresses().len() {
                out.evaluations += 1;
                out.nontrivial(&format!("nonip {i}"));
                match non_ip_case(i, &mut s) {
                    Ok(()) => out.count("non_ip_refused", 1),
                    Err(m) => out.violation(mc::bfs::signature_of(&m), m, json!({"kind": "nonip", "index": i})),
                }
            }
            out.sample(json!({"kind": "ip4", "addr": "172.32.0.0", "table": "first address after 172.16.0.0/12", "expected": "passed to inner"}));
            out.sample(json!({"kind": "ip4", "addr": "198.19.255.255", "table": "last address of 198.18.0.0/15", "expected": "refused"}));
            out.sample(json!({"kind": "ip6", "addr": "2001:1::1", "table": "more specific (True) inside 2001::/23 (False)", "expected": "either"}));
            out.sample(json!({"kind": "ip6", "addr": "3fff:fff:ffff:ffff:ffff:ffff:ffff:ffff", "table": "last address of 3fff::/20", "expected": "refused"}));
            out.sample(json!({"kind": "nonip", "addr": "/dns4/example.com/tcp/443", "expected": "refused"}));
        }
        flush_tally(false, &ivs4, &t4, &mut out);
        flush_tally(true, &ivs6, &t6, &mut out);
        out
    });
    // vacuity / completeness guards on the merged outcome
    let want4: u64 = if thorough { 1 << 32 } else { 1 << 25 };
    let b4 = total.get("ip4_boundary_addresses") * 4;
    let seen4 = total.get("ip4_passed_total") + total.get("ip4_refused_total") + total.get("violating_addresses");
    if seen4 < want4 + b4 || total.get("ip4_passed_total") == 0 || total.get("ip4_refused_total") == 0 {
        total.machinery(format!("vacuity: IPv4 evaluated {seen4} addresses, expected at least {}", want4 + b4));
    }
    if total.get("ip6_passed_total") == 0 || total.get("ip6_refused_total") == 0 || total.get("ip6_must_refuse_evaluated") == 0 || total.get("ip6_must_pass_evaluated") == 0 {
        total.machinery("vacuity: IPv6 sample lacks refused or passed addresses");
    }
    if total.get("non_ip_refused") == 0 && total.violations.is_empty() {
        total.machinery("vacuity: no non-IP address evaluated");
    }
    total.notes.push("IPv6 is boundary-structured (not exhaustive); multicast and registry entries with a blank/N-A/True 'globally reachable' column are not enforced".into());
    total
}

fn replay(case: &Value, out: &mut Outcome) {
    out.evaluations = 1;
    let mut s = subject();
    let r: Result<(), String> = match case["kind"].as_str() {
        Some("ip4") => match case["addr"].as_str().and_then(|a| a.parse::<Ipv4Addr>().ok()) {
            Some(a) => {
                let ivs = intervals(false);
                let a = u32::from(a) as u128;
                judge(false, &ivs, find(&ivs, a), a, case["suffix"].as_u64().unwrap_or(0) as u8, &mut s).map(|_| ())
            }
            None => Err("bad replay address".into()),
        },
        Some("ip6") => match case["addr"].as_str().and_then(|a| a.parse::<Ipv6Addr>().ok()) {
            Some(a) => {
                let ivs = intervals(true);
                let a = u128::from(a);
                judge(true, &ivs, find(&ivs, a), a, case["suffix"].as_u64().unwrap_or(0) as u8, &mut s).map(|_| ())
            }
            None => Err("bad replay address".into()),
        },
        Some("nonip") => non_ip_case(case["index"].as_u64().unwrap_or(0) as usize, &mut s),
        _ => Err("bad replay case".into()),
    };
    if let Err(m) = r {
        out.violation(mc::bfs::signature_of(&m), m, case.clone());
    }
}
