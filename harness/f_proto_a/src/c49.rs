//! C49 — relayed circuits forward faithfully within their limits (E1: deviation-bounded
//! exploration of the real `CopyFuture` between two in-memory pipes).
//!
//! Set-up: user A <-pipe1-> [CopyFuture(src = relay end of pipe1, dst = relay end of pipe2)]
//! <-pipe2-> user B. The relay-side pipe ends are adversarial (1-byte reads, 1-byte partial
//! writes, injected Pending on read/write/flush — each a deviation), the writer tasks of A and
//! B yield between chunks, and the task schedule is explored. The duration timer of the
//! CopyFuture runs on the virtual clock (hook), time passes only where the harness says so.
//!
//! Oracle (statement, clause by clause):
//!  * what B received is a prefix of what A wrote, and vice versa, at every evaluation point;
//!  * bytes: with max_circuit_bytes > 0 a future that is still running at quiescence, or that
//!    ended with Ok, has forwarded at most max + 2 * 8 KiB (one BufReader buffer per
//!    direction) in total. Reading: max_circuit_bytes == 0 means "no byte limit" (the value
//!    is sent as `Limit.data`, where the circuit-v2 spec defines 0 as unlimited), so nothing is
//!    demanded for 0.
//!  * duration: the statement fixes no latency. Demanded: a future that is pending at
//!    quiescence *before* the deadline ends with an error once the clock has passed the
//!    deadline (timer fired, task polled); and in no case is a future still pending at
//!    quiescence after the deadline. (A future that is first polled after the deadline while
//!    both peers have already finished may return Ok: the timer is only consulted when the
//!    circuit idles, which the statement does not exclude.)

use futures::{AsyncWriteExt, FutureExt};
use kit::pipe::{self, End, PipeCfg};
use kit::tasks::{RunEnd, Tasks};
use libp2p_relay::verif_proto_a::CopyFuture;
use libp2p_swarm::verif_delay;
use mc::choice::{self, Chooser};
use mc::{json, Ctx, Meta, Outcome, Value};
use std::cell::RefCell;
use std::future::Future;
use std::pin::Pin;
use std::rc::Rc;
use std::task::{Context, Poll};
use std::time::Duration;

pub const META: Meta = Meta {
    level: "model_checking",
    rule: "configs = (script A, script B, max_circuit_bytes in {0,10,8192}); a script is <= W writes of sizes {1,7,8193}, or one write of 24577 bytes (base bound only), followed by close or keep-open; (W, deviation bound) classes: quick (2,1),(1,2); thorough (3,1),(2,2),(1,3); per config every execution with <= bound deviations: 1-byte read / 1-byte partial write / injected Pending on the relay-side pipe ends, non-round-robin task choice among {CopyFuture, writer A, writer B} (writers yield between chunks), and 'the circuit duration elapses before the first poll' instead of after the first quiescence. plus 'simultaneous traffic' configs (bytes offered at once by A and by B in {0,100,45000} (thorough also 1, 9000), relay-side read chunk in {16,512,8192} (thorough also 1, 4096), limit in {0,10,8192,20000}, close/keep-open; no injected pipe deviations, schedule/early-deadline deviations <= 1) in which both directions progress in the same poll iteration. Non-trivial = executions with >= 1 deviation (distinct by config and choice sequence).",
    explanation: "E1 stateless DFS with deviation bound over the real CopyFuture (production code through a hook wrapper; its Delay is the virtual-clock Delay); oracle evaluated on every execution: prefix property both ways, byte bound max+2*8KiB while running / on Ok, error after the deadline for an idle circuit, never pending after the deadline.",
    assumptions: &["poll-granularity interleaving on one thread", "pipes are unbounded (back-pressure is modelled by injected Pending / partial writes on the relay side)", "max_circuit_bytes = 0 read as 'unlimited'"],
};

const SIZES: [usize; 3] = [1, 7, 8193];
const BUF: u64 = 8192;
const LONG: usize = 3 * 8192 + 1;
const DURATION: Duration = Duration::from_secs(120);

fn pattern(side: u8, n: usize) -> Vec<u8> {
    (0..n).map(|i| if side == 0 { ((i * 7 + 1) % 251) as u8 } else { ((i * 13 + 5) % 241) as u8 }).collect()
}

struct YieldNow(bool);
impl Future for YieldNow {
    type Output = ();
    fn poll(mut self: Pin<&mut Self>, cx: &mut Context<'_>) -> Poll<()> {
        if self.0 {
            return Poll::Ready(());
        }
        self.0 = true;
        cx.waker().wake_by_ref();
        Poll::Pending
    }
}

#[derive(Clone, Debug)]
struct Cfg {
    a: Vec<usize>,
    a_close: bool,
    b: Vec<usize>,
    b_close: bool,
    max: u64,
    /// 0: adversarial relay-side pipes (deviations). n > 0: 'simultaneous traffic' mode — relay-side
    /// reads return at most n bytes (8192 = a full BufReader buffer), no injected deviations.
    chunk: usize,
}
impl Cfg {
    fn to_json(&self) -> Value {
        json!({"a": self.a, "a_close": self.a_close, "b": self.b, "b_close": self.b_close, "max": self.max, "chunk": self.chunk})
    }
    fn from_json(v: &Value) -> Cfg {
        let sz = |k: &str| -> Vec<usize> { v[k].as_array().map(|a| a.iter().map(|x| x.as_u64().unwrap_or(0) as usize).collect()).unwrap_or_default() };
        Cfg { a: sz("a"), a_close: v["a_close"].as_bool().unwrap_or(false), b: sz("b"), b_close: v["b_close"].as_bool().unwrap_or(false), max: v["max"].as_u64().unwrap_or(0), chunk: v["chunk"].as_u64().unwrap_or(0) as usize }
    }
}

#[derive(Default, Debug, Clone)]
struct Stats {
    ok: u64,
    err_bytes: u64,
    err_timeout: u64,
    err_other: u64,
    complete_delivery: u64,
    ok_incomplete: u64,
    early: u64,
}

thread_local! {
    static STATS: RefCell<Stats> = RefCell::new(Stats::default());
}

fn is_prefix(got: &[u8], full: &[u8]) -> bool {
    got.len() <= full.len() && got == &full[..got.len()]
}

fn one(cfg: &Cfg) -> Result<(), String> {
    mc::vclock::reset();
    verif_delay::reset_registry();
    let (mut a_user, mut a_relay) = pipe::pair(PipeCfg::default());
    let (mut b_relay, mut b_user) = pipe::pair(PipeCfg::default());
    a_user.cfg = PipeCfg::default();
    b_user.cfg = PipeCfg::default();
    let relay_cfg = if cfg.chunk == 0 { PipeCfg::adversarial() } else { PipeCfg { max_read: cfg.chunk, ..PipeCfg::default() } };
    a_relay.cfg = relay_cfg;
    b_relay.cfg = relay_cfg;
    let h1 = a_user.handle();
    let h2 = b_user.handle();
    let a_all: Vec<u8> = pattern(0, cfg.a.iter().sum());
    let b_all: Vec<u8> = pattern(1, cfg.b.iter().sum());

    let result: Rc<RefCell<Option<std::io::Result<()>>>> = Rc::new(RefCell::new(None));
    let parked: Rc<RefCell<Vec<End>>> = Rc::new(RefCell::new(Vec::new()));
    let mut tasks = Tasks::new(true);
    let copy = CopyFuture::new(a_relay, b_relay, DURATION, cfg.max);
    {
        let result = result.clone();
        tasks.spawn_local("copy", copy.map(move |r| {
            *result.borrow_mut() = Some(r);
        }));
    }
    let writer = |mut end: End, data: Vec<u8>, sizes: Vec<usize>, close: bool, parked: Rc<RefCell<Vec<End>>>| async move {
        let mut off = 0;
        for s in sizes {
            // the relay may already have torn the circuit down: a write error ends the script
            if end.write_all(&data[off..off + s]).await.is_err() {
                break;
            }
            off += s;
            YieldNow(false).await;
        }
        if close {
            let _ = end.close().await;
        }
        // keep the end alive (dropping it would close the direction)
        parked.borrow_mut().push(end);
    };
    tasks.spawn_local("A", writer(a_user, a_all.clone(), cfg.a.clone(), cfg.a_close, parked.clone()));
    tasks.spawn_local("B", writer(b_user, b_all.clone(), cfg.b.clone(), cfg.b_close, parked.clone()));

    // p1: A-side = user A (writes ab), B-side = relay (writes ba). p2: A-side = relay (writes ab).
    let forwarded = |h1: &pipe::Handle, h2: &pipe::Handle| -> (u64, u64) { (h2.totals().0, h1.totals().1) };
    // what the users received so far (the user ends never read; the harness drains the pipes)
    let acc_a: RefCell<Vec<u8>> = RefCell::new(Vec::new());
    let acc_b: RefCell<Vec<u8>> = RefCell::new(Vec::new());
    let check_prefix = |h1: &pipe::Handle, h2: &pipe::Handle, at: &str| -> Result<(usize, usize), String> {
        acc_b.borrow_mut().extend(h2.take(true));
        acc_a.borrow_mut().extend(h1.take(false));
        let (got_a, got_b) = (acc_a.borrow(), acc_b.borrow());
        if !is_prefix(&got_b, &a_all) {
            return Err(format!("not-a-prefix A->B :: at {at}: B received {} bytes that are not a prefix of the {} bytes A wrote", got_b.len(), a_all.len()));
        }
        if !is_prefix(&got_a, &b_all) {
            return Err(format!("not-a-prefix B->A :: at {at}: A received {} bytes that are not a prefix of the {} bytes B wrote", got_a.len(), b_all.len()));
        }
        Ok((got_a.len(), got_b.len()))
    };

    let early = choice::choose_l(2, 1, "duration-elapses-early") == 1;
    if early {
        mc::vclock::advance(DURATION);
        verif_delay::fire_due();
        STATS.with(|s| s.borrow_mut().early += 1);
    }
    if tasks.run(6000) == RunEnd::Horizon {
        return Err("horizon :: still runnable after 6000 polls (livelock?)".into());
    }
    check_prefix(&h1, &h2, "first quiescence")?;
    let (fab, fba) = forwarded(&h1, &h2);
    let total = fab + fba;
    let done_now = result.borrow().is_some();
    choice::observe(&format!("q1 fwd {fab}/{fba} done {done_now} {:?}", result.borrow().as_ref().map(|r| r.as_ref().map_err(|e| e.kind()).err())));
    if !done_now {
        if early {
            return Err(format!("pending-after-deadline :: the circuit duration had elapsed before the first poll, yet the future is still pending at quiescence (forwarded {fab}+{fba})"));
        }
        if cfg.max > 0 && total > cfg.max + 2 * BUF {
            return Err(format!("over-limit-still-running max={} :: forwarded {fab}+{fba}={total} bytes > max+2*8KiB and the future is still pending", cfg.max));
        }
        // now let the duration pass
        mc::vclock::advance(DURATION);
        verif_delay::fire_due();
        if tasks.run(6000) == RunEnd::Horizon {
            return Err("horizon :: still runnable after 6000 polls after the deadline".into());
        }
        check_prefix(&h1, &h2, "quiescence after deadline")?;
        match result.borrow().as_ref() {
            None => return Err(format!("pending-after-deadline :: idle circuit still pending after the clock passed max_circuit_duration (forwarded {fab}+{fba})")),
            Some(Ok(())) => return Err("ok-after-deadline :: a circuit that was idle before the deadline ended with Ok after it".to_string()),
            Some(Err(_)) => {}
        }
    }
    let (fab, fba) = forwarded(&h1, &h2);
    let total = fab + fba;
    let (got_a, got_b) = check_prefix(&h1, &h2, "end")?;
    let r = result.borrow_mut().take().expect("done");
    // "ends with an error once more than max (+ one read buffer per direction) has been
    // forwarded": whatever the result, the total can never have passed that bound
    if cfg.max > 0 && total > cfg.max + 2 * BUF {
        return Err(format!("forwarded-beyond-limit max={} :: {fab}+{fba}={total} bytes were forwarded (> max + 2*8KiB) before the future ended with {:?}", cfg.max, r.as_ref().map_err(|e| e.to_string())));
    }
    let mut st = Stats::default();
    match &r {
        Ok(()) => {
            st.ok = 1;
            if cfg.max > 0 && total > cfg.max + 2 * BUF {
                return Err(format!("ok-over-limit max={} :: future returned Ok after forwarding {fab}+{fba}={total} bytes", cfg.max));
            }
            if got_a == b_all.len() && got_b == a_all.len() {
                st.complete_delivery = 1;
            } else {
                st.ok_incomplete = 1;
            }
        }
        Err(e) if e.kind() == std::io::ErrorKind::TimedOut => st.err_timeout = 1,
        Err(e) if e.to_string().contains("Max circuit bytes") => {
            st.err_bytes = 1;
            if cfg.max == 0 {
                return Err("bytes-error-without-limit :: 'Max circuit bytes reached' with max_circuit_bytes = 0".to_string());
            }
            if total <= cfg.max {
                return Err(format!("bytes-error-below-limit max={} :: 'Max circuit bytes reached' after only {total} bytes", cfg.max));
            }
        }
        Err(_) => st.err_other = 1,
    }
    choice::observe(&format!("end fwd {fab}/{fba} {:?}", r.as_ref().map_err(|e| e.kind()).err()));
    STATS.with(|s| {
        let mut s = s.borrow_mut();
        s.ok += st.ok;
        s.err_bytes += st.err_bytes;
        s.err_timeout += st.err_timeout;
        s.err_other += st.err_other;
        s.complete_delivery += st.complete_delivery;
        s.ok_incomplete += st.ok_incomplete;
    });
    drop(parked);
    Ok(())
}

fn body(cfg: Cfg) -> impl FnMut(&mut Chooser) -> Result<(), String> {
    move |ch: &mut Chooser| {
        let cfg = cfg.clone();
        choice::scoped(ch, move || mc::catch(|| one(&cfg)).unwrap_or_else(|p| Err(format!("panic :: {p} at {:?}", mc::shim::last_panic_loc()))))
    }
}

fn scripts(max_writes: usize) -> Vec<(Vec<usize>, bool)> {
    let mut v = Vec::new();
    for len in 0..=max_writes {
        mc::enumerate::sequences(3, len, |idx| {
            for close in [true, false] {
                v.push((idx.iter().map(|&i| SIZES[i]).collect(), close));
            }
        });
    }
    // one long write (3 read buffers + 1 byte): traffic in one direction alone exceeds
    // max + 2 * 8 KiB for every limit used
    for close in [true, false] {
        v.push((vec![LONG], close));
    }
    v
}

pub fn run(ctx: &Ctx) -> Outcome {
    if let Some(case) = &ctx.replay {
        let mut out = Outcome::default();
        out.evaluations = 1;
        let choices: Vec<u32> = serde_json::from_value(case["choices"].clone()).unwrap_or_default();
        if let Err(m) = choice::replay(&choices, body(Cfg::from_json(&case["cfg"]))) {
            out.violation(mc::bfs::signature_of(&m), m, case.clone());
        }
        return out;
    }
    // (config, bound) work list
    let mut work: Vec<(Cfg, u32)> = Vec::new();
    // (max writes per script, deviation bound): a config gets the largest bound of the classes it belongs to
    let classes: Vec<(usize, u32)> = if ctx.quick() { vec![(2, 1), (1, 2)] } else { vec![(3, 1), (2, 2), (1, 3)] };
    let w_all = classes.iter().map(|c| c.0).max().unwrap();
    for (a, ac) in scripts(w_all) {
        for (b, bc) in scripts(w_all) {
            for max in [0u64, 10, 8192] {
                let bound = classes.iter().filter(|(w, _)| a.len() <= *w && b.len() <= *w).map(|c| c.1).max().unwrap();
                // the long-write scripts are explored at the base bound only, against short
                // scripts (<= 1 write) or another long write on the other side
                if (a.contains(&LONG) && b.len() > 1) || (b.contains(&LONG) && a.len() > 1) {
                    continue;
                }
                let bound = if a.contains(&LONG) || b.contains(&LONG) { classes[0].1 } else { bound };
                work.push((Cfg { a: a.clone(), a_close: ac, b: b.clone(), b_close: bc, max, chunk: 0 }, bound));
            }
        }
    }
    // Simultaneous traffic: both endpoints have their data available before the CopyFuture is
    // polled, so that both directions progress in the same loop iteration; relay-side reads come
    // in chunks of `chunk` bytes. Enumerated: (bytes offered by A, by B, chunk, limit); schedule
    // and early-deadline deviations up to bound 1. With limit 20000 the offered 45000 bytes per
    // side exceed limit + 2 * 8 KiB in sum, so mis-accounting one direction is visible.
    let offered: &[usize] = if ctx.quick() { &[0, 100, 45_000] } else { &[0, 1, 100, 9_000, 45_000] };
    let chunks: &[usize] = if ctx.quick() { &[16, 512, 8192] } else { &[1, 16, 512, 4096, 8192] };
    for &na in offered {
        for &nb in offered {
            for &chunk in chunks {
                for max in [0u64, 10, 8192, 20_000] {
                    for close in [true, false] {
                        let w = |n: usize| if n == 0 { vec![] } else { vec![n] };
                        work.push((Cfg { a: w(na), a_close: close, b: w(nb), b_close: close, max, chunk }, 1));
                    }
                }
            }
        }
    }
    let work = &work;
    let mut out = mc::workers(ctx, 16, |ctx| {
        let mut out = Outcome::default();
        for (i, (cfg, bound)) in work.iter().enumerate() {
            if !ctx.mine(i as u64) {
                continue;
            }
            let cj = cfg.to_json();
            let (st, viol) = choice::explore(*bound, 0, body(cfg.clone()));
            out.add_explore(&st);
            out.count("configs", 1);
            out.count(&format!("configs_bound{bound}"), 1);
            out.count("distinct_observations", st.distinct_obs);
            for k in 1..st.executions.min(2_000) {
                out.nontrivial_h(mc::report::hash_str(&cj.to_string()) ^ k.wrapping_mul(0x9e3779b97f4a7c15));
            }
            if i % 397 == 3 {
                out.sample(json!({"cfg": cj, "bound": bound, "executions": st.executions, "distinct_observations": st.distinct_obs}));
            }
            if let Some((choices, m)) = viol {
                if m.starts_with("NONDETERMINISM") {
                    out.machinery(format!("{m} cfg={cj}"));
                } else {
                    out.violation(mc::bfs::signature_of(&m), format!("{m} [cfg {cj}]"), json!({"cfg": cj, "choices": choices}));
                }
            }
        }
        let s = STATS.with(|s| s.borrow().clone());
        out.count("result_ok", s.ok);
        out.count("result_err_max_bytes", s.err_bytes);
        out.count("result_err_timed_out", s.err_timeout);
        out.count("result_err_other", s.err_other);
        out.count("ok_with_complete_delivery", s.complete_delivery);
        out.count("ok_with_incomplete_delivery", s.ok_incomplete);
        out.count("executions_with_early_deadline", s.early);
        out
    });
    for k in ["result_ok", "result_err_max_bytes", "result_err_timed_out", "ok_with_complete_delivery", "executions_with_early_deadline"] {
        if out.get(k) == 0 {
            out.machinery(format!("vacuity: counter {k} is zero"));
        }
    }
    if out.get("ok_with_incomplete_delivery") > 0 {
        out.notes.push("some executions returned Ok without delivering everything (not demanded by the statement; see counter)".into());
    }
    out.notes.push(format!("classes (max writes per script, deviation bound): {classes:?}; result_* counters include the determinism self-test re-executions"));
    out
}
