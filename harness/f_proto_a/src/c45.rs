//! C45 — every request gets exactly one outcome (E2: BFS over histories of application calls,
//! swarm events and handler events fed to the real `request_response::Behaviour`).
//!
//! The behaviour is driven standalone through `NetworkBehaviour`. One remote peer P1 with two
//! connection slots (c0, c1). Handler events are constructed directly (the enum is nameable as
//! `THandlerOutEvent<Behaviour<_>>`, inbound ids through the hook). The swarm's treatment of
//! `ToSwarm::Dial` is modelled as the real Swarm does it for the default
//! `PeerCondition::DisconnectedAndNotDialing`: refused at once with `DialPeerConditionFalse` when
//! the peer is connected or already being dialed, otherwise an outstanding dial that the
//! environment later resolves (established outbound connection / `DialFailure`).
//! At connection establishment the real `handle_established_*_connection` is called and the
//! real `Handler` it returns is polled to see how many queued requests were pre-loaded into it.
//!
//! Handler model (from handler.rs): an outbound request handed to a live connection produces
//! exactly one of Response / OutboundTimeout / OutboundUnsupportedProtocols /
//! OutboundStreamFailed unless the connection closes first; an inbound request is reported with
//! `Event::Request`, then — depending on what the application did with the channel — exactly
//! one of ResponseSent / ResponseOmission / InboundTimeout / InboundStreamFailed unless the
//! connection closes first; a worker time-out may also overtake the `Request` report.
//!
//! Oracle: (safety, every state) no request id ever has two outcomes, no outcome names an
//! unknown id, `send_request` ids are pairwise distinct; (completeness, every state) after the
//! deterministic drain suffix "fail every outstanding dial, close every open connection" every
//! outbound id has exactly one `Message::Response`/`OutboundFailure` and every inbound request
//! that was delivered to the application exactly one `ResponseSent`/`InboundFailure`.

use futures::channel::oneshot;
use futures::{AsyncRead, AsyncWrite};
use kit::ids::{addr, peer};
use libp2p_core::transport::PortUse;
use libp2p_core::{ConnectedPoint, Endpoint};
use libp2p_request_response as rr;
use libp2p_swarm::behaviour::{ConnectionClosed, ConnectionEstablished, DialFailure};
use libp2p_swarm::dial_opts::PeerCondition;
use libp2p_swarm::{ConnectionHandler, ConnectionHandlerEvent, ConnectionId, DialError, FromSwarm, NetworkBehaviour, NotifyHandler, StreamProtocol, THandlerOutEvent, ToSwarm};
use mc::bfs::{self, System};
use mc::{json, Ctx, Meta, Outcome};
use serde::{Deserialize, Serialize};
use std::cell::RefCell;
use std::collections::BTreeMap;
use std::io;
use std::task::{Context, Poll};

pub const META: Meta = Meta {
    level: "model_checking",
    rule: "BFS over all histories (depth 8 quick / 12 thorough) of {send_request (<=3), outstanding dial ends with DialError Transport/Aborted/WrongPeerId/Denied/NoAddresses/LocalPeerId (DialPeerConditionFalse is delivered by the dial-condition model whenever the behaviour asks for a dial while connected or dialing; the requests concerned stay queued and must get their outcome from the dial/connection that blocked them), connection c0/c1 established inbound/outbound (once each), connection closed, handler outcome for an outbound request (response/timeout/unsupported/stream failure), inbound request (<=2) reported, worker time-out overtaking the report, application responds / drops the channel, handler outcome for an inbound request (sent/omitted/time-out/stream failure)} against the real request_response::Behaviour; every state additionally re-executed from scratch with the drain suffix (fail dials, close connections). States deduplicated on the full model state (request tables with ids, stages and outcome counts, connection and dial state) + is_connected/is_pending_* getters. Non-trivial = states with at least one request issued or delivered.",
    explanation: "Every transition executes the real Behaviour (send_request / send_response / on_swarm_event / on_connection_handler_event / handle_established_* / poll); safety oracle in every state, completeness oracle after the drain suffix of every state; un-deduplicated DFS companion to a smaller depth.",
    assumptions: &["handlers are modelled at event level from handler.rs (one outcome per request unless the connection closes)", "the Swarm's handling of ToSwarm::Dial is modelled (DisconnectedAndNotDialing)", "one remote peer, two connections, <= 3 outbound and <= 2 inbound requests", "connections that are denied by another behaviour after handle_established_* are not part of the alphabet", "inbound request ids are allocated by the harness (in production: a shared atomic counter)"],
};

#[derive(Clone, Default)]
pub struct ProbeCodec;
impl rr::Codec for ProbeCodec {
    type Protocol = StreamProtocol;
    type Request = u8;
    type Response = u8;
    async fn read_request<T: AsyncRead + Unpin + Send>(&mut self, _: &StreamProtocol, _: &mut T) -> io::Result<u8> {
        Ok(0)
    }
    async fn read_response<T: AsyncRead + Unpin + Send>(&mut self, _: &StreamProtocol, _: &mut T) -> io::Result<u8> {
        Ok(0)
    }
    async fn write_request<T: AsyncWrite + Unpin + Send>(&mut self, _: &StreamProtocol, _: &mut T, _: u8) -> io::Result<()> {
        Ok(())
    }
    async fn write_response<T: AsyncWrite + Unpin + Send>(&mut self, _: &StreamProtocol, _: &mut T, _: u8) -> io::Result<()> {
        Ok(())
    }
}

type Beh = rr::Behaviour<ProbeCodec>;
type HEv = THandlerOutEvent<Beh>;

#[derive(Clone, Debug, Serialize, Deserialize, PartialEq)]
pub enum Act {
    Send,
    /// the outstanding dial ends with DialError kind k: 0 Transport, 1 Aborted (e.g.
    /// disconnect_peer_id on a pending dial), 2 WrongPeerId, 3 Denied, 4 NoAddresses, 5 LocalPeerId
    DialFail(u8),
    /// establish connection slot c; true = outbound (consumes an outstanding dial)
    Establish(usize, bool),
    Close(usize),
    /// handler outcome for outbound request i: 0 response, 1 timeout, 2 unsupported, 3 stream failed
    OutResult(usize, u8),
    /// inbound request reported on connection c
    Inbound(usize),
    /// inbound request on c whose worker timed out before the request was reported
    InboundLate(usize),
    AppRespond(usize),
    AppDrop(usize),
    /// handler outcome for inbound request j: 0 sent/omitted (by stage), 1 timeout, 2 stream failed
    InResult(usize, u8),
}

#[derive(Clone, Copy, PartialEq, Debug)]
enum OutLoc {
    Queued,
    OnConn(usize),
    /// was queued when a dial failed: the behaviour must have failed it
    DialFailed,
    /// the handler reported (or its connection closed)
    Finished,
}
struct OutReq {
    id: rr::OutboundRequestId,
    loc: OutLoc,
    outcomes: u32,
}
#[derive(PartialEq, Clone, Copy, Debug)]
enum InStage {
    Delivered,
    Responded,
    Omitted,
    /// handler reported, or connection closed, or worker already dead
    Finished,
}
struct InReq {
    id: rr::InboundRequestId,
    conn: usize,
    stage: InStage,
    delivered: bool,
    channel: Option<rr::ResponseChannel<u8>>,
    receiver: Option<oneshot::Receiver<u8>>,
    outcomes: u32,
}

#[derive(Default, Clone)]
pub struct Counters {
    pub outcomes: BTreeMap<String, u64>,
}
thread_local! {
    pub static CNT: RefCell<Counters> = RefCell::new(Counters::default());
}
fn note(k: &str) {
    CNT.with(|c| *c.borrow_mut().outcomes.entry(k.to_string()).or_insert(0) += 1);
}

pub struct Sys {
    beh: Beh,
    /// 0 never used, 1 open, 2 closed
    conn: [u8; 2],
    dials: u32,
    dial_seq: usize,
    outs: Vec<OutReq>,
    ins: Vec<InReq>,
    history: Vec<Act>,
    unknown: Option<String>,
    draining: bool,
}

fn conn_id(c: usize) -> ConnectionId {
    ConnectionId::new_unchecked(c + 1)
}
const MAX_SEND: usize = 3;
const MAX_IN: usize = 2;

impl Sys {
    pub fn new() -> Self {
        let beh = Beh::with_codec(ProbeCodec, [(StreamProtocol::new("/verif/rr/1"), rr::ProtocolSupport::Full)], rr::Config::default());
        Sys { beh, conn: [0; 2], dials: 0, dial_seq: 0, outs: Vec::new(), ins: Vec::new(), history: Vec::new(), unknown: None, draining: false }
    }
    fn p() -> libp2p_identity::PeerId {
        peer(1)
    }
    fn connected(&self) -> bool {
        self.conn.iter().any(|c| *c == 1)
    }

    fn drain(&mut self) -> Result<(), String> {
        let w = futures::task::noop_waker();
        let mut cx = Context::from_waker(&w);
        for _ in 0..256 {
            let ev = match self.beh.poll(&mut cx) {
                Poll::Pending => return Ok(()),
                Poll::Ready(e) => e,
            };
            match ev {
                ToSwarm::Dial { opts } => {
                    if opts.get_peer_id() != Some(Self::p()) {
                        return Err(format!("dial-for-wrong-peer :: {:?}", opts.get_peer_id()));
                    }
                    if self.connected() || self.dials > 0 {
                        // what Swarm::dial does for DisconnectedAndNotDialing
                        let cond = if self.connected() { PeerCondition::DisconnectedAndNotDialing } else { PeerCondition::NotDialing };
                        let err = DialError::DialPeerConditionFalse(cond);
                        self.beh.on_swarm_event(FromSwarm::DialFailure(DialFailure { peer_id: Some(Self::p()), error: &err, connection_id: opts.connection_id() }));
                        note("dial_refused_condition_false");
                    } else {
                        self.dials += 1;
                    }
                }
                ToSwarm::NotifyHandler { peer_id, handler, event } => {
                    let id = rr::verif_proto_a::outbound_message_id(&event);
                    let NotifyHandler::One(cid) = handler else { return Err("notify-any :: NotifyHandler::Any used".into()) };
                    let Some(c) = (0..2).find(|c| conn_id(*c) == cid) else { return Err(format!("request-sent-to-unknown-connection :: {cid:?}")) };
                    if peer_id != Self::p() {
                        return Err("notify-wrong-peer :: ".into());
                    }
                    let Some(r) = self.outs.iter_mut().find(|r| r.id == id) else { return Err(format!("unknown-request-id-sent-to-handler :: {id:?}")) };
                    if self.conn[c] == 1 {
                        r.loc = OutLoc::OnConn(c);
                    } else {
                        // the swarm drops notifications for closed connections: the request is
                        // lost unless the behaviour fails it itself; the drain suffix will tell
                        note("request_sent_to_closed_connection");
                        r.loc = OutLoc::Finished;
                    }
                }
                ToSwarm::GenerateEvent(e) => self.record(e)?,
                other => return Err(format!("harness-unexpected-output :: {other:?}")),
            }
        }
        Err("harness-drain-overflow :: more than 256 outputs".into())
    }

    fn record(&mut self, e: rr::Event<u8, u8>) -> Result<(), String> {
        match e {
            rr::Event::Message { message: rr::Message::Response { request_id, .. }, .. } => self.out_outcome(request_id, "Response"),
            rr::Event::OutboundFailure { request_id, error, .. } => {
                let k = match error {
                    rr::OutboundFailure::DialFailure => "OutboundFailure::DialFailure",
                    rr::OutboundFailure::Timeout => "OutboundFailure::Timeout",
                    rr::OutboundFailure::ConnectionClosed => "OutboundFailure::ConnectionClosed",
                    rr::OutboundFailure::UnsupportedProtocols => "OutboundFailure::UnsupportedProtocols",
                    rr::OutboundFailure::Io(_) => "OutboundFailure::Io",
                };
                self.out_outcome(request_id, k)
            }
            rr::Event::Message { message: rr::Message::Request { request_id, channel, .. }, .. } => {
                let Some(r) = self.ins.iter_mut().find(|r| r.id == request_id) else { return Err(format!("unknown-inbound-id-delivered :: {request_id:?}")) };
                if r.delivered {
                    return Err(format!("inbound-request-delivered-twice :: {request_id:?}"));
                }
                r.delivered = true;
                r.channel = Some(channel);
                if !self.draining {
                    note("Message::Request");
                }
                Ok(())
            }
            rr::Event::ResponseSent { request_id, .. } => self.in_outcome(request_id, "ResponseSent"),
            rr::Event::InboundFailure { request_id, error, .. } => {
                let k = match error {
                    rr::InboundFailure::Timeout => "InboundFailure::Timeout",
                    rr::InboundFailure::ConnectionClosed => "InboundFailure::ConnectionClosed",
                    rr::InboundFailure::UnsupportedProtocols => "InboundFailure::UnsupportedProtocols",
                    rr::InboundFailure::ResponseOmission => "InboundFailure::ResponseOmission",
                    rr::InboundFailure::Io(_) => "InboundFailure::Io",
                };
                self.in_outcome(request_id, k)
            }
        }
    }
    fn out_outcome(&mut self, id: rr::OutboundRequestId, kind: &str) -> Result<(), String> {
        if !self.draining {
            note(kind);
        }
        let Some(r) = self.outs.iter_mut().find(|r| r.id == id) else { return Err(format!("outcome-for-unknown-outbound-id {kind} :: {id:?}")) };
        r.outcomes += 1;
        if r.outcomes > 1 {
            return Err(format!("second-outcome-for-outbound-request {kind} :: request {id:?} got a second outcome ({kind})"));
        }
        Ok(())
    }
    fn in_outcome(&mut self, id: rr::InboundRequestId, kind: &str) -> Result<(), String> {
        if !self.draining {
            note(kind);
        }
        let Some(r) = self.ins.iter_mut().find(|r| r.id == id) else { return Err(format!("outcome-for-unknown-inbound-id {kind} :: {id:?}")) };
        if !r.delivered {
            return Err(format!("outcome-for-undelivered-inbound-request {kind} :: {id:?}"));
        }
        r.outcomes += 1;
        if r.outcomes > 1 {
            return Err(format!("second-outcome-for-inbound-request {kind} :: request {id:?} got a second outcome ({kind})"));
        }
        Ok(())
    }

    fn feed(&mut self, c: usize, ev: HEv) {
        self.beh.on_connection_handler_event(Self::p(), conn_id(c), ev);
    }

    fn endpoint(c: usize, outbound: bool) -> ConnectedPoint {
        if outbound {
            ConnectedPoint::Dialer { address: addr(&format!("/ip4/10.0.0.1/tcp/{}", 4000 + c)), role_override: Endpoint::Dialer, port_use: PortUse::Reuse }
        } else {
            ConnectedPoint::Listener { local_addr: addr("/ip4/10.0.0.100/tcp/4001"), send_back_addr: addr(&format!("/ip4/10.0.0.1/tcp/{}", 5000 + c)) }
        }
    }

    fn close(&mut self, c: usize) {
        let remaining = (0..2).filter(|o| *o != c && self.conn[*o] == 1).count();
        self.conn[c] = 2;
        for r in self.outs.iter_mut() {
            if r.loc == OutLoc::OnConn(c) {
                r.loc = OutLoc::Finished;
            }
        }
        for r in self.ins.iter_mut() {
            if r.conn == c {
                r.stage = InStage::Finished;
                r.receiver = None;
            }
        }
        // endpoint direction is irrelevant to the behaviour on close
        let ep = Self::endpoint(c, false);
        self.beh.on_swarm_event(FromSwarm::ConnectionClosed(ConnectionClosed { peer_id: Self::p(), connection_id: conn_id(c), endpoint: &ep, cause: None, remaining_established: remaining }));
    }

    fn dial_fail(&mut self, kind: u8) {
        self.dials -= 1;
        for r in self.outs.iter_mut() {
            if r.loc == OutLoc::Queued {
                r.loc = OutLoc::DialFailed;
            }
        }
        self.dial_seq += 1;
        let a = addr("/ip4/10.0.0.1/tcp/4000");
        // every way a Swarm ends a pending dial to a known peer (DialPeerConditionFalse is
        // produced by the dial-condition model in `drain`)
        let err = match kind {
            0 => DialError::Transport(Vec::new()),
            1 => DialError::Aborted,
            2 => DialError::WrongPeerId { obtained: peer(2), address: a },
            3 => DialError::Denied { cause: libp2p_swarm::ConnectionDenied::new(io::Error::other("denied")) },
            4 => DialError::NoAddresses,
            _ => DialError::LocalPeerId { address: a },
        };
        if !self.draining {
            note(&format!("dial_failure_kind_{kind}"));
        }
        self.beh.on_swarm_event(FromSwarm::DialFailure(DialFailure { peer_id: Some(Self::p()), error: &err, connection_id: ConnectionId::new_unchecked(100 + self.dial_seq) }));
    }

    pub fn apply(&mut self, a: &Act) -> Result<(), String> {
        self.history.push(a.clone());
        match *a {
            Act::Send => {
                let id = self.beh.send_request(&Self::p(), self.outs.len() as u8);
                if self.outs.iter().any(|r| r.id == id) {
                    return Err(format!("duplicate-outbound-request-id :: {id:?} returned twice"));
                }
                self.outs.push(OutReq { id, loc: OutLoc::Queued, outcomes: 0 });
            }
            Act::DialFail(kind) => {
                if self.dials == 0 || kind > 5 {
                    return Err("harness-disabled-action :: DialFail".into());
                }
                self.dial_fail(kind);
            }
            Act::Establish(c, outbound) => {
                if self.conn[c] != 0 || (outbound && self.dials == 0) {
                    return Err("harness-disabled-action :: Establish".into());
                }
                if outbound {
                    self.dials -= 1;
                }
                let ep = Self::endpoint(c, outbound);
                let queued: Vec<usize> = (0..self.outs.len()).filter(|i| self.outs[*i].loc == OutLoc::Queued).collect();
                let mut handler = match &ep {
                    ConnectedPoint::Dialer { address, role_override, port_use } => self.beh.handle_established_outbound_connection(conn_id(c), Self::p(), address, *role_override, *port_use),
                    ConnectedPoint::Listener { local_addr, send_back_addr } => self.beh.handle_established_inbound_connection(conn_id(c), Self::p(), local_addr, send_back_addr),
                }
                .map_err(|e| format!("connection-denied :: {e}"))?;
                // how many requests did the behaviour pre-load into the real handler?
                let w = futures::task::noop_waker();
                let mut cx = Context::from_waker(&w);
                let mut preloaded = 0;
                for _ in 0..16 {
                    match handler.poll(&mut cx) {
                        Poll::Ready(ConnectionHandlerEvent::OutboundSubstreamRequest { .. }) => preloaded += 1,
                        Poll::Ready(_) => return Err("handler-unexpected-event :: fresh handler reported something else than substream requests".into()),
                        Poll::Pending => break,
                    }
                }
                drop(handler);
                let other = (0..2).filter(|o| *o != c && self.conn[*o] == 1).count();
                self.conn[c] = 1;
                self.beh.on_swarm_event(FromSwarm::ConnectionEstablished(ConnectionEstablished { peer_id: Self::p(), connection_id: conn_id(c), endpoint: &ep, failed_addresses: &[], other_established: other }));
                // Which requests are in the real handler now? The handler does not tell ids, so:
                // every request the behaviour still reports as pending that the model has in the
                // queue (or saw in the queue when a dial failed) is a candidate, and the number
                // of substream requests of the fresh handler must equal the number of candidates.
                let cands: Vec<usize> = (0..self.outs.len()).filter(|i| matches!(self.outs[*i].loc, OutLoc::Queued | OutLoc::DialFailed) && self.beh.is_pending_outbound(&Self::p(), &self.outs[*i].id)).collect();
                if preloaded != cands.len() {
                    return Err(format!("preload-mismatch :: fresh handler asks for {preloaded} substreams, behaviour reports {} queued requests as pending (model queue {queued:?})", cands.len()));
                }
                for i in cands {
                    self.outs[i].loc = OutLoc::OnConn(c);
                }
            }
            Act::Close(c) => {
                if self.conn[c] != 1 {
                    return Err("harness-disabled-action :: Close".into());
                }
                self.close(c);
            }
            Act::OutResult(i, kind) => {
                let Some(OutLoc::OnConn(c)) = self.outs.get(i).map(|r| r.loc) else { return Err("harness-disabled-action :: OutResult".into()) };
                let id = self.outs[i].id;
                self.outs[i].loc = OutLoc::Finished;
                let ev = match kind {
                    0 => HEv::Response { request_id: id, response: 7 },
                    1 => HEv::OutboundTimeout(id),
                    2 => HEv::OutboundUnsupportedProtocols(id),
                    _ => HEv::OutboundStreamFailed { request_id: id, error: io::ErrorKind::UnexpectedEof.into() },
                };
                self.feed(c, ev);
            }
            Act::Inbound(c) | Act::InboundLate(c) => {
                if self.conn[c] != 1 || self.ins.len() >= MAX_IN {
                    return Err("harness-disabled-action :: Inbound".into());
                }
                let late = matches!(a, Act::InboundLate(_));
                let id = rr::verif_proto_a::inbound_request_id(self.ins.len() as u64 + 1);
                let (tx, rx) = oneshot::channel();
                if late {
                    // the worker future timed out (and was dropped, with the receiver) while the
                    // request was still in the handler's channel; the report follows
                    self.feed(c, HEv::InboundTimeout(id));
                    self.drain()?;
                    drop(rx);
                    self.ins.push(InReq { id, conn: c, stage: InStage::Finished, delivered: false, channel: None, receiver: None, outcomes: 0 });
                } else {
                    self.ins.push(InReq { id, conn: c, stage: InStage::Delivered, delivered: false, channel: None, receiver: Some(rx), outcomes: 0 });
                }
                self.feed(c, HEv::Request { request_id: id, request: 1, sender: tx });
            }
            Act::AppRespond(j) => {
                let Some(ch) = self.ins.get_mut(j).and_then(|r| r.channel.take()) else { return Err("harness-disabled-action :: AppRespond".into()) };
                let alive = self.ins[j].receiver.is_some();
                let r = self.beh.send_response(ch, 9);
                if r.is_ok() != alive {
                    return Err(format!("send-response-result :: send_response returned {r:?} while the handler side of the channel is {}", if alive { "alive" } else { "gone" }));
                }
                if self.ins[j].stage == InStage::Delivered {
                    self.ins[j].stage = InStage::Responded;
                }
            }
            Act::AppDrop(j) => {
                let Some(ch) = self.ins.get_mut(j).and_then(|r| r.channel.take()) else { return Err("harness-disabled-action :: AppDrop".into()) };
                drop(ch);
                if self.ins[j].stage == InStage::Delivered {
                    self.ins[j].stage = InStage::Omitted;
                }
            }
            Act::InResult(j, kind) => {
                let Some(stage) = self.ins.get(j).map(|r| r.stage) else { return Err("harness-disabled-action :: InResult".into()) };
                if stage == InStage::Finished || (stage == InStage::Delivered && kind != 1) {
                    return Err("harness-disabled-action :: InResult in this stage".into());
                }
                let (id, c) = (self.ins[j].id, self.ins[j].conn);
                self.ins[j].stage = InStage::Finished;
                self.ins[j].receiver = None;
                let ev = match (kind, stage) {
                    (0, InStage::Responded) => HEv::ResponseSent(id),
                    (0, _) => HEv::ResponseOmission(id),
                    (1, _) => HEv::InboundTimeout(id),
                    _ => HEv::InboundStreamFailed { request_id: id, error: io::ErrorKind::BrokenPipe.into() },
                };
                self.feed(c, ev);
            }
        }
        self.drain()?;
        if let Some(u) = self.unknown.take() {
            return Err(u);
        }
        // getters must agree with the model where the statement's bookkeeping is visible
        if self.beh.is_connected(&Self::p()) != self.connected() {
            return Err(format!("is-connected-mismatch :: behaviour says {}, model {}", self.beh.is_connected(&Self::p()), self.connected()));
        }
        Ok(())
    }

    /// the drain suffix; afterwards every request must have exactly one outcome
    fn drain_suffix(&mut self) -> Result<(), String> {
        self.draining = true;
        while self.dials > 0 {
            self.dial_fail(0);
            self.drain()?;
        }
        for c in 0..2 {
            if self.conn[c] == 1 {
                self.close(c);
                self.drain()?;
            }
        }
        while self.dials > 0 {
            self.dial_fail(0);
            self.drain()?;
        }
        for r in &self.outs {
            if r.outcomes != 1 {
                return Err(format!("outbound-request-without-outcome :: request {:?} has {} outcomes after every dial failed and every connection closed", r.id, r.outcomes));
            }
        }
        for r in &self.ins {
            if r.delivered && r.outcomes != 1 {
                return Err(format!("inbound-request-without-outcome :: delivered request {:?} has {} outcomes after every connection closed", r.id, r.outcomes));
            }
        }
        Ok(())
    }
}

impl System for Sys {
    type Action = Act;
    fn actions(&self) -> Vec<Act> {
        let mut v = Vec::new();
        if self.outs.len() < MAX_SEND {
            v.push(Act::Send);
        }
        if self.dials > 0 {
            for k in 0..6 {
                v.push(Act::DialFail(k));
            }
        }
        for c in 0..2 {
            if self.conn[c] == 0 {
                v.push(Act::Establish(c, false));
                if self.dials > 0 {
                    v.push(Act::Establish(c, true));
                }
            }
            if self.conn[c] == 1 {
                v.push(Act::Close(c));
                if self.ins.len() < MAX_IN {
                    v.push(Act::Inbound(c));
                    v.push(Act::InboundLate(c));
                }
            }
        }
        for (i, r) in self.outs.iter().enumerate() {
            if matches!(r.loc, OutLoc::OnConn(_)) {
                for k in 0..4 {
                    v.push(Act::OutResult(i, k));
                }
            }
        }
        for (j, r) in self.ins.iter().enumerate() {
            if r.channel.is_some() {
                v.push(Act::AppRespond(j));
                v.push(Act::AppDrop(j));
            }
            match r.stage {
                InStage::Delivered => v.push(Act::InResult(j, 1)),
                InStage::Responded | InStage::Omitted => {
                    for k in 0..3 {
                        v.push(Act::InResult(j, k));
                    }
                }
                InStage::Finished => {}
            }
        }
        v
    }
    fn step(&mut self, a: &Act) -> Result<(), String> {
        self.apply(a)
    }
    fn invariant(&self) -> Result<(), String> {
        // completeness: re-execute the history on a fresh behaviour and append the drain suffix
        let mut s = Sys::new();
        s.draining = true; // counters are not incremented by this shadow execution
        for a in &self.history {
            s.apply(a).map_err(|m| format!("NONDETERMINISM shadow execution diverged :: {m}"))?;
        }
        s.drain_suffix()
    }
    fn canon(&self) -> Vec<u8> {
        let mut s = format!("{:?}|{}|", self.conn, self.dials);
        for r in &self.outs {
            s.push_str(&format!("o{:?}{:?}{}p{};", r.id, r.loc, r.outcomes, self.beh.is_pending_outbound(&Self::p(), &r.id) as u8));
        }
        for r in &self.ins {
            s.push_str(&format!("i{:?}c{}{:?}d{}h{}r{}o{}p{};", r.id, r.conn, r.stage, r.delivered as u8, r.channel.is_some() as u8, r.receiver.is_some() as u8, r.outcomes, self.beh.is_pending_inbound(&Self::p(), &r.id) as u8));
        }
        s.into_bytes()
    }
    fn nontrivial(&self) -> bool {
        !self.outs.is_empty() || !self.ins.is_empty()
    }
}

pub fn run(ctx: &Ctx) -> Outcome {
    let mut out = Outcome::default();
    let cfg = json!({"peer": "P1", "connections": 2, "max_send": MAX_SEND, "max_inbound": MAX_IN});
    if let Some(case) = &ctx.replay {
        out.evaluations = 1;
        if let Err(m) = bfs::replay_history(Sys::new(), case) {
            out.violation(bfs::signature_of(&m), m, case.clone());
        }
        return out;
    }
    let depth = ctx.tier.pick(8, 12);
    let (st, v) = bfs::bfs_replay(Sys::new, depth, ctx.tier.pick(300_000, 3_000_000));
    bfs::record(&mut out, &cfg, &st, &v);
    let ddepth = ctx.tier.pick(4, 5);
    let (n, capped, v2) = bfs::dfs_all(Sys::new, ddepth, 3_000_000);
    out.count("dfs_companion_sequences", n);
    out.evaluations += n;
    out.traces += n;
    if capped {
        out.caps.push(format!("dfs companion capped at {n} sequences"));
    }
    bfs::record(&mut out, &cfg, &Default::default(), &v2);
    let c = CNT.with(|c| c.borrow().clone());
    for (k, n) in &c.outcomes {
        out.count(&format!("seen {k}"), *n);
    }
    for k in ["Response", "OutboundFailure::DialFailure", "OutboundFailure::Timeout", "OutboundFailure::ConnectionClosed", "OutboundFailure::UnsupportedProtocols", "OutboundFailure::Io", "Message::Request", "ResponseSent", "InboundFailure::Timeout", "InboundFailure::ConnectionClosed", "InboundFailure::ResponseOmission", "InboundFailure::Io", "dial_refused_condition_false", "dial_failure_kind_0", "dial_failure_kind_1", "dial_failure_kind_2", "dial_failure_kind_3", "dial_failure_kind_4", "dial_failure_kind_5"] {
        if out.get(&format!("seen {k}")) == 0 {
            out.machinery(format!("vacuity: outcome kind {k} never observed"));
        }
    }
    out.notes.push(format!("bfs depth {depth}, dfs companion depth {ddepth}; every state is additionally re-executed with the drain suffix; 'seen' counters are summed over all (re-)executions of histories except the drain suffixes"));
    out
}
