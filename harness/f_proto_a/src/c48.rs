//! C48 — relay rate limiters are token buckets (E3: complete enumeration of timestamped request
//! sequences through the boxed limiters that `relay::Config`'s public builders create).
//!
//! Subject: `Config::{reservation_rate_per_peer, reservation_rate_per_ip, circuit_src_per_peer,
//! circuit_src_per_ip}` push a `Box<dyn RateLimiter>` into the public `Vec` fields; the trait is
//! re-exported (`libp2p_relay::RateLimiter`), so `try_next(peer, addr, now)` is called on the
//! production object with an explicit `now` (no hook).
//!
//! Oracle (exactly the three clauses of the statement):
//!  (a) for every identity (peer id for per-peer, IP for per-IP limiters) and every pair of
//!      accepted requests i <= j of that identity: #accepted in [t_i, t_j] <= limit +
//!      floor((t_j - t_i) / interval);
//!  (b) a request of an identity whose previous request (accepted or not) lies >= limit *
//!      interval back — or that never asked before — is accepted. ("idle" is read as "made no
//!      request at all", the weakest premise-side reading.)
//!  (c) per-IP limiter: the verdict vector is unchanged when every peer id is replaced by a
//!      fresh one.

use kit::ids::{addr, peer};
use libp2p_relay::{Config, RateLimiter};
use mc::{enumerate, json, Ctx, Meta, Outcome, Value};
use multiaddr::Multiaddr;
use std::num::NonZeroU32;
use std::time::{Duration, Instant};

pub const META: Meta = Meta {
    level: "exploration",
    rule: "every sequence of length L (6 quick / 7 thorough for the reservation limiters, thorough additionally length 8 over the two identities with distinct keys; L-2 for the circuit_src builders, which share the constructors) over steps (identity in {(P1,ip1),(P2,ip1),(P1,ip2)}) x (dt in {0, 1/2, 1, 3/2, limit} s since the previous step), for limit in {1,2,3}, interval 1 s, limiter kind in {per-peer, per-IP}; each sequence runs on a fresh boxed limiter taken from relay::Config's public field. Non-trivial = sequences with at least one refused request (distinct by config and sequence; the stored set is sampled, the full count is the counter nontrivial_sequences).",
    explanation: "Complete enumeration (E3), striped over 16 worker processes; oracle = the three clauses of the statement evaluated on the verdict vector (all windows of accepted requests; idle >= limit*interval implies accept; per-IP verdicts invariant under renaming peer ids).",
    assumptions: &["interval fixed to 1 s, time resolution 1/2 s (refill arithmetic is in whole intervals with the remainder dropped, which the 1/2 s steps exercise)", "three identities, limits <= 3"],
};

/// time unit = half a second
const UNIT_MS: u64 = 500;
const INTERVAL_UNITS: u64 = 2;

#[derive(Clone, Copy, Debug, PartialEq, Eq)]
enum Kind {
    ResPeer,
    ResIp,
    CircPeer,
    CircIp,
}
impl Kind {
    fn from(i: u64) -> Kind {
        [Kind::ResPeer, Kind::ResIp, Kind::CircPeer, Kind::CircIp][i as usize]
    }
    fn per_ip(self) -> bool {
        matches!(self, Kind::ResIp | Kind::CircIp)
    }
}

fn make(kind: Kind, limit: u32) -> Box<dyn RateLimiter> {
    // start from a Config without limiters, then use the public builder under test
    let c = Config {
        max_reservations: 1,
        max_reservations_per_peer: 1,
        reservation_duration: Duration::from_secs(1),
        reservation_rate_limiters: Vec::new(),
        max_circuits: 1,
        max_circuits_per_peer: 1,
        max_circuit_duration: Duration::from_secs(1),
        max_circuit_bytes: 0,
        circuit_src_rate_limiters: Vec::new(),
    };
    let l = NonZeroU32::new(limit).unwrap();
    let iv = Duration::from_secs(1);
    let mut c = match kind {
        Kind::ResPeer => c.reservation_rate_per_peer(l, iv),
        Kind::ResIp => c.reservation_rate_per_ip(l, iv),
        Kind::CircPeer => c.circuit_src_per_peer(l, iv),
        Kind::CircIp => c.circuit_src_per_ip(l, iv),
    };
    let v = match kind {
        Kind::ResPeer | Kind::ResIp => &mut c.reservation_rate_limiters,
        _ => &mut c.circuit_src_rate_limiters,
    };
    assert_eq!(v.len(), 1);
    v.pop().unwrap()
}

struct World {
    peers: [libp2p_identity::PeerId; 3],
    addrs: [Multiaddr; 2],
    base: Instant,
}
impl World {
    fn new() -> Self {
        World { peers: [peer(1), peer(2), peer(9)], addrs: [addr("/ip4/10.0.0.1/tcp/4001"), addr("/ip4/10.0.0.2/udp/4001/quic-v1")], base: Instant::now() }
    }
}

/// identity index -> (peer index, ip index)
const IDENT: [(usize, usize); 3] = [(0, 0), (1, 0), (0, 1)];

fn dts(limit: u32) -> [u64; 5] {
    [0, 1, 2, 3, limit as u64 * INTERVAL_UNITS]
}

/// run one sequence on a fresh limiter; `rename` replaces every peer id by a third one
fn verdicts(w: &World, kind: Kind, limit: u32, steps: &[usize], rename: bool, times: &mut Vec<u64>) -> Vec<bool> {
    let mut lim = make(kind, limit);
    let d = dts(limit);
    let mut t = 0u64;
    times.clear();
    let mut out = Vec::with_capacity(steps.len());
    for &s in steps {
        let (id, dt) = (s / 5, s % 5);
        t += d[dt];
        times.push(t);
        let (p, a) = IDENT[id];
        let pid = if rename { w.peers[2] } else { w.peers[p] };
        out.push(lim.try_next(pid, &w.addrs[a], w.base + Duration::from_millis(t * UNIT_MS)));
    }
    out
}

/// the oracle; returns Err("signature :: details")
fn judge(kind: Kind, limit: u32, steps: &[usize], times: &[u64], v: &[bool], renamed: Option<&[bool]>) -> Result<(), String> {
    let key = |s: usize| -> usize {
        let (p, a) = IDENT[s / 5];
        if kind.per_ip() { a } else { p }
    };
    for k in 0..2usize {
        // (a) windows of accepted requests of identity k
        let acc: Vec<u64> = (0..steps.len()).filter(|&i| key(steps[i]) == k && v[i]).map(|i| times[i]).collect();
        for i in 0..acc.len() {
            for j in i..acc.len() {
                let n = (j - i + 1) as u64;
                let allowed = limit as u64 + (acc[j] - acc[i]) / INTERVAL_UNITS;
                if n > allowed {
                    return Err(format!("window-exceeded {kind:?} limit={limit} :: identity {k}: {n} requests accepted within {} half-seconds (allowed {allowed}); accepted at {acc:?}", acc[j] - acc[i]));
                }
            }
        }
        // (b) idle >= limit*interval (or first request ever) => accepted
        let mut last: Option<u64> = None;
        for i in 0..steps.len() {
            if key(steps[i]) != k {
                continue;
            }
            let idle_enough = match last {
                None => true,
                Some(l) => times[i] - l >= limit as u64 * INTERVAL_UNITS,
            };
            if idle_enough && !v[i] {
                return Err(format!("idle-identity-refused {kind:?} limit={limit} :: identity {k} refused at step {i} (t={}) although its previous request was at {last:?}", times[i]));
            }
            last = Some(times[i]);
        }
    }
    if let Some(r) = renamed {
        if r != v {
            return Err(format!("per-ip-depends-on-peer {kind:?} limit={limit} :: verdicts {v:?} with the real peer ids, {r:?} with every peer id replaced"));
        }
    }
    Ok(())
}

fn run_case(w: &World, kind: Kind, limit: u32, steps: &[usize]) -> (Vec<bool>, Result<(), String>) {
    let mut times = Vec::new();
    let v = verdicts(w, kind, limit, steps, false, &mut times);
    let renamed = if kind.per_ip() {
        let mut t2 = Vec::new();
        Some(verdicts(w, kind, limit, steps, true, &mut t2))
    } else {
        None
    };
    let r = judge(kind, limit, steps, &times, &v, renamed.as_deref());
    (v, r)
}

fn case_json(kind: u64, limit: u32, steps: &[usize]) -> Value {
    json!({"kind": kind, "limit": limit, "steps": steps})
}

pub fn run(ctx: &Ctx) -> Outcome {
    if let Some(case) = &ctx.replay {
        let mut out = Outcome::default();
        out.evaluations = 1;
        let w = World::new();
        let kind = Kind::from(case["kind"].as_u64().unwrap_or(0));
        let limit = case["limit"].as_u64().unwrap_or(1) as u32;
        let steps: Vec<usize> = serde_json::from_value(case["steps"].clone()).unwrap_or_default();
        match mc::catch(|| run_case(&w, kind, limit, &steps)) {
            Ok((_, Ok(()))) => {}
            Ok((_, Err(m))) => out.violation(mc::bfs::signature_of(&m), m, case.clone()),
            Err(p) => out.violation(format!("panic {kind:?} limit={limit}"), format!("panic :: {p}"), case.clone()),
        }
        return out;
    }
    let len = ctx.tier.pick(6usize, 7usize);
    // plans: (kind, sequence length, identities used). The circuit_src builders share the
    // constructors of the reservation builders and get sequences two steps shorter. Thorough adds
    // length 8 over the two identities with distinct keys (all five dt values).
    let mut plans: Vec<(u64, usize, Vec<usize>)> = Vec::new();
    for kind_i in 0..4u64 {
        plans.push((kind_i, if kind_i < 2 { len } else { len - 2 }, vec![0, 1, 2]));
    }
    if !ctx.quick() {
        plans.push((0, 8, vec![0, 1]));
        plans.push((1, 8, vec![0, 2]));
    }
    let plans = &plans;
    mc::workers(ctx, 16, |ctx| {
        let mut out = Outcome::default();
        let w = World::new();
        let mut stored = 0u64;
        for (kind_i, l, idents) in plans.iter() {
            let (kind_i, l) = (*kind_i, *l);
            let kind = Kind::from(kind_i);
            let n_alpha = idents.len() * 5;
            for limit in 1..=3u32 {
                let mut idx = 0u64;
                let mut refused_any = 0u64;
                let mut accepted_after_refusal = 0u64;
                // the first step's dt is irrelevant (nothing precedes it): fix it to 0 and stripe
                // the remaining L-1 positions
                enumerate::sequences(n_alpha, l - 1, |rest| {
                    idx += 1;
                    if !ctx.mine(idx) {
                        return;
                    }
                    for first in idents.iter() {
                        let mut steps = Vec::with_capacity(l);
                        steps.push(first * 5);
                        steps.extend(rest.iter().map(|r| idents[r / 5] * 5 + r % 5));
                        let r = mc::catch(|| run_case(&w, kind, limit, &steps));
                        out.evaluations += 1;
                        match r {
                            Ok((v, res)) => {
                                if v.iter().any(|b| !b) {
                                    refused_any += 1;
                                    if stored < 20_000 && (idx % 101 == 0 || refused_any < 50) {
                                        stored += 1;
                                        out.nontrivial(&format!("{kind_i}/{limit}/{steps:?}"));
                                    }
                                    if let Some(p) = v.iter().position(|b| !b) {
                                        if v[p..].iter().any(|b| *b) {
                                            accepted_after_refusal += 1;
                                        }
                                    }
                                    if out.samples.len() < 2 && idx % 977 == 5 {
                                        out.sample(json!({"case": case_json(kind_i, limit, &steps), "verdicts": v}));
                                    }
                                }
                                if let Err(m) = res {
                                    out.violation(mc::bfs::signature_of(&m), m, case_json(kind_i, limit, &steps));
                                }
                            }
                            Err(p) => out.violation(format!("panic {kind:?} limit={limit}"), format!("panic :: {p} at {:?}", mc::shim::last_panic_loc()), case_json(kind_i, limit, &steps)),
                        }
                    }
                });
                out.count("nontrivial_sequences", refused_any);
                out.count("sequences_with_accept_after_refusal", accepted_after_refusal);
                out.count(&format!("refusing_sequences_kind{kind_i}_limit{limit}"), refused_any);
            }
        }
        out
    })
    .also(|out| {
        // vacuity guards: every (kind, limit) must have produced refusals and refills
        for k in 0..4 {
            for l in 1..=3 {
                if out.get(&format!("refusing_sequences_kind{k}_limit{l}")) == 0 {
                    out.machinery(format!("vacuity: no sequence was ever refused for kind {k} limit {l}"));
                }
            }
        }
        if out.get("sequences_with_accept_after_refusal") == 0 {
            out.machinery("vacuity: no sequence saw an accept after a refusal (refill never observed)");
        }
        out.notes.push(format!("plans (kind, length, identities): {plans:?}"));
    })
}

trait Also: Sized {
    fn also(self, f: impl FnOnce(&mut Self)) -> Self;
}
impl Also for Outcome {
    fn also(mut self, f: impl FnOnce(&mut Self)) -> Self {
        f(&mut self);
        self
    }
}
