//! Calibration of the C47 handler model against the production relay `Handler`:
//! can the handler report `ReservationTimedOut` while an accept (renewal) is in flight?
//!
//! A real `Handler` (obtained through `Behaviour::handle_established_inbound_connection`) is
//! driven through `ConnectionHandler`: RESERVE on an inbound stream -> `ReservationReqReceived`
//! -> `AcceptReservationReq` -> `ReservationReqAccepted` (the reservation timer starts; under
//! cfg(libp2p_verif) it runs on the virtual clock) -> second RESERVE ->
//! `ReservationReqReceived{renewed: true}` -> `AcceptReservationReq`; then the virtual clock
//! passes the reservation duration *before* the handler is polled again. The first event of
//! that poll answers the question.

use crate::streams::stream_pair;
use either::Either;
use futures::AsyncWriteExt;
use kit::ids::{addr, peer};
use kit::pb::W;
use kit::tasks::run_ready;
use libp2p_relay as relay;
use libp2p_swarm::handler::{ConnectionEvent, FullyNegotiatedInbound};
use libp2p_swarm::{ConnectionHandler, ConnectionHandlerEvent, ConnectionId, NetworkBehaviour, Stream};
use relay::verif_proto_a::{HandlerEvent as HEv, HandlerIn as HIn};
use std::task::{Context, Poll};
use std::time::Duration;

fn reserve_stream() -> (Stream, Stream) {
    let (mut client, server) = stream_pair();
    let frame = W::new().uint(1, 0).framed();
    run_ready(async { client.write_all(&frame).await.and(client.flush().await) }, 16).expect("write completes").expect("write ok");
    (client, server)
}

/// Ok(true): the production handler reports the time-out of the old reservation while the
/// accept of its renewal is still in flight (and then `ReservationReqAccepted{renewed:false}`).
pub fn timeout_reported_while_accept_in_flight() -> Result<bool, String> {
    mc::vclock::reset();
    libp2p_swarm::verif_delay::reset_registry();
    let dur = Duration::from_secs(3600);
    let cfg = relay::Config {
        max_reservations: 8,
        max_reservations_per_peer: 8,
        reservation_duration: dur,
        reservation_rate_limiters: Vec::new(),
        max_circuits: 8,
        max_circuits_per_peer: 8,
        max_circuit_duration: Duration::from_secs(120),
        max_circuit_bytes: 1 << 17,
        circuit_src_rate_limiters: Vec::new(),
    };
    let mut beh = relay::Behaviour::new(peer(0), cfg);
    let h = beh.handle_established_inbound_connection(ConnectionId::new_unchecked(1), peer(1), &addr("/ip4/10.0.0.100/tcp/4001"), &addr("/ip4/10.0.0.1/tcp/5000")).map_err(|e| format!("denied: {e}"))?;
    let Either::Left(mut h) = h else { return Err("dummy handler".into()) };
    let w = futures::task::noop_waker();
    let mut cx = Context::from_waker(&w);
    let mut next = |h: &mut _| -> Option<HEv> {
        for _ in 0..16 {
            match ConnectionHandler::poll(h, &mut cx) {
                Poll::Ready(ConnectionHandlerEvent::NotifyBehaviour(e)) => return Some(e),
                Poll::Ready(_) => {}
                Poll::Pending => return None,
            }
        }
        None
    };
    let mut keep = Vec::new();
    // first reservation
    let (c1, s1) = reserve_stream();
    keep.push(c1);
    h.on_connection_event(ConnectionEvent::FullyNegotiatedInbound(FullyNegotiatedInbound { protocol: futures::future::Either::Left(s1), info: () }));
    let Some(HEv::ReservationReqReceived { inbound_reservation_req, renewed: false, .. }) = next(&mut h) else { return Err("no ReservationReqReceived{renewed:false}".into()) };
    h.on_behaviour_event(HIn::AcceptReservationReq { inbound_reservation_req, addrs: Vec::new() });
    let Some(HEv::ReservationReqAccepted { renewed: false }) = next(&mut h) else { return Err("no ReservationReqAccepted{renewed:false}".into()) };
    // renewal arrives while the reservation is active
    mc::vclock::advance(dur - Duration::from_secs(1));
    libp2p_swarm::verif_delay::fire_due();
    let (c2, s2) = reserve_stream();
    keep.push(c2);
    h.on_connection_event(ConnectionEvent::FullyNegotiatedInbound(FullyNegotiatedInbound { protocol: futures::future::Either::Left(s2), info: () }));
    let Some(HEv::ReservationReqReceived { inbound_reservation_req, renewed: true, .. }) = next(&mut h) else { return Err("no ReservationReqReceived{renewed:true}".into()) };
    h.on_behaviour_event(HIn::AcceptReservationReq { inbound_reservation_req, addrs: Vec::new() });
    // the old reservation expires before the handler task runs again
    mc::vclock::advance(Duration::from_secs(2));
    libp2p_swarm::verif_delay::fire_due();
    let r = match next(&mut h) {
        Some(HEv::ReservationTimedOut {}) => match next(&mut h) {
            Some(HEv::ReservationReqAccepted { renewed: false }) => Ok(true),
            other => Err(format!("after ReservationTimedOut: {other:?}")),
        },
        Some(HEv::ReservationReqAccepted { renewed: true }) => Ok(false),
        other => Err(format!("unexpected first event after the deadline: {other:?}")),
    };
    drop(keep);
    r
}
