//! C46 — identify only reports authenticated peer information (E3 fault enumeration: hostile
//! identify / identify-push messages, built with the independent `kit::pb` writer, fed to the
//! real `identify::Handler` over an in-memory `Stream` and from there to the real
//! `identify::Behaviour`).
//!
//! Per case a fresh Behaviour + Handler for one connection whose authenticated peer id is OWN
//! (= P1). Identify replies arrive on an outbound `/ipfs/id/1.0.0` stream
//! (`FullyNegotiatedOutbound`, production `recv_identify`), pushes on an inbound
//! `/ipfs/id/push/1.0.0` stream (`FullyNegotiatedInbound`, production `recv_push`) after an
//! honest identify exchange. Every handler event is passed to
//! `Behaviour::on_connection_handler_event`; the oracle looks at `identify::Event::Received`.
//!
//! Oracle (the three clauses of the statement), for every reported `Info`:
//!  1. `info.public_key` derives OWN;
//!  2. addresses that only occur inside the message's signed peer record are reported, and a
//!     `signed_peer_record` is passed on, only if that record is — by construction of the case —
//!     a record for OWN signed by OWN in the format identify accepts (and untampered);
//!  3. no reported listen address ends in `/p2p/<peer other than OWN>`.
//! Nothing is demanded about *whether* a report is made (the statement says "only if").

use futures::AsyncWriteExt;
use kit::ids::{addr, keypair, peer};
use kit::pb::W;
use kit::tasks::run_ready;
use libp2p_core::transport::PortUse;
use libp2p_core::{ConnectedPoint, Endpoint, PeerRecord, SignedEnvelope};
use libp2p_identify as identify;
use libp2p_swarm::behaviour::ConnectionEstablished;
use libp2p_swarm::handler::{ConnectionEvent, FullyNegotiatedInbound, FullyNegotiatedOutbound};
use libp2p_swarm::{ConnectionHandler, ConnectionHandlerEvent, ConnectionId, FromSwarm, NetworkBehaviour, THandler, ToSwarm};
use mc::{json, Ctx, Meta, Outcome, Value};
use multiaddr::{Multiaddr, Protocol};
use std::task::{Context, Poll};

use crate::streams::stream_pair;

pub const META: Meta = Meta {
    level: "fault_enumeration",
    rule: "identify replies: publicKey in {own, other, undecodable, absent} x signedPeerRecord in {none, own valid, other's valid, record naming OWN signed by OTHER, own with last byte flipped, own in the non-accepted (interop) domain} x listenAddrs in {none, plain, /p2p/own, /p2p/other, relay-through-other, own/p2p-circuit/other, other/p2p-circuit/own, own/p2p-circuit/own, other/p2p-circuit/other, all eight} (the same shapes inside the records); pushes after an honest identify: publicKey in {absent, own, other, undecodable} x the ten listenAddrs variants x record in {none, other's valid}; pushes without a prior identify; and every single-bit flip of the signedPeerRecord field and of the publicKey field of an otherwise honest reply (thorough: also of the whole message). Non-trivial = cases whose message is not the honest one (distinct by case descriptor).",
    explanation: "Fault enumeration over hostile wire messages against the real handler + behaviour; per case the Received events are checked against the three clauses of the statement.",
    assumptions: &["one connection, messages <= 4 KiB", "ed25519 identities", "record addresses and listenAddrs are disjoint by construction so that the source of a reported address is identifiable"],
};

const CONN: usize = 7;

fn own() -> libp2p_identity::PeerId {
    peer(1)
}
fn other() -> libp2p_identity::PeerId {
    peer(2)
}

fn listen_variant(v: u64) -> Vec<Multiaddr> {
    let plain = addr("/ip4/1.1.1.1/tcp/1");
    let p_own = addr("/ip4/1.1.1.2/tcp/2").with(Protocol::P2p(own()));
    let p_other = addr("/ip4/1.1.1.3/tcp/3").with(Protocol::P2p(other()));
    let relay = addr("/ip4/1.1.1.4/tcp/4").with(Protocol::P2p(other())).with(Protocol::P2pCircuit);
    // several /p2p components, every own/other combination; what counts is the LAST one
    let multi = |ip: &str, first: libp2p_identity::PeerId, last: libp2p_identity::PeerId| addr(ip).with(Protocol::P2p(first)).with(Protocol::P2pCircuit).with(Protocol::P2p(last));
    let own_other = multi("/ip4/1.1.1.5/tcp/5", own(), other());
    let other_own = multi("/ip4/1.1.1.6/tcp/6", other(), own());
    let own_own = multi("/ip4/1.1.1.7/tcp/7", own(), own());
    let other_other = multi("/ip4/1.1.1.8/tcp/8", other(), other());
    match v {
        0 => vec![],
        1 => vec![plain],
        2 => vec![p_own],
        3 => vec![p_other],
        4 => vec![relay],
        5 => vec![plain, p_own, p_other, relay, own_other, other_own, own_own, other_other],
        6 => vec![own_other],
        7 => vec![other_own],
        8 => vec![own_own],
        _ => vec![other_other],
    }
}
/// addresses that only ever occur inside records
fn record_addrs() -> Vec<Multiaddr> {
    let multi = |ip: &str, first: libp2p_identity::PeerId, last: libp2p_identity::PeerId| addr(ip).with(Protocol::P2p(first)).with(Protocol::P2pCircuit).with(Protocol::P2p(last));
    vec![
        addr("/ip4/9.9.9.9/tcp/9"),
        addr("/ip4/9.9.9.8/tcp/8").with(Protocol::P2p(other())),
        addr("/ip4/9.9.9.7/tcp/7").with(Protocol::P2p(own())),
        multi("/ip4/9.9.9.6/tcp/6", own(), other()),
        multi("/ip4/9.9.9.5/tcp/5", other(), own()),
        multi("/ip4/9.9.9.4/tcp/4", own(), own()),
        multi("/ip4/9.9.9.3/tcp/3", other(), other()),
    ]
}

const LEGACY_DOMAIN: &str = "libp2p-routing-state";
const LEGACY_TYPE: &[u8] = b"/libp2p/routing-state-record";

/// (bytes, authentic-for-OWN by construction)
fn record_variant(v: u64) -> Option<(Vec<u8>, bool)> {
    let r = record_addrs();
    match v {
        0 => None,
        1 => Some((PeerRecord::new(&keypair(1), r).unwrap().into_signed_envelope().into_protobuf_encoding(), true)),
        2 => Some((PeerRecord::new(&keypair(2), r).unwrap().into_signed_envelope().into_protobuf_encoding(), false)),
        3 => {
            // payload names OWN, envelope signed by OTHER
            let mut payload = W::new().bytes(1, &own().to_bytes()).uint(2, 1);
            for a in &r {
                payload = payload.msg(3, &W::new().bytes(1, &a.to_vec()));
            }
            let env = SignedEnvelope::new(&keypair(2), LEGACY_DOMAIN.to_string(), LEGACY_TYPE.to_vec(), payload.finish()).unwrap();
            Some((env.into_protobuf_encoding(), false))
        }
        4 => {
            let mut b = PeerRecord::new(&keypair(1), r).unwrap().into_signed_envelope().into_protobuf_encoding();
            let n = b.len();
            b[n - 1] ^= 1;
            Some((b, false))
        }
        _ => Some((PeerRecord::new_interop(&keypair(1), r).unwrap().into_signed_envelope().into_protobuf_encoding(), false)),
    }
}

fn key_variant(v: u64) -> Option<Vec<u8>> {
    match v {
        0 => Some(keypair(1).public().encode_protobuf()),
        1 => Some(keypair(2).public().encode_protobuf()),
        2 => Some(vec![0x08, 0x01, 0x12, 0x03, b'a', b'b', b'c']),
        _ => None,
    }
}

fn message(key: Option<&[u8]>, listen: &[Multiaddr], record: Option<&[u8]>) -> Vec<u8> {
    let mut w = W::new().opt_bytes(1, key);
    for a in listen {
        w = w.bytes(2, &a.to_vec());
    }
    w = w.bytes(3, b"/verif/proto/1").bytes(4, &addr("/ip4/5.5.5.5/tcp/5").to_vec()).bytes(5, b"verif/1").bytes(6, b"agent/1");
    w.opt_bytes(8, record).finish()
}

struct Victim {
    /// addresses announced through ToSwarm::NewExternalAddrOfPeer (the behaviour's peer cache)
    announced: Vec<Multiaddr>,
    beh: identify::Behaviour,
    handler: THandler<identify::Behaviour>,
}

impl Victim {
    fn new() -> Victim {
        let mut beh = identify::Behaviour::new(identify::Config::new("verif/1".into(), keypair(0).public()));
        let a = addr("/ip4/10.0.0.1/tcp/4001");
        let handler = beh.handle_established_outbound_connection(ConnectionId::new_unchecked(CONN), own(), &a, Endpoint::Dialer, PortUse::Reuse).expect("handler");
        let ep = ConnectedPoint::Dialer { address: a, role_override: Endpoint::Dialer, port_use: PortUse::Reuse };
        beh.on_swarm_event(FromSwarm::ConnectionEstablished(ConnectionEstablished { peer_id: own(), connection_id: ConnectionId::new_unchecked(CONN), endpoint: &ep, failed_addresses: &[], other_established: 0 }));
        Victim { announced: Vec::new(), beh, handler }
    }

    /// deliver one message (identify reply or push) and return what the behaviour reports
    fn deliver(&mut self, bytes: &[u8], push: bool) -> (Vec<identify::Info>, u32) {
        let (ours, mut theirs) = stream_pair();
        let frame = kit::pb::frame(bytes);
        run_ready(
            async {
                let _ = theirs.write_all(&frame).await;
                let _ = theirs.close().await;
            },
            32,
        )
        .expect("write completes");
        drop(theirs);
        if push {
            self.handler.on_connection_event(ConnectionEvent::FullyNegotiatedInbound(FullyNegotiatedInbound { protocol: futures::future::Either::Right(ours), info: () }));
        } else {
            self.handler.on_connection_event(ConnectionEvent::FullyNegotiatedOutbound(FullyNegotiatedOutbound { protocol: futures::future::Either::Left(ours), info: () }));
        }
        let w = futures::task::noop_waker();
        let mut cx = Context::from_waker(&w);
        let mut errors = 0;
        for _ in 0..32 {
            match self.handler.poll(&mut cx) {
                Poll::Ready(ConnectionHandlerEvent::NotifyBehaviour(ev)) => {
                    self.beh.on_connection_handler_event(own(), ConnectionId::new_unchecked(CONN), ev);
                }
                Poll::Ready(_) => {} // periodic identify request etc.: not under test
                Poll::Pending => break,
            }
        }
        let mut reported = Vec::new();
        for _ in 0..64 {
            match self.beh.poll(&mut cx) {
                Poll::Ready(ToSwarm::GenerateEvent(identify::Event::Received { peer_id, info, .. })) => {
                    assert_eq!(peer_id, own());
                    reported.push(info);
                }
                Poll::Ready(ToSwarm::GenerateEvent(identify::Event::Error { .. })) => errors += 1,
                Poll::Ready(ToSwarm::NewExternalAddrOfPeer { peer_id, address }) => {
                    assert_eq!(peer_id, own());
                    self.announced.push(address);
                }
                Poll::Ready(_) => {}
                Poll::Pending => break,
            }
        }
        (reported, errors)
    }
}

#[derive(Default)]
struct Tally {
    reports: u64,
    reports_with_record_addrs: u64,
    reports_with_listen_addrs: u64,
    silent: u64,
    errors: u64,
    filtered_addr: u64,
    announced: u64,
}

/// the oracle for one reported Info. `record_authentic`: the message's record is a valid OWN record.
fn judge(info: &identify::Info, record_authentic: bool, sent_listen: &[Multiaddr], tally: &mut Tally) -> Result<(), String> {
    if info.public_key.to_peer_id() != own() {
        return Err(format!("reported-with-foreign-key :: Received carries a public key deriving {} on a connection to {}", info.public_key.to_peer_id(), own()));
    }
    let rec = record_addrs();
    let from_record = info.listen_addrs.iter().any(|a| rec.contains(a));
    if from_record {
        tally.reports_with_record_addrs += 1;
    } else if !info.listen_addrs.is_empty() {
        tally.reports_with_listen_addrs += 1;
    }
    if from_record && !record_authentic {
        return Err(format!("addresses-from-unauthenticated-record :: reported listen_addrs {:?} come from a signed peer record that is not a valid record of the connection's peer", info.listen_addrs));
    }
    if info.signed_peer_record.is_some() && !record_authentic {
        return Err("unauthenticated-record-passed-on :: Info.signed_peer_record is Some for a record that is not a valid record of the connection's peer".into());
    }
    for a in &info.listen_addrs {
        // Reading of "names a different /p2p peer": the address's own (last) /p2p component. An
        // inner /p2p is the relay of a circuit address and legitimately differs.
        if let Some(Protocol::P2p(p)) = a.iter().last() {
            if p != own() {
                return Err(format!("listen-addr-names-other-peer :: reported listen address {a} ends in /p2p/{p}"));
            }
        }
        if !rec.contains(a) && !sent_listen.contains(a) && !listen_variant(1).contains(a) {
            return Err(format!("harness-listen-addr-from-nowhere :: reported listen address {a} was in neither listenAddrs nor the record"));
        }
    }
    let used_record: Vec<Multiaddr> = if record_authentic { rec.clone() } else { Vec::new() };
    if sent_listen.iter().chain(used_record.iter()).any(|a| matches!(a.iter().last(), Some(Protocol::P2p(p)) if p != own())) {
        tally.filtered_addr += 1;
    }
    Ok(())
}

/// run one case; returns Err(signature :: details)
fn run_case(case: &Value, tally: &mut Tally) -> Result<(), String> {
    let kind = case["kind"].as_str().unwrap_or("");
    let mut v = Victim::new();
    let honest = message(key_variant(0).as_deref(), &listen_variant(1), None);
    let check = |reported: Vec<identify::Info>, errors: u32, authentic: bool, listen: &[Multiaddr], tally: &mut Tally| -> Result<(), String> {
        tally.errors += errors as u64;
        if reported.is_empty() {
            tally.silent += 1;
        }
        for info in &reported {
            tally.reports += 1;
            judge(info, authentic, listen, tally)?;
        }
        Ok(())
    };
    let r = match kind {
        "identify" => {
            let (k, r, l) = (case["key"].as_u64().unwrap_or(0), case["rec"].as_u64().unwrap_or(0), case["listen"].as_u64().unwrap_or(0));
            let rec = record_variant(r);
            let listen = listen_variant(l);
            let msg = message(key_variant(k).as_deref(), &listen, rec.as_ref().map(|x| x.0.as_slice()));
            let (rep, err) = v.deliver(&msg, false);
            check(rep, err, rec.map(|x| x.1).unwrap_or(false), &listen, tally)
        }
        "push" => {
            let (k, r, l, prior) = (case["key"].as_u64().unwrap_or(3), case["rec"].as_u64().unwrap_or(0), case["listen"].as_u64().unwrap_or(0), case["prior"].as_bool().unwrap_or(true));
            if prior {
                let (rep, err) = v.deliver(&honest, false);
                if rep.len() != 1 {
                    return Err(format!("harness-honest-identify-not-reported :: {} reports, {err} errors", rep.len()));
                }
            }
            let rec = record_variant(r);
            let listen = listen_variant(l);
            let msg = message(key_variant(k).as_deref(), &listen, rec.as_ref().map(|x| x.0.as_slice()));
            let (rep, err) = v.deliver(&msg, true);
            // a push carries no record that identify would use: records are never authentic here
            check(rep, err, false, &listen, tally)?;
            // and the state left behind must not poison a later honest push
            let (rep, err) = v.deliver(&message(None, &listen_variant(1), None), true);
            check(rep, err, false, &listen_variant(1), tally)
        }
        "flip" => {
            // honest reply with an authentic record; one bit flipped inside field `field`
            // (8 = signedPeerRecord, 1 = publicKey, 0 = anywhere in the message)
            let field = case["field"].as_u64().unwrap_or(8);
            let (pos, bit) = (case["pos"].as_u64().unwrap_or(0) as usize, case["bit"].as_u64().unwrap_or(0) as u8);
            let listen = listen_variant(1);
            let mut key = key_variant(0).unwrap();
            let mut rec = record_variant(1).unwrap().0;
            let mut authentic = true;
            match field {
                8 => {
                    rec[pos] ^= 1 << bit;
                    authentic = false; // every bit of the envelope is covered by the signature or breaks decoding
                }
                1 => key[pos] ^= 1 << bit,
                _ => {}
            }
            let mut msg = message(Some(&key), &listen, Some(&rec));
            if field == 0 {
                msg[pos] ^= 1 << bit;
                // a flip anywhere: the record stays authentic only if its bytes are untouched
                let intact = kit::pb::parse(&msg).map(|f| f.iter().any(|x| matches!(x, kit::pb::Field::Bytes(8, b) if *b == rec))).unwrap_or(false);
                authentic = intact;
            }
            let (rep, err) = v.deliver(&msg, false);
            // listen addresses may have been altered by the flip when field == 0: accept any
            // address that is not a record address through `sent_listen` = what the message says
            let sent: Vec<Multiaddr> = kit::pb::parse(&msg).map(|f| f.iter().filter_map(|x| if let kit::pb::Field::Bytes(2, b) = x { Multiaddr::try_from(b.clone()).ok() } else { None }).collect()).unwrap_or_default();
            check(rep, err, authentic, &sent, tally)
        }
        _ => Err("harness-bad-case :: unknown kind".into()),
    };
    r?;
    // what the behaviour cached / announced for the peer obeys clause 3 as well
    for a in &v.announced {
        tally.announced += 1;
        // same rule as for Info.listen_addrs: the trailing /p2p component is the address's peer
        if let Some(Protocol::P2p(p)) = a.iter().last() {
            if p != own() {
                return Err(format!("announced-addr-names-other-peer :: NewExternalAddrOfPeer for {} carries {a}, which ends in /p2p/{p}", own()));
            }
        }
    }
    Ok(())
}

fn cases(thorough: bool) -> Vec<Value> {
    let mut v = Vec::new();
    for k in 0..4 {
        for r in 0..6 {
            for l in 0..10 {
                v.push(json!({"kind": "identify", "key": k, "rec": r, "listen": l}));
            }
        }
    }
    for k in 0..4 {
        for l in 0..10 {
            for r in [0, 2] {
                v.push(json!({"kind": "push", "key": k, "rec": r, "listen": l, "prior": true}));
            }
        }
    }
    for k in 0..4 {
        v.push(json!({"kind": "push", "key": k, "rec": 0, "listen": 5, "prior": false}));
    }
    let rec_len = record_variant(1).unwrap().0.len();
    let key_len = key_variant(0).unwrap().len();
    for pos in 0..rec_len {
        for bit in 0..8 {
            v.push(json!({"kind": "flip", "field": 8, "pos": pos, "bit": bit}));
        }
    }
    for pos in 0..key_len {
        for bit in 0..8 {
            v.push(json!({"kind": "flip", "field": 1, "pos": pos, "bit": bit}));
        }
    }
    if thorough {
        let n = message(key_variant(0).as_deref(), &listen_variant(1), Some(&record_variant(1).unwrap().0)).len();
        for pos in 0..n {
            for bit in 0..8 {
                v.push(json!({"kind": "flip", "field": 0, "pos": pos, "bit": bit}));
            }
        }
    }
    v
}

pub fn run(ctx: &Ctx) -> Outcome {
    let mut out = Outcome::default();
    if let Some(case) = &ctx.replay {
        out.evaluations = 1;
        let mut t = Tally::default();
        match mc::catch(|| run_case(case, &mut t)) {
            Ok(Ok(())) => {}
            Ok(Err(m)) => out.violation(format!("{} [{}]", mc::bfs::signature_of(&m), case["kind"].as_str().unwrap_or("")), m, case.clone()),
            Err(p) => out.violation(format!("panic [{}]", case["kind"].as_str().unwrap_or("")), format!("panic :: {p} at {:?}", mc::shim::last_panic_loc()), case.clone()),
        }
        return out;
    }
    let mut t = Tally::default();
    let all = cases(!ctx.quick());
    for (i, case) in all.iter().enumerate() {
        out.evaluations += 1;
        let kind = case["kind"].as_str().unwrap_or("").to_string();
        out.count(&format!("cases_{kind}"), 1);
        out.nontrivial(&case.to_string());
        if i % 311 == 7 {
            out.sample(case.clone());
        }
        match mc::catch(|| run_case(case, &mut t)) {
            Ok(Ok(())) => {}
            Ok(Err(m)) => out.violation(format!("{} [{kind}]", mc::bfs::signature_of(&m)), format!("{m} [case {case}]"), case.clone()),
            Err(p) => out.violation(format!("panic [{kind}]"), format!("panic :: {p} at {:?} [case {case}]", mc::shim::last_panic_loc()), case.clone()),
        }
    }
    out.count("received_events", t.reports);
    out.count("received_with_record_addresses", t.reports_with_record_addrs);
    out.count("received_with_listen_field_addresses", t.reports_with_listen_addrs);
    out.count("deliveries_without_report", t.silent);
    out.count("identification_errors", t.errors);
    out.count("reports_from_messages_containing_foreign_p2p_addresses", t.filtered_addr);
    out.count("addresses_announced_new_external_addr_of_peer", t.announced);
    for k in ["received_events", "received_with_record_addresses", "received_with_listen_field_addresses", "deliveries_without_report", "identification_errors", "reports_from_messages_containing_foreign_p2p_addresses", "addresses_announced_new_external_addr_of_peer"] {
        if out.get(k) == 0 {
            out.machinery(format!("vacuity: counter {k} is zero"));
        }
    }
    out
}
